import Proofs.Keystore
/-!
# C20 — key material and identities are stable and self-consistent

Statements about the transcriptions in `Model.Keystore` of `Keystore.HasKey / GetKey / CreateKey`
(keystore/keystore.go, over `hashicorp/golang-lru` and one shared `datastore`) and of
`Identities.CreateIdentity` / `OrbitDBIdentityProvider.{GetID, SignIdentity, Sign}`.

Quantification: every operation sequence `ops` (create / get / has / get-or-create / createIdentity /
signEntry / restart, each on any keystore number — there are as many keystores as natural numbers, all
on ONE datastore; a number never used before is a fresh keystore, `restart` empties a cache), every
cache capacity `env.cap` (the LRU shape theorem needs `1 ≤ cap`, as `lru.New` does), every datastore key
normalisation `env.norm` (the real one, `datastore.NewKey`, identifies e.g. `"a"`, `"/a"` and `"a/"`:
"the same id" below therefore means "the same datastore key"), every oracle of fresh key bytes.

Hypothesis H (`wf`): a DIRECT `CreateKey` is only applied to an id whose datastore key holds nothing;
creation through get-or-create (as `CreateIdentity` does) is unrestricted.  Re-creating an existing id
replaces the key by design and is outside "a key once created" (`recreate_breaks_coherence` shows the
hypothesis cannot be dropped).

`State.created` is the ghost log of `CreateKey`: `(id, k)` is in it iff some `CreateKey(id)` — direct, or
inside get-or-create / `CreateIdentity` — generated `k` (`create_logged`, `reads_create_nothing`).
-/
namespace Model.C20
open Model.Keys

/-- final state / observations of a run from the empty datastore with all caches empty -/
abbrev final (env : Env) (C : Crypto) (ops : List Op) : State := (run env C State.init ops).2
abbrev observed (env : Env) (C : Crypto) (ops : List Op) : List Obs := (run env C State.init ops).1

/-- invariant: whatever any keystore has cached for an id is what the datastore holds for it now -/
theorem cache_coherent (env : Env) (C : Crypto) (ops : List Op) (hw : wf env C State.init ops = true)
    (i : Nat) (id : Id) (k : Key) (hc : (id, k) ∈ (final env C ops).caches i) :
    (final env C ops).store.get (env.norm id) = some k :=
  (run_inv C ops (inv_init env) hw).1.cache i id k hc

/-- the cache model is an LRU map: never more than `cap` entries, one entry per id (no hypothesis on ops) -/
theorem cache_bounded (env : Env) (hcap : 1 ≤ env.cap) (C : Crypto) (ops : List Op) (i : Nat) :
    ((final env C ops).caches i).length ≤ env.cap ∧ (((final env C ops).caches i).map (·.1)).Nodup :=
  run_cachesOk hcap C ops (fun _ => Cache.ok_nil _) i

/-- a direct `CreateKey` is logged -/
theorem create_logged (env : Env) (C : Crypto) (s : State) (i : Nat) (id : Id) (k : Key) :
    (id, k) ∈ (step env C s (.create i id k)).2.created := List.mem_cons_self

/-- reading operations and restarts create nothing and leave the datastore alone -/
theorem reads_create_nothing (env : Env) (C : Crypto) (s : State) (hs : Inv env s) (i : Nat) (id : Id) (d : Bytes) :
    SameData s (step env C s (.get i id)).2 ∧ SameData s (step env C s (.has i id)).2
      ∧ SameData s (step env C s (.signEntry i id d)).2 ∧ SameData s (step env C s (.restart i)).2 :=
  ⟨(getKey_spec hs i id).2.2, (hasKey_spec hs i id).2.2, (signEntry_spec C hs i id d).2.2, rfl, rfl⟩

/-- a key once created is reported present and returned identically by EVERY keystore `j` over the
datastore (`j` used before — whatever was evicted from its cache since — or restarted, or fresh), at the
end of every well-formed continuation -/
theorem created_present (env : Env) (C : Crypto) (ops : List Op) (hw : wf env C State.init ops = true)
    (id : Id) (k : Key) (hc : (id, k) ∈ (final env C ops).created) (j : Nat) :
    (hasKey env (final env C ops) j id).1 = HasRes.yes ∧ (getKey env (final env C ops) j id).1 = some k := by
  have hinv := (run_inv C ops (inv_init env) hw).1
  have hs := hinv.created id k hc
  refine ⟨?_, ?_⟩
  · rw [(hasKey_spec hinv j id).1, hs]; rfl
  · rw [(getKey_spec hinv j id).1, hs]

theorem run_append (env : Env) (C : Crypto) (a b : List Op) : ∀ (s : State),
    run env C s (a ++ b) = ((run env C s a).1 ++ (run env C (run env C s a).2 b).1, (run env C (run env C s a).2 b).2) := by
  induction a with
  | nil => intro s; rfl
  | cons op a ih => intro s; simp only [List.cons_append, run, ih]

theorem wf_append (env : Env) (C : Crypto) (a b : List Op) : ∀ (s : State),
    wf env C s (a ++ b) = (wf env C s a && wf env C (run env C s a).2 b) := by
  induction a with
  | nil => intro s; simp [wf, run]
  | cons op a ih => intro s; simp only [List.cons_append, wf, run, ih, Bool.and_assoc]

/-- the same, phrased on the operation sequence: after `CreateKey(id)` generated `k` (on keystore `i`),
whatever well-formed operations `post` follow (evictions, restarts, other keystores), every keystore `j`
has the key and returns `k` -/
theorem created_present_after (env : Env) (C : Crypto) (pre post : List Op) (i : Nat) (id : Id) (k : Key)
    (hw : wf env C State.init (pre ++ Op.create i id k :: post) = true) (j : Nat) :
    (hasKey env (final env C (pre ++ Op.create i id k :: post)) j id).1 = HasRes.yes
      ∧ (getKey env (final env C (pre ++ Op.create i id k :: post)) j id).1 = some k := by
  apply created_present env C _ hw
  have hw' := hw
  rw [wf_append] at hw'
  simp only [Bool.and_eq_true, wf] at hw'
  have hpre := (run_inv C pre (inv_init env) hw'.1).1
  have hstep := step_inv C hpre (Op.create i id k) hw'.2.1
  have hpost := run_inv C post hstep.1 hw'.2.2
  simp only [final, run_append, run]
  exact hpost.2.1 _ (create_logged env C _ i id k)

/-- whatever key any keystore returns at some point (found, or made by get-or-create), every keystore
returns for that id at the end of every well-formed continuation -/
theorem key_stable (env : Env) (C : Crypto) (pre post : List Op)
    (hw : wf env C State.init (pre ++ post) = true) (i : Nat) (id : Id) (k : Key)
    (hg : (getKey env (final env C pre) i id).1 = some k) (j : Nat) :
    (hasKey env (final env C (pre ++ post)) j id).1 = HasRes.yes
      ∧ (getKey env (final env C (pre ++ post)) j id).1 = some k := by
  rw [wf_append] at hw
  simp only [Bool.and_eq_true] at hw
  have hpre := (run_inv C pre (inv_init env) hw.1).1
  have hpost := run_inv C post hpre hw.2
  rw [(getKey_spec hpre i id).1] at hg
  have hs := store_mono hpre hpost.1 hpost.2.1 hg
  simp only [final, run_append]
  refine ⟨?_, ?_⟩
  · rw [(hasKey_spec hpost.1 j id).1, hs]; rfl
  · rw [(getKey_spec hpost.1 j id).1, hs]

/-- an id under whose datastore key nothing was ever created is reported absent by every keystore:
`HasKey` = `(false, ErrKeyNotInKeystore)`, `GetKey` = error -/
theorem never_created_absent (env : Env) (C : Crypto) (ops : List Op) (hw : wf env C State.init ops = true)
    (id : Id) (hn : ∀ id' k, (id', k) ∈ (final env C ops).created → env.norm id' ≠ env.norm id) (j : Nat) :
    (hasKey env (final env C ops) j id).1 = HasRes.err ∧ (getKey env (final env C ops) j id).1 = none := by
  have hinv := (run_inv C ops (inv_init env) hw).1
  have hs : (final env C ops).store.get (env.norm id) = none := by
    cases hh : (final env C ops).store.get (env.norm id) with
    | none => rfl
    | some k =>
      obtain ⟨id', hm, hn'⟩ := hinv.stored _ k hh
      exact absurd hn' (hn id' k hm)
  refine ⟨?_, ?_⟩
  · rw [(hasKey_spec hinv j id).1, hs]; rfl
  · rw [(getKey_spec hinv j id).1, hs]

/-- `CreateIdentity` never fails -/
theorem identity_created (env : Env) (C : Crypto) (ops : List Op) (hw : wf env C State.init ops = true)
    (uid : Id) (r : Option Identity) (ho : Obs.ident uid r ∈ observed env C ops) : r ≠ none := by
  obtain ⟨ku, ki, h1, _, _⟩ := (run_inv C ops (inv_init env) hw).2.2 _ ho uid r rfl
  rw [h1]; simp

/-- creating an identity for the same user id twice — anywhere in the sequence, on the same or on
different keystores, whatever fresh key bytes are offered — yields the same identity (id, public key,
both signatures) -/
theorem identity_deterministic (env : Env) (C : Crypto) (ops : List Op) (hw : wf env C State.init ops = true)
    (uid : Id) (r r' : Option Identity)
    (ho : Obs.ident uid r ∈ observed env C ops) (ho' : Obs.ident uid r' ∈ observed env C ops) : r = r' := by
  have hr := (run_inv C ops (inv_init env) hw).2.2
  obtain ⟨ku, ki, h1, h2, h3⟩ := hr _ ho uid r rfl
  obtain ⟨ku', ki', h1', h2', h3'⟩ := hr _ ho' uid r' rfl
  rw [h2] at h2'
  cases h2'
  rw [h3] at h3'
  cases h3'
  rw [h1, h1']

/-- the id signature verifies under the identity's published public key -/
theorem id_signature_verifies (env : Env) (C : Crypto) (hC : C.Ideal) (ops : List Op)
    (hw : wf env C State.init ops = true) (uid : Id) (I : Identity)
    (ho : Obs.ident uid (some I) ∈ observed env C ops) :
    C.verify I.publicKey I.id I.sigId = true := by
  obtain ⟨ku, ki, h1, _, _⟩ := (run_inv C ops (inv_init env) hw).2.2 _ ho uid _ rfl
  cases h1
  exact hC.verify_u ki _

/-- the public-key signature verifies under the key the id denotes: the id is the hex of a public key
`pk`, `pk` is the public key of the key stored for the user id, and the signature over
`hex(publicKey ++ idSignature)` verifies under `pk` -/
theorem pubkey_signature_verifies (env : Env) (C : Crypto) (hC : C.Ideal) (ops : List Op)
    (hw : wf env C State.init ops = true) (uid : Id) (I : Identity)
    (ho : Obs.ident uid (some I) ∈ observed env C ops) :
    ∃ pk ku, hexDec I.id = some pk ∧ pk = C.pubC ku
      ∧ (final env C ops).store.get (env.norm uid) = some ku
      ∧ C.verify pk (hexEnc (I.publicKey ++ I.sigId)) I.sigPub = true := by
  obtain ⟨ku, ki, h1, h2, _⟩ := (run_inv C ops (inv_init env) hw).2.2 _ ho uid _ rfl
  cases h1
  exact ⟨C.pubC ku, ku, hexDec_hexEnc _ (hC.pubC_byte ku), rfl, h2, hC.verify_c ku _⟩

/-- an entry signed with the identity — `Provider.Sign(identity, data)` through ANY keystore `j` over the
datastore, at the end of any well-formed continuation — gets a signature that verifies under the
published key bytes (`entry.Key = identity.PublicKey`) -/
theorem entry_signature_verifies (env : Env) (C : Crypto) (hC : C.Ideal) (ops : List Op)
    (hw : wf env C State.init ops = true) (uid : Id) (I : Identity)
    (ho : Obs.ident uid (some I) ∈ observed env C ops) (j : Nat) (data : Bytes) :
    ∃ sig, (signEntry env C (final env C ops) j I.id data).1 = some sig
      ∧ C.verify I.publicKey data sig = true := by
  have hr := run_inv C ops (inv_init env) hw
  obtain ⟨ku, ki, h1, _, h3⟩ := hr.2.2 _ ho uid _ rfl
  cases h1
  refine ⟨C.sign ki data, ?_, hC.verify_u ki data⟩
  rw [(signEntry_spec C hr.1 j _ data).1]
  simp only [mkIdentity]
  rw [h3]; rfl

/-! ## non-vacuity -/

/-- a toy signature scheme satisfying `Crypto.Ideal` -/
def toyCrypto : Crypto where
  pubC k := 2 :: k.map (· % 256)
  pubU k := 4 :: k.map (· % 256)
  sign k m := k.map (· % 256) ++ m
  verify pub m sig := pub.tail ++ m == sig

theorem toyCrypto_ideal : toyCrypto.Ideal where
  verify_c k m := by simp [toyCrypto]
  verify_u k m := by simp [toyCrypto]
  pubC_byte k b hb := by
    simp only [toyCrypto, List.mem_cons, List.mem_map] at hb
    rcases hb with h | ⟨a, _, h⟩ <;> omega

/-- capacity 2, the real datastore key normalisation -/
def exEnv : Env := { cap := 2, norm := dsKey }

/-- `dsKey` on samples (`"a"`, `"/a"`, `"a/"`, `"x/../a"`, `"../a"` ↦ `"/a"`; `""`, `"."`, `".."` ↦ `"/"`; `"a//b/."` ↦ `"/a/b"`) -/
example : dsKey [97] = [47, 97] ∧ dsKey [47, 97] = [47, 97] ∧ dsKey [97, 47] = [47, 97]
    ∧ dsKey [120, 47, 46, 46, 47, 97] = [47, 97] ∧ dsKey [46, 46, 47, 97] = [47, 97]
    ∧ dsKey [] = [47] ∧ dsKey [46] = [47] ∧ dsKey [46, 46] = [47]
    ∧ dsKey [97, 47, 47, 98, 47, 46] = [47, 97, 47, 98] := by decide

/-- three ids through keystore 0 (capacity 2: the first is evicted), reads through keystores 0, 1 and a
restarted 0, an alias `/a` of `a`, an identity created on keystore 0 and again on keystore 1, an entry
signature through keystore 2 -/
def exOps : List Op :=
  [.create 0 [97] [1], .create 0 [98] [2], .create 0 [99] [3],
   .has 0 [97], .get 1 [97], .restart 0, .has 0 [99], .get 0 [47, 97], .has 1 [100],
   .createIdentity 0 [117] [7] [8], .create 1 [101] [5], .create 1 [102] [6],
   .createIdentity 1 [117] [9] [10],
   .signEntry 2 (hexEnc (toyCrypto.pubC [7])) [1, 2, 3]]

example : wf exEnv toyCrypto State.init exOps = true := by decide

example : observed exEnv toyCrypto exOps =
    [.unit, .unit, .unit, .has .yes, .key (some [1]), .unit, .has .yes, .key (some [1]), .has .err,
     .ident [117] (some (mkIdentity toyCrypto [7] [8])), .unit, .unit,
     .ident [117] (some (mkIdentity toyCrypto [7] [8])),
     .sig (some ([8] ++ [1, 2, 3]))] := by decide

/-- hypothesis H cannot be dropped: re-creating an id through another keystore leaves the first
keystore's cache stale (`GetKey` keeps returning the replaced key) -/
theorem recreate_breaks_coherence :
    let ops := [Op.create 0 [97] [1], Op.create 1 [97] [2]]
    wf exEnv toyCrypto State.init ops = false
      ∧ (getKey exEnv (final exEnv toyCrypto ops) 0 [97]).1 = some [1]
      ∧ (getKey exEnv (final exEnv toyCrypto ops) 1 [97]).1 = some [2] := by decide

end Model.C20
