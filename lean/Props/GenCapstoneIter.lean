import Props.GenIterator
import Props.C15
/-!
# Props.GenCapstoneIter — C15 statements about the TRANSLATED `Iterator`

`iterator_eq` identifies the translated `IPFSLog.Iterator` (with the model's fuel) with `Model.iterator`; composed
with the theorems of `Props/C15.lean` this gives statements that mention only the generated definition:
what the translated iterator sends, when it reports no error, are entries of the log, at most `amount` of them,
and by default (no bounds) the complete log newest first.
-/
namespace Model.Capstone
open Model Model.Go Model.SlicesGen Model.C15

/-- what the translated iterator sends consists of entries of the log, at most `amount` of them -/
theorem translated_iterator_sound {U : List Entry} {l : Log} (I : Inv U l) (o : IterOpts)
    (hE : ∀ e ∈ l.entries, e.hash ≠ [])
    (hgte : ∀ h, o.gte = some h → h ≠ []) (hgt : ∀ h, o.gt = some h → h ≠ [])
    (out : List Entry)
    (h : Generated.Go.iterator (iterFuel l o) l.entries (before l.sortFn) l.heads o.amount o.lte o.lt o.gte o.gt = some out) :
    (∀ x ∈ out, x ∈ l.entries) ∧ (∀ a, o.amount = some a → 0 ≤ a → out.length ≤ a.toNat) := by
  have hH : ∀ e ∈ l.heads, e.hash ≠ [] := fun e he => hE e (I.headsIn e he)
  rw [iterator_eq l o hE hH hgte hgt] at h
  cases hi : iterator l o with
  | ok out' c =>
    rw [hi] at h
    have : out' = out := Option.some.inj h
    subst this
    exact ⟨emits_entries I o out' c hi, fun a ha h0 => at_most_amount l o a ha h0 out' c hi⟩
  | errLTE => rw [hi] at h; cases h
  | errLT => rw [hi] at h; cases h

/-- without bounds the translated iterator sends the whole log, newest first -/
theorem translated_iterator_default {U : List Entry} {l : Log} (I : Inv U l) (ho : OrderOk l.sortFn l.entries)
    (hE : ∀ e ∈ l.entries, e.hash ≠ []) :
    Generated.Go.iterator (iterFuel l {}) l.entries (before l.sortFn) l.heads none none none none none =
      some (values l).reverse := by
  have hH : ∀ e ∈ l.heads, e.hash ≠ [] := fun e he => hE e (I.headsIn e he)
  have := iterator_eq l {} hE hH (fun h hh => by cases hh) (fun h hh => by cases hh)
  rw [default_is_reverse_values I ho] at this
  exact this

end Model.Capstone
