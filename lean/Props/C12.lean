import Proofs.Codec
/-!
# C12 — untrusted blocks and manifests cannot crash the process

The byte-level decoders (refmt CBOR, `encoding/json`, protobuf, `cid.Cast`) are library code and are
exercised on malformed inputs by the `codec` stream under `recover`.  What is proved here is the part
the repository owns: from *any* value of the serialisable structs (every field arbitrary, every
pointer possibly nil, every string possibly not hex) the conversion to a plain entry returns a value
or an error — never the outcome `panic` — and an entry it returns is safe to use.
-/
namespace Model.C12
open Model Model.Cbor Model.Codec

/-- `Entry.ToPlain` never panics, whatever the decoded struct contains -/
theorem toPlain_total (j : JEntry) : toPlainEntry j ≠ .panic := toPlainEntry_total j

theorem toPlainIdentity_total (i : JIdentity) : toPlainIdentity i ≠ .panic := Model.Codec.toPlainIdentity_total i

theorem toPlainSignatures_total (s : JSig) : toPlainSig s ≠ .panic := toPlainSig_total s

theorem toPlainClock_total (c : JClock) : toPlainClock c ≠ .panic := Model.Codec.toPlainClock_total c

/-- `EntryV0.ToPlain` (legacy codec), for any `cid.Parse` -/
theorem toPlainV0_total (parseCid : Bytes → Option Bytes) (j : JEntryV0) : toPlainEntryV0 parseCid j ≠ .panic :=
  toPlainEntryV0_total parseCid j

/-- `DecodeRawEntry` after the library decoder: link decryption (any key, any crypto behaviour) and
    `ToPlain` never panic -/
theorem decode_total (C : Crypto) (k : Option Bytes) (hash : Bytes) (j : JEntry) : decodeJEntry C k hash j ≠ .panic :=
  decodeJEntry_total C k hash j

theorem decodeRaw_total (C : Crypto) (k : Option Bytes) (hash raw : Bytes) : decodeRawEntry C k hash raw ≠ .panic :=
  decodeRawEntry_total C k hash raw

/-- the nil check on `Clock` is what makes `toPlain_total` true: the same function without it
    panics on a well-formed block that has no clock -/
theorem without_clock_check_panics : toPlainEntryNoCheck {} = .panic := by decide

/-- a decoded entry has a clock, and an identity with signatures -/
theorem decoded_has_clock (C : Crypto) (k : Option Bytes) (hash : Bytes) (j : JEntry) (e : PEntry)
    (h : decodeJEntry C k hash j = .ok e) : safeEntry e := by
  unfold decodeJEntry at h
  cases hd : decryptLinks C k j with
  | panic => simp [hd, Outcome.bind] at h
  | err x => simp [hd, Outcome.bind] at h
  | ok j' =>
    cases hp : toPlainEntry j' with
    | panic => simp [hd, hp, Outcome.bind] at h
    | err x => simp [hd, hp, Outcome.bind] at h
    | ok e' =>
      simp only [hd, hp, Outcome.bind, Outcome.ok.injEq] at h
      subst h
      exact toPlainEntry_clock j' e' hp

/-- every accessor, comparison, `Equals`, `IsParent`, `ToHashable`, `Normalize`, `ToJsonableEntry`,
    `Write`, `PreSign` and `Verify` returns a value or an error on decoded entries -/
theorem decoded_safe (C : Crypto) (cidStr : Bytes → Bytes) (k k2 : Option Bytes) (sigOk : Hashable → Bytes → Bytes → Bool)
    (pre : Bool) (h1 h2 : Bytes) (j1 j2 : JEntry) (a b : PEntry)
    (ha : decodeJEntry C k h1 j1 = .ok a) (hb : decodeJEntry C k h2 j2 = .ok b) :
    a.clock.isSome = true ∧
    opClockTime a ≠ .panic ∧ opCompare a b ≠ .panic ∧ opEquals a b ≠ .panic ∧ opIsParent a b ≠ .panic ∧
    toHashable a ≠ .panic ∧ normalize pre a ≠ .panic ∧ jsonOf cidStr a ≠ .panic ∧ writeEntry cidStr a ≠ .panic ∧
    preSign C cidStr k2 a ≠ .panic ∧ opVerify C cidStr k2 sigOk a ≠ .panic :=
  ⟨(decoded_has_clock C k h1 j1 a ha).1,
   safe_ops C cidStr k2 sigOk pre a b (decoded_has_clock C k h1 j1 a ha) (decoded_has_clock C k h2 j2 b hb)⟩

/-- a stored log with undecodable blocks: every loaded entry comes from a block that decoded
    successfully (the others are skipped), whatever the blocks contain; nothing in the computation can
    panic since `decodeRawEntry` cannot (`decodeRaw_total`) -/
theorem load_skips_undecodable (C : Crypto) (k : Option Bytes) (blocks : List (Bytes × Bytes)) (roots : List Bytes) :
    ∀ x ∈ loadAll C k blocks roots,
      ∃ h raw e, (h, raw) ∈ blocks ∧ decodeRawEntry C k h raw = .ok e ∧ x = coreEntry e := by
  intro x hx
  have := reach_subset _ _ x hx
  simp only [decodableStore, List.mem_filterMap] at this
  obtain ⟨⟨h, raw⟩, hm, hs⟩ := this
  refine ⟨h, raw, ?_⟩
  cases hd : decodeRawEntry C k h raw with
  | ok e =>
    simp only [hd, Option.some.injEq] at hs
    exact ⟨e, hm, rfl, hs.symm⟩
  | err _ => simp [hd] at hs
  | panic => simp [hd] at hs

/-! ### the statements are not vacuous -/

/-- a block without clock is an error, not a crash -/
example : toPlainEntry {} = .err .clock := by decide
/-- an identity without signatures is an error -/
example : toPlainIdentity {} = .err .identitySig := by decide
/-- some entry does decode -/
example : ∃ e, decodeJEntry ⟨fun _ _ m => m, fun _ _ c => some c, fun _ => [0]⟩ none [9]
    { key := [48, 52], clock := some { id := [48, 52], time := 1 } } = .ok e := ⟨_, rfl⟩

end Model.C12
