import Props.GenLoaders
import Props.C10
/-!
# Props.GenCapstoneLoad — the C10 statement about the TRANSLATED glue of `NewFromEntry`

For every accepted, quiescent, un-cancelled execution of the bounded fetcher (any concurrency, any heap order, any
arrival order) run with the length the translated `fromEntryLength` computes, the translated `fromEntryTail` makes
of the fetch result — without panicking — a list whose entries are the keeping cut of the *whole* sorted closure:
every supplied entry, `min (max n k) size` entries in all, independent of the schedule.
-/
namespace Model.Capstone
open Model Model.Go Model.SlicesGen Model.C10

theorem translated_limited_load (cfg : FCfg) (roots : List Hash) (evs : List FEvent) (s : FState)
    (source : List Entry) (n : Int) (hn : 0 ≤ n) (hne : source ≠ [])
    (hlen : cfg.length = Generated.Go.fromEntryLength (some n) source)
    (hsrc : ∀ e ∈ source, e ∈ reach cfg.store roots)
    (hex : ∀ h, cfg.excluded h = false) (hcl : ClosedStore cfg roots) (hti : TimesIncrease cfg)
    (hrefs : ∀ h e, Anc cfg roots h → get? cfg.store h = some e → ∀ c ∈ e.refs, Anc cfg roots c)
    (hsto : STO clockAsc (· ∈ reach cfg.store roots))
    (hasym : ∀ a b, a ∈ reach cfg.store roots → b ∈ reach cfg.store roots → clockAsc a b = true → clockAsc b a = false)
    (htime : ∀ a b, a ∈ reach cfg.store roots → b ∈ reach cfg.store roots →
      a.clock.time < b.clock.time → clockAsc a b = true)
    (h : accepted cfg roots evs = some s) (hq : quiescent s) (hc : s.cancelled = false) :
    ∃ (id : Bytes) (ents : List Entry),
      Generated.Go.fromEntryTail [] source s.results (Generated.Go.fromEntryLength (some n) source) = some (id, ents) ∧
      omFromList ents = lastNKeeping cfg.length (goSort clockAsc (reach cfg.store roots)) source ∧
      (∀ e ∈ source, e ∈ omFromList ents) ∧
      (omFromList ents).length = min cfg.length.toNat (reach cfg.store roots).length := by
  have hlen' : cfg.length = max n (source.length : Int) := by
    rw [hlen, fromEntryLength_eq]
    simp only [Option.getD_some]
    rw [if_pos (by omega)]
  obtain ⟨L, hL, h1, h2, h3, _⟩ := load_entries_limited_exact cfg roots evs s [] .lww source n hn hne hlen' hsrc hex hcl hti
    hrefs hsto hasym htime h hq hc
  have heq := fromEntry_eq [] .lww source s.results (some n)
  simp only [Option.getD_some] at heq
  rw [hL] at heq
  cases hr : Generated.Go.fromEntryTail [] source s.results (Generated.Go.fromEntryLength (some n) source) with
  | none => rw [hr] at heq; cases heq
  | some r =>
    rw [hr] at heq
    have hLr : newLog r.1 [] .lww r.2 [] = L := Option.some.inj heq
    refine ⟨r.1, r.2, rfl, ?_, ?_, ?_⟩
    · rw [← h1, ← hLr]; rfl
    · intro e he; have := h2 e he; rw [← hLr] at this; exact this
    · rw [← h3, ← hLr]; rfl

end Model.Capstone
