import Generated.GenNewLog
import Props.GenCommon
import Props.GenHeads
import Props.GenMisc
import Props.C19Gen
import Proofs.LoadersUnbounded
/-!
# Props.GenNewLog — what `NewLog` (log.go) computes from the entries, heads and clock of its options, translated,
is the model's `newLog`

The translation keeps the statements about `options.Clock`, `options.Heads`, `options.Entries` and the `Next` index
and leaves out the plumbing of the other options (id default, ordering default, access controller, concurrency,
codec); it checks that the returned log takes its `Entries`, `heads`, `Next` and `Clock` from exactly these.
`newLogCore_eq`: for an entry map (distinct hashes) and no clock option it returns the clock time, the heads and the
index keys of the model's `newLog`.
-/
namespace Model.SlicesGen
open Model Model.Go

theorem newLogCore_eq (id clockId : Bytes) (k : SortKind) (entries heads : List Entry)
    (hE : (hashes entries).Nodup) :
    Generated.Go.newLogCore none heads entries =
      ((newLog id clockId k entries heads).clock.time, (newLog id clockId k entries heads).heads,
       (newLog id clockId k entries heads).nextIdx) := by
  unfold Generated.Go.newLogCore newLog
  have hom : omFromList entries = entries := omFromList_id hE
  simp only [Option.isSome_none, Bool.false_eq_true, if_false, maxClockTimeForEntries_eq, findHeads_eq, hom,
    setInsert_eq_hsSet']
  have hcond : (((heads.length : Int) == 0) && decide ((entries.length : Int) > 0)) =
      decide (heads.length = 0 ∧ entries.length > 0) := by
    by_cases h1 : heads.length = 0 <;> by_cases h2 : entries.length > 0 <;> simp [h1, h2] <;> omega
  rw [hcond]
  by_cases hc : heads.length = 0 ∧ entries.length > 0 <;> simp [hc]

end Model.SlicesGen
