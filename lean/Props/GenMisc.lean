import Generated.GenMisc
import Props.GenCommon
import Props.C19Gen
/-!
# Props.GenMisc — `maxClockTimeForEntries` (log.go) = `maxTime`; `uniqueCIDs` (entry/entry.go) = `dedupHashes` = the codec model's `uniq`

`Generated/GenMisc.lean` is produced on every run by `harness/cmd/extract/translate2.go` from the Go source; the
theorems identify it with the hand-written model the property theorems are about.
-/
namespace Model.SlicesGen
open Model Model.Go Model.Codec

theorem maxClockTimeForEntries_eq (es : List Entry) (d : Int) :
    Generated.Go.maxClockTimeForEntries es d = maxTime es d := by
  simp only [Generated.Go.maxClockTimeForEntries, maxTime, C19Gen.maxInt_eq]

theorem uniqueCIDs_eq (cids : List Hash) : Generated.Go.uniqueCIDs cids = dedupHashes cids [] := by
  unfold Generated.Go.uniqueCIDs
  simp only
  have key : ∀ (l : List Hash) (acc : List Hash),
      (l.foldl (fun (x : List Hash × List Hash) c =>
        if x.1.contains c = true then (x.1, x.2) else (setInsert x.1 c, x.2 ++ [c])) (acc, acc)).2 = dedupHashes l acc := by
    intro l
    induction l with
    | nil => intro acc; rfl
    | cons c t ih =>
      intro acc
      rw [List.foldl_cons, dedupHashes]
      by_cases hc : acc.contains c = true
      · simp only [hc, if_true]; exact ih acc
      · simp only [hc, Bool.false_eq_true, if_false]
        have : setInsert acc c = acc ++ [c] := by unfold setInsert; simp only [hc, Bool.false_eq_true, if_false]
        rw [this]; exact ih (acc ++ [c])
  rw [← key cids []]

theorem uniqueCIDs_eq_uniq (cids : List Hash) : Generated.Go.uniqueCIDs cids = uniq cids := by
  rw [uniqueCIDs_eq, uniq_eq_dedup]

theorem fold_max_comm (hs : List Entry) : ∀ (t : Int),
    hs.foldl (fun t h => max t h.clock.time) t = maxTime hs t := by
  unfold maxTime
  induction hs with
  | nil => intro t; rfl
  | cons h tl ih => intro t; simp only [List.foldl_cons, ih, Int.max_comm]

/-- `SetIdentity`, translated: the clock the model's `setIdentity` installs (whether the maximum over the heads is the
    hand-written loop or a call of `maxClockTimeForEntries`) -/
theorem setIdentity_eq (l : Log) (cid : Bytes) :
    Generated.Go.setIdentity l.heads l.clock.id l.clock.time cid =
      ((setIdentity l cid).clock.id, (setIdentity l cid).clock.time) := by
  unfold Generated.Go.setIdentity setIdentity
  simp only [C19Gen.maxInt_eq, maxClockTimeForEntries_eq, fold_max_comm]

end Model.SlicesGen
