import Proofs.Codec
/-!
# C08 — entry encoding is canonical and decoding is its exact inverse

`cborEntry`/`cborEntryV1`/`cborManifest` are the bytes `cbornode.WrapObject` produces through the atlas
of `io/cbor/cbor.go` (tied byte for byte to the real encoder by the `codec` stream); `decodeEntry`/
`decodeManifest` read a block into the struct; `jsonOf` is `Normalize` + `ToJsonableEntry`,
`toPlainEntry` is `Entry.ToPlain`, `writeEntry` is `IOCbor.Write`, `decodeRawEntry` is
`IOCbor.DecodeRawEntry`.

Hypotheses used below (none of them is ever false of a value held by a Go program that was created
by `CreateEntry` or returned by a decoder):
* `JEntry.wf` / `JLog.wf` / `PEntry.fits`: `V` is a `uint64`, the clock time an `int64`, every length
  is below 2^64;
* `PEntry.encodable`: byte fields that are hex-encoded hold bytes (< 256), the clock pointer is set
  and an identity has its signatures (otherwise `Write` panics, see C12);
* `noEncLinks`: the default codec — the entry does not carry encrypted-link additional data;
* `linksDefined`: no undefined CID among the links (otherwise `Write` returns an error).

The content identifier is `CIDv1(dag-cbor, sha2-256(block))`: equal blocks have equal identifiers;
the hash function and the CID layer are not modelled (the stream compares real CIDs).
-/
namespace Model.C08
open Model Model.Cbor Model.Codec

/-- decoding a v2 entry block gives back the serialisable value, for all field values -/
theorem cbor_roundtrip (j : JEntry) (h : j.wf) : decodeEntry (cborEntry j) = some j :=
  entry_roundtrip j h

/-- a v1 block (no `refs`, no encrypted-link fields) decodes to the same value with those fields zero -/
theorem cbor_roundtrip_v1 (j : JEntry) (h : j.wf) :
    decodeEntry (cborEntryV1 j) = some { j with refs := none, encLinks := [], encNonce := [] } :=
  entryV1_roundtrip j h

/-- decoding a manifest block gives back the manifest -/
theorem manifest_roundtrip (m : JLog) (h : m.wf) : decodeManifest (cborManifest m) = some m :=
  Model.Cbor.manifest_roundtrip m h

/-- `ToPlain ∘ ToJsonable` gives back every field (any payload bytes), the hash and the additional
    data excepted (they are not part of the serialisable value) -/
theorem toPlain_toJsonable (cidStr : Bytes → Bytes) (e : PEntry) (hv : 2 ≤ e.v) (h : e.encodable) (ha : noEncLinks e) :
    ∃ j, jsonOf cidStr e = .ok (.v2 j) ∧ toPlainEntry j = .ok { e with hash := none, add := [] } :=
  ⟨jV2Of e, jsonOf_v2 cidStr e hv h ha, toPlain_jV2Of e h⟩

/-- the same for a version-1 entry: `refs` is not stored -/
theorem toPlain_toJsonable_v1 (cidStr : Bytes → Bytes) (e : PEntry) (hv : e.v = 1) (h : e.encodable) :
    ∃ j, jsonOf cidStr e = .ok (.v1 j) ∧
      toPlainEntry { j with refs := none } = .ok { e with refs := none, hash := none, add := [] } := by
  refine ⟨_, jsonOf_v1 cidStr e hv h, ?_⟩
  have := toPlain_jV2Of { e with refs := none } h
  simpa [jV2Of] using this

/-- writing an entry with the default codec and reading the block back yields an entry equal in every
    field (the hash is the block's identifier; additional data is not stored) -/
theorem write_read (C : Crypto) (cidStr : Bytes → Bytes) (e : PEntry) (hh : Bytes) (hv : 2 ≤ e.v) (h : e.encodable)
    (ha : noEncLinks e) (hf : e.fits) (hd : linksDefined e.next = true ∧ linksDefined e.refs = true) :
    ∃ b, writeEntry cidStr e = .ok b ∧ decodeRawEntry C none hh b = .ok { e with hash := some hh, add := [] } := by
  refine ⟨cborEntry (jV2Of e), ?_, ?_⟩
  · have h1 : linksDefined (jV2Of e).next = true := hd.1
    have h2 : linksDefined (jV2Of e).refs = true := hd.2
    simp [writeEntry, jsonOf_v2 cidStr e hv h ha, Outcome.bind, h1, h2]
  · simp [decodeRawEntry, entry_roundtrip _ (jV2Of_wf e hf), decodeJEntry, decryptLinks, Outcome.bind, toPlain_jV2Of e h]

/-- re-encoding the decoded entry gives the same block, hence the same content identifier -/
theorem reencode_same (C : Crypto) (cidStr : Bytes → Bytes) (e : PEntry) (hh : Bytes) (hv : 2 ≤ e.v) (h : e.encodable)
    (ha : noEncLinks e) (hf : e.fits) (hd : linksDefined e.next = true ∧ linksDefined e.refs = true) :
    ∀ b e', writeEntry cidStr e = .ok b → decodeRawEntry C none hh b = .ok e' → writeEntry cidStr e' = .ok b := by
  intro b e' hw hr
  obtain ⟨b0, hw0, hr0⟩ := write_read C cidStr e hh hv h ha hf hd
  rw [hw0] at hw
  injection hw with hw
  subst hw
  rw [hr0] at hr
  injection hr with hr
  subst hr
  rw [← hw0]
  have hc : jsonOf cidStr { e with hash := some hh, add := [] } = jsonOf cidStr e := by
    rw [jsonOf_v2 cidStr e hv h ha]
    exact jsonOf_v2 cidStr _ hv h (Or.inl rfl)
  simp only [writeEntry, hc]

/-- version-1 entries (legacy blocks without `refs`): write, read back, re-encode -/
theorem write_read_v1 (C : Crypto) (cidStr : Bytes → Bytes) (e : PEntry) (hh : Bytes) (hv : e.v = 1) (h : e.encodable)
    (hf : e.fits) (hd : linksDefined e.next = true) :
    ∃ b, writeEntry cidStr e = .ok b ∧
      decodeRawEntry C none hh b = .ok { e with refs := none, hash := some hh, add := [] } ∧
      writeEntry cidStr { e with refs := none, hash := some hh, add := [] } = .ok b := by
  have hd' : linksDefined (jV2Of e).next = true := hd
  refine ⟨cborEntryV1 (jV2Of e), ?_, ?_, ?_⟩
  · simp [writeEntry, jsonOf_v1 cidStr e hv h, Outcome.bind, hd']
    rfl
  · have hp := toPlain_jV2Of { e with refs := none } h
    simp only [decodeRawEntry, entryV1_roundtrip _ (jV2Of_wf e hf), decodeJEntry, decryptLinks, Outcome.bind]
    have e1 : ({ jV2Of e with refs := none, encLinks := [], encNonce := [] } : JEntry) = jV2Of { e with refs := none } := by
      simp [jV2Of]
    rw [e1, hp]
  · have hj := jsonOf_v1 cidStr { e with refs := none, hash := some hh, add := [] } hv h
    simp only [writeEntry, hj, Outcome.bind]
    have hd'' : linksDefined (jV2Of { e with refs := none, hash := some hh, add := [] }).next = true := hd
    simp only [hd'', if_true]
    rfl

/-- the block does not depend on how the additional-data map is laid out in memory (Go map iteration
    order), only on what its keys map to; all other inputs of the encoder are ordered lists -/
theorem encoding_ignores_map_order (cidStr : Bytes → Bytes) (e : PEntry) (a1 a2 : List (Bytes × Bytes))
    (h : ∀ k, lookup k a1 = lookup k a2) :
    writeEntry cidStr { e with add := a1 } = writeEntry cidStr { e with add := a2 } := by
  simp only [writeEntry, jsonOf_add_congr cidStr e a1 a2 h]

/-- with a link key: the entry read back with the same key is equal in every field to the entry
    that was created (links de-duplicated as `Entry.Copy` does before signing) -/
theorem linkkey_write_read (C : Crypto) (L : CryptoLaws C) (cidStr : Bytes → Bytes) (k : Bytes) (hk : keyOk k)
    (e : PEntry) (hh : Bytes) (h : LinkEntry e) :
    ∃ j, storedView C cidStr (some k) e = .ok (.v2 j) ∧
      (j.wf → decodeRawEntry C (some k) hh (cborEntry j) = .ok (readBack e hh)) := by
  obtain ⟨ref, _, hs⟩ := storedView_eq C cidStr k e h
  refine ⟨_, hs, fun hw => ?_⟩
  simp only [decodeRawEntry, entry_roundtrip _ hw, decodeJEntry,
    decryptLinks_same_key C L k ref e hk h.hwfN h.hwfR h.hbN h.hbR, Outcome.bind, toPlain_storedJ_links C k ref e h.henc]
  rfl

/-! ### the hypotheses are satisfiable -/

def sampleEntry : PEntry :=
  { payload := [104, 255, 0], logId := [65], next := some [[1, 113, 18, 1, 7]], refs := some [], v := 2, key := [4, 200],
    sig := [48, 1], identity := some { id := [105], publicKey := [4, 9], signatures := some { id := [1], publicKey := [2] }, typ := [111] },
    clock := some { id := [4, 200], time := -3 } }

theorem sample_encodable : sampleEntry.encodable :=
  ⟨by decide, by decide, ⟨_, rfl, by decide⟩, fun i hi => by
    simp only [sampleEntry, Option.some.injEq] at hi
    subst hi
    exact ⟨by decide, _, rfl, by decide, by decide⟩⟩

theorem sample_fits : sampleEntry.fits := by
  refine ⟨by decide, by decide, by decide, by decide, ⟨by decide, by decide⟩, ⟨by decide, by decide⟩, ?_, by decide, ?_⟩
  · intro c hc
    simp only [sampleEntry, Option.some.injEq] at hc
    subst hc
    decide
  · intro i hi
    simp only [sampleEntry, Option.some.injEq] at hi
    subst hi
    refine ⟨by decide, by decide, by decide, ?_⟩
    intro s hs
    simp only [Option.some.injEq] at hs
    subst hs
    exact ⟨by decide, by decide⟩

example : ∃ b, writeEntry id sampleEntry = .ok b ∧
    decodeRawEntry ⟨fun _ _ m => m, fun _ _ c => some c, fun _ => [0]⟩ none [9] b =
      .ok { sampleEntry with hash := some [9], add := [] } :=
  write_read _ id sampleEntry [9] (by decide) sample_encodable (Or.inl rfl) sample_fits ⟨by decide, by decide⟩

example : (jV2Of sampleEntry).wf := jV2Of_wf _ sample_fits

end Model.C08
