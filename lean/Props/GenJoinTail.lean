import Generated.GenJoinTail
import Props.GenCommon
import Props.GenHeads
import Props.GenMisc
import Props.C19Gen
import Proofs.OMap
/-!
# Props.GenJoinTail — what `Join` does once its candidates are admitted (log.go, after the hook
`join.publish`), translated, is the model's `joinClock ∘ joinTrim size ∘ joinMerge`

The region is translated with the log's fields as parameters and results (`Entries`, `heads`, the key set of
`Next`, the clock), `l.values()` as a parameter applied to the current entries and heads, the loop that
marks heads `nil` as a filter (the marked slice only feeds `NewOrderedMapFromEntries`), and the slice
expression of the size cap as an `Option`.  `joinTail_eq`: for every log, every view of the other log and
every size the translated code returns `some` (no slice panic) of exactly the state the model's `join`
publishes.
-/
namespace Model.SlicesGen
open Model Model.Go

theorem setInsert_eq_hsSet : setInsert = hsSet := by
  funext m k; rfl

/-- the publication loop updates `Entries` and `Next` independently -/
theorem publish_fold (newItems : List Entry) : ∀ (E : List Entry) (N : List Hash),
    newItems.foldl (fun (x : List Entry × List Hash) k =>
      (omSet x.1 k, k.next.foldl (fun lNext next => setInsert lNext next) x.2)) (E, N) =
    (newItems.foldl omSet E, newItems.foldl (fun idx e => e.next.foldl hsSet idx) N) := by
  induction newItems with
  | nil => intro E N; rfl
  | cons k t ih =>
    intro E N
    simp only [List.foldl_cons]
    rw [ih]
    rfl

/-- the set of hashes named by the new items, as the code builds it (a key set) and as the model does
    (a concatenation): the same members -/
theorem named_sameSet (newItems : List Entry) : ∀ (S L : List Hash), SameSet S L →
    SameSet (newItems.foldl (fun s k => k.next.foldl (fun s n => setInsert s n) s) S)
      (newItems.foldl (fun acc e => acc ++ e.next) L) := by
  induction newItems with
  | nil => intro S L h; exact h
  | cons k t ih =>
    intro S L h
    simp only [List.foldl_cons]
    apply ih
    -- inner: inserting the elements of a list one by one = appending it, as sets
    have inner : ∀ (cs : List Hash) (S L : List Hash), SameSet S L →
        SameSet (cs.foldl (fun s n => setInsert s n) S) (L ++ cs) := by
      intro cs
      induction cs with
      | nil => intro S L h; simpa using h
      | cons c cs ihc =>
        intro S L h
        simp only [List.foldl_cons]
        have := ihc (setInsert S c) (L ++ [c]) (by
          intro x
          rw [contains_setInsert, h x, List.contains_append, List.contains_cons, List.contains_nil, Bool.or_false])
        simpa [List.append_assoc] using this
    exact inner k.next S L h

/-- the admitted heads: the code sets them one by one, the model filters -/
theorem admitted_fold (E : List Entry) (otherH : List Entry) : ∀ (acc : List Entry),
    otherH.foldl (fun adm h => if (get? E h.hash).isSome = true then omSet adm ((get? E h.hash).getD default) else adm) acc =
      (otherH.filterMap (fun h => get? E h.hash)).foldl omSet acc := by
  induction otherH with
  | nil => intro acc; rfl
  | cons h t ih =>
    intro acc
    simp only [List.foldl_cons, List.filterMap_cons]
    cases hg : get? E h.hash with
    | none => simpa using ih acc
    | some own => simpa using ih (omSet acc own)

/-- inserting an already de-duplicated copy of a list is inserting the list -/
theorem foldl_omSet_idem (B : List Entry) : ∀ (C acc : List Entry),
    (B.foldl omSet C).foldl omSet acc = B.foldl omSet (C.foldl omSet acc) := by
  induction B with
  | nil => intro C acc; rfl
  | cons b t ih =>
    intro C acc
    simp only [List.foldl_cons]
    rw [ih]
    congr 1
    cases hh : has C b.hash with
    | true =>
      rw [omSet_of_has hh]
      have : has (C.foldl omSet acc) b.hash = true := by rw [has_foldl_omSet, hh, Bool.or_true]
      rw [omSet_of_has this]
    | false =>
      rw [omSet_of_not_has hh, List.foldl_append]
      rfl

theorem omMerge_omFromList (A B : List Entry) : omMerge A (B.foldl omSet []) = omMerge A B := by
  unfold omMerge
  rw [foldl_omSet_idem B [] (A.foldl omSet [])]
  rfl

/-- **the tail of `Join`, translated, publishes exactly the state of the model's `join`** (and its size cap cannot
    panic: the result is `some`) -/
theorem joinTail_eq (l : Log) (otherE otherH : List Entry) (size : Int) :
    Generated.Go.joinTail (fun E H => values { l with entries := E, heads := H })
      l.entries l.nextIdx l.heads l.clock.id l.clock.time (difference otherE otherH l) otherH size =
    some ((joinClock (joinTrim (joinMerge l otherE otherH) size)).clock.id,
          (joinClock (joinTrim (joinMerge l otherE otherH) size)).clock.time,
          (joinClock (joinTrim (joinMerge l otherE otherH) size)).entries,
          (joinClock (joinTrim (joinMerge l otherE otherH) size)).nextIdx,
          (joinClock (joinTrim (joinMerge l otherE otherH) size)).heads) := by
  unfold Generated.Go.joinTail Generated.Go.joinTail_join2 Generated.Go.joinTail_join1
  simp only [gohelper, publish_fold, admitted_fold, findHeads_eq, maxClockTimeForEntries_eq, C19Gen.maxInt_eq]
  -- the three conditions under which a merged head is dropped: as the code tests them = as the model does
  have hfilter : (fun (e : Entry) =>
        !(List.foldl (fun nextsFromNewItems (k : Entry) =>
              List.foldl (fun lNext next => setInsert lNext next) nextsFromNewItems k.next) [] (difference otherE otherH l)).contains e.hash &&
          !(List.foldl (fun idx (e : Entry) => List.foldl hsSet idx e.next) l.nextIdx (difference otherE otherH l)).contains e.hash &&
          !!(get? (List.foldl omSet l.entries (difference otherE otherH l)) e.hash).isSome) =
      (fun (e : Entry) =>
        !(List.foldl (fun acc (e : Entry) => acc ++ e.next) [] (difference otherE otherH l)).contains e.hash &&
          !(List.foldl (fun idx (e : Entry) => List.foldl hsSet idx e.next) l.nextIdx (difference otherE otherH l)).contains e.hash &&
          has (List.foldl omSet l.entries (difference otherE otherH l)) e.hash) := by
    funext e
    rw [named_sameSet (difference otherE otherH l) [] [] (fun _ => rfl) e.hash, get?_isSome, Bool.not_not]
  simp only [hfilter, omMerge_omFromList]
  -- now every component is the model's `joinMerge`
  have hm : joinMerge l otherE otherH =
      { l with
        entries := List.foldl omSet l.entries (difference otherE otherH l),
        nextIdx := List.foldl (fun idx (e : Entry) => List.foldl hsSet idx e.next) l.nextIdx (difference otherE otherH l),
        heads := omFromList (List.filter (fun (e : Entry) =>
          !(List.foldl (fun acc (e : Entry) => acc ++ e.next) [] (difference otherE otherH l)).contains e.hash &&
            !(List.foldl (fun idx (e : Entry) => List.foldl hsSet idx e.next) l.nextIdx (difference otherE otherH l)).contains e.hash &&
            has (List.foldl omSet l.entries (difference otherE otherH l)) e.hash)
          (findHeads (omMerge l.heads (List.filterMap
            (fun h => get? (List.foldl omSet l.entries (difference otherE otherH l)) h.hash) otherH)))) } := rfl
  rw [hm]
  generalize List.foldl omSet l.entries (difference otherE otherH l) = E' at *
  generalize List.foldl (fun idx (e : Entry) => List.foldl hsSet idx e.next) l.nextIdx (difference otherE otherH l) = N' at *
  generalize omFromList (List.filter _ (findHeads (omMerge l.heads (List.filterMap (fun h => get? E' h.hash) otherH)))) = Hm at *
  have hv : values { id := l.id, entries := E', heads := Hm, nextIdx := l.nextIdx, clock := l.clock, sortFn := l.sortFn } =
      values { id := l.id, entries := E', heads := Hm, nextIdx := N', clock := l.clock, sortFn := l.sortFn } := rfl
  rw [hv]
  generalize hV : values { id := l.id, entries := E', heads := Hm, nextIdx := N', clock := l.clock, sortFn := l.sortFn } = V
  unfold joinClock joinTrim keepLast
  simp only [hV]
  by_cases h1 : size > -1
  · by_cases h2 : size < (V.length : Int)
    · have hs : slice? V ((V.length : Int) - size) (V.length : Int) = some (V.drop ((V.length : Int) - size).toNat) :=
        slice?_suffix V _ (by omega) (by omega)
      have hd : ((V.length : Int) - size).toNat = V.length - size.toNat := by omega
      simp only [h1, h2, decide_true, if_true, hs, hd]
    · simp only [h1, h2, decide_true, decide_false, if_true, Bool.false_eq_true, if_false]
  · simp only [h1, decide_false, Bool.false_eq_true, if_false]

end Model.SlicesGen
