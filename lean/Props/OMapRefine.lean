import Model.OMapRep
import Proofs.OMap
import Model.GoPrelude
import Proofs.Inv
/-!
# Props.OMapRefine — the key-slice-plus-Go-map structure of `entry/entry_map.go` refines the list of values

`Model.OMapRep` is the structure as the Go code has it.  Here: every operation keeps the representation invariant
`WF` (no key twice, the key slice and the Go map have the same keys); `Set`/`Get` are characterised completely
(`get_set`, `keys_set`); and for maps keyed by the hashes of their values — the only use the library makes of them —
the abstraction `abs` (the values in key order) turns `Set`, `Get`, `Slice`, `Len`, `At`, `Reverse`, `Copy`,
`NewOrderedMapFromEntries` and `Merge` into `omSet`, `get?`, the list itself, `length`, `[i]?`, `reverse`, the
identity, `omFromList` and `omMerge` of `Model.Basic`, which is what every other theorem is about.  The model's
remark "entries with equal hash are equal, so the value is not replaced" is the explicit hypothesis `Agree`.
-/
namespace Model.OMapRep
open Model

def dom (m : List (Hash × Entry)) : List Hash := m.map (·.1)

theorem nodup_single {α : Type} (a : α) : [a].Nodup := List.nodup_cons.mpr ⟨List.not_mem_nil, List.nodup_nil⟩

theorem nodup_rev {α : Type} {l : List α} (h : l.Nodup) : l.reverse.Nodup :=
  List.pairwise_reverse.mpr (List.Pairwise.imp (fun hab => Ne.symm hab) h)

theorem filterMap_congr' {α β : Type} {f g : α → Option β} : ∀ {l : List α}, (∀ x ∈ l, f x = g x) →
    l.filterMap f = l.filterMap g := by
  intro l
  induction l with
  | nil => intro _; rfl
  | cons a t ih =>
    intro h
    rw [List.filterMap_cons, List.filterMap_cons, h a List.mem_cons_self, ih (fun x hx => h x (List.mem_cons_of_mem _ hx))]

theorem lookup_none_iff (m : List (Hash × Entry)) (k : Hash) : lookup m k = none ↔ k ∉ dom m := by
  unfold lookup dom
  induction m with
  | nil => simp
  | cons p t ih =>
    simp only [List.find?_cons, List.map_cons, List.mem_cons, not_or]
    by_cases h : p.1 = k
    · simp [h]
    · have hb : (p.1 == k) = false := by simpa using h
      simp only [hb]
      rw [ih]
      exact ⟨fun h2 => ⟨fun e => h e.symm, h2⟩, fun h2 => h2.2⟩

theorem lookup_isSome_iff (m : List (Hash × Entry)) (k : Hash) : (lookup m k).isSome = true ↔ k ∈ dom m := by
  cases h : lookup m k with
  | none => simp [(lookup_none_iff m k).mp h]
  | some v =>
    have : ¬ (k ∉ dom m) := fun hn => by rw [(lookup_none_iff m k).mpr hn] at h; cases h
    simp only [Option.isSome_some, true_iff]
    exact Decidable.of_not_not this

theorem any_iff_dom (m : List (Hash × Entry)) (k : Hash) : m.any (fun p => p.1 == k) = true ↔ k ∈ dom m := by
  unfold dom
  simp only [List.any_eq_true, beq_iff_eq, List.mem_map]

theorem dom_replace (m : List (Hash × Entry)) (k : Hash) (v : Entry) :
    dom (m.map (fun p => if p.1 == k then (k, v) else p)) = dom m := by
  unfold dom
  rw [List.map_map]
  apply List.map_congr_left
  intro p _
  simp only [Function.comp]
  by_cases h : p.1 = k
  · simp [h]
  · have hb : (p.1 == k) = false := by simpa using h
    simp [hb]

theorem dom_store (m : List (Hash × Entry)) (k : Hash) (v : Entry) :
    dom (store m k v) = if k ∈ dom m then dom m else dom m ++ [k] := by
  unfold store
  by_cases h : k ∈ dom m
  · simp only [(any_iff_dom m k).mpr h, if_true, h, dom_replace]
  · have ha : m.any (fun p => p.1 == k) = false := by
      cases hc : m.any (fun p => p.1 == k) with
      | false => rfl
      | true => exact absurd ((any_iff_dom m k).mp hc) h
    simp only [ha, Bool.false_eq_true, if_false, h]
    simp [dom]

theorem lookup_replace (m : List (Hash × Entry)) (k : Hash) (v : Entry) (k' : Hash) :
    lookup (m.map (fun p => if p.1 == k then (k, v) else p)) k' =
      if k' = k then (lookup m k).map (fun _ => v) else lookup m k' := by
  unfold lookup
  induction m with
  | nil => simp
  | cons p t ih =>
    simp only [List.map_cons, List.find?_cons]
    by_cases hp : p.1 = k
    · have hb : (p.1 == k) = true := by simpa using hp
      simp only [hb, if_true]
      by_cases hk : k' = k
      · subst hk; simp
      · have h1 : (k == k') = false := by simpa using (fun e => hk e.symm)
        have h2 : (p.1 == k') = false := by rw [hp]; exact h1
        simp only [h1, h2, hk, if_false] at ih ⊢
        exact ih
    · have hb : (p.1 == k) = false := by simpa using hp
      simp only [hb, Bool.false_eq_true, if_false]
      by_cases hk : k' = k
      · subst hk
        simp only [hb, if_true] at ih ⊢
        exact ih
      · simp only [hk, if_false] at ih ⊢
        cases hq : (p.1 == k') with
        | true => rfl
        | false => exact ih

/-- `m[k] = v`, then `m[k']` -/
theorem lookup_store (m : List (Hash × Entry)) (k : Hash) (v : Entry) (k' : Hash) :
    lookup (store m k v) k' = if k' = k then some v else lookup m k' := by
  unfold store
  by_cases h : k ∈ dom m
  · simp only [(any_iff_dom m k).mpr h, if_true, lookup_replace]
    by_cases hk : k' = k
    · simp only [hk, if_true]
      cases hl : lookup m k with
      | none => exact absurd h ((lookup_none_iff m k).mp hl)
      | some _ => rfl
    · simp only [hk, if_false]
  · have ha : m.any (fun p => p.1 == k) = false := by
      cases hc : m.any (fun p => p.1 == k) with
      | false => rfl
      | true => exact absurd ((any_iff_dom m k).mp hc) h
    simp only [ha, Bool.false_eq_true, if_false]
    unfold lookup
    rw [List.find?_append]
    by_cases hk : k' = k
    · subst hk
      have hn := (lookup_none_iff m k').mpr h
      unfold lookup at hn
      have hf : m.find? (fun p => p.1 == k') = none := by
        cases hq : m.find? (fun p => p.1 == k') with
        | none => rfl
        | some _ => rw [hq] at hn; cases hn
      simp [hf]
    · have h1 : (k == k') = false := by simpa using (fun e => hk e.symm)
      simp only [hk, if_false, List.find?_cons, h1, List.find?_nil, Option.or_none]

/-- the representation invariant: no key twice in the slice, none twice in the Go map, the same keys in both -/
structure WF (o : Rep) : Prop where
  keysNodup : o.keys.Nodup
  domNodup : (dom o.vals).Nodup
  same : ∀ k, k ∈ o.keys ↔ k ∈ dom o.vals

theorem wf_empty : WF empty := ⟨List.nodup_nil, List.nodup_nil, fun _ => Iff.rfl⟩

/-- `Set`, completely: what every key maps to afterwards … -/
theorem get_set (o : Rep) (k : Hash) (v : Entry) (k' : Hash) :
    get (set o k v) k' = if k' = k then some v else get o k' := lookup_store o.vals k v k'

/-- … and the key slice afterwards: a new key goes to the end, an existing key keeps its place -/
theorem keys_set (o : Rep) (h : WF o) (k : Hash) (v : Entry) :
    (set o k v).keys = if k ∈ o.keys then o.keys else o.keys ++ [k] := by
  unfold set
  simp only
  by_cases hk : k ∈ o.keys
  · simp only [(lookup_isSome_iff _ _).mpr ((h.same k).mp hk), if_true, hk]
  · have : ¬ ((lookup o.vals k).isSome = true) := fun hs => hk ((h.same k).mpr ((lookup_isSome_iff _ _).mp hs))
    simp only [this, if_false, hk]
    try rfl

theorem wf_set (o : Rep) (h : WF o) (k : Hash) (v : Entry) : WF (set o k v) := by
  have hkeys := keys_set o h k v
  have hdom : dom (set o k v).vals = if k ∈ dom o.vals then dom o.vals else dom o.vals ++ [k] := dom_store _ _ _
  by_cases hk : k ∈ o.keys
  · have hd := (h.same k).mp hk
    rw [if_pos hk] at hkeys
    rw [if_pos hd] at hdom
    exact ⟨hkeys ▸ h.keysNodup, hdom ▸ h.domNodup, fun x => by rw [hkeys, hdom]; exact h.same x⟩
  · have hd : k ∉ dom o.vals := fun hd => hk ((h.same k).mpr hd)
    rw [if_neg hk] at hkeys
    rw [if_neg hd] at hdom
    refine ⟨?_, ?_, ?_⟩
    · rw [hkeys]
      exact List.nodup_append.mpr ⟨h.keysNodup, nodup_single k, fun a ha b hb => by
        rw [List.mem_singleton] at hb; subst hb; exact fun e => hk (e ▸ ha)⟩
    · rw [hdom]
      exact List.nodup_append.mpr ⟨h.domNodup, nodup_single k, fun a ha b hb => by
        rw [List.mem_singleton] at hb; subst hb; exact fun e => hd (e ▸ ha)⟩
    · intro x
      rw [hkeys, hdom, List.mem_append, List.mem_append, h.same x]

/-- the values in key order: what `Slice()` returns, and what the rest of the model calls the ordered map -/
def abs (o : Rep) : List Entry := o.keys.filterMap (lookup o.vals)

/-- every value is stored under its own hash (how `IPFSLog`, `FindHeads`, the loaders and the fetcher use the map) -/
def Keyed (o : Rep) : Prop := ∀ k v, lookup o.vals k = some v → v.hash = k

theorem mem_abs (o : Rep) (h : WF o) (v : Entry) : v ∈ abs o ↔ ∃ k, lookup o.vals k = some v := by
  unfold abs
  rw [List.mem_filterMap]
  constructor
  · exact fun ⟨k, _, hl⟩ => ⟨k, hl⟩
  · intro ⟨k, hl⟩
    refine ⟨k, (h.same k).mpr ((lookup_isSome_iff _ _).mp (by rw [hl]; rfl)), hl⟩

theorem filterMap_all_some {α β : Type} (f : α → Option β) : ∀ (ks : List α), (∀ k ∈ ks, (f k).isSome = true) →
    ks.map f = (ks.filterMap f).map some := by
  intro ks
  induction ks with
  | nil => intro _; rfl
  | cons k t ih =>
    intro hall
    have hk := hall k List.mem_cons_self
    cases hf : f k with
    | none => rw [hf] at hk; cases hk
    | some v =>
      rw [List.map_cons, List.filterMap_cons, hf, List.map_cons, ih (fun x hx => hall x (List.mem_cons_of_mem _ hx))]

/-- `Slice()` has no `nil` slot and is the abstraction -/
theorem slice_eq (o : Rep) (h : WF o) : slice o = (abs o).map some :=
  filterMap_all_some _ _ (fun k hk => (lookup_isSome_iff _ _).mpr ((h.same k).mp hk))

theorem len_eq (o : Rep) (h : WF o) : len o = (abs o).length := by
  have := congrArg List.length (slice_eq o h)
  simpa [slice, len] using this

theorem at_eq (o : Rep) (h : WF o) (i : Nat) : atIdx o i = (abs o)[i]? := by
  have hs : (slice o)[i]? = ((abs o).map some)[i]? := by rw [slice_eq o h]
  unfold slice at hs
  rw [List.getElem?_map, List.getElem?_map] at hs
  unfold atIdx
  cases hk : o.keys[i]? with
  | none => rw [hk] at hs; cases ha : (abs o)[i]? with
    | none => rfl
    | some _ => rw [ha] at hs; cases hs
  | some k =>
    rw [hk] at hs
    cases ha : (abs o)[i]? with
    | none => rw [ha] at hs; cases hs
    | some v => rw [ha] at hs; simpa using hs

theorem swapAt_length {α : Type} (l : List α) (i j : Nat) : (swapAt l i j).length = l.length := by
  unfold swapAt
  split <;> simp

theorem revLoop_length {α : Type} : ∀ (k : Nat) (l : List α), (revLoop l k).length = l.length := by
  intro k
  induction k with
  | zero => intro l; rfl
  | succ k ih => intro l; rw [revLoop, ih, swapAt_length]

theorem swapAt_get {α : Type} (l : List α) (i j : Nat) (hi : i < l.length) (hj : j < l.length) (m : Nat) :
    (swapAt l i j)[m]? = if m = j then l[i]? else if m = i then l[j]? else l[m]? := by
  unfold swapAt
  have h1 : l[i]? = some l[i] := List.getElem?_eq_getElem hi
  have h2 : l[j]? = some l[j] := List.getElem?_eq_getElem hj
  rw [h1, h2]
  simp only [List.getElem?_set]
  by_cases hmj : m = j
  · subst hmj
    simp [hj]
  · by_cases hmi : m = i
    · subst hmi
      have : ¬ j = m := fun e => hmj e.symm
      simp [this, hmj, hi]
    · have a1 : ¬ j = m := fun e => hmj e.symm
      have a2 : ¬ i = m := fun e => hmi e.symm
      simp [a1, a2, hmj, hmi]

theorem revLoop_get {α : Type} : ∀ (k : Nat) (l : List α), 2 * k ≤ l.length → ∀ m, m < l.length →
    (revLoop l k)[m]? = if m < k ∨ l.length - k ≤ m then l[l.length - 1 - m]? else l[m]? := by
  intro k
  induction k with
  | zero =>
    intro l _ m hm
    have : ¬ (m < 0 ∨ l.length - 0 ≤ m) := by omega
    simp only [revLoop, this, if_false]
  | succ k ih =>
    intro l hk m hm
    have hlen := swapAt_length l k (l.length - 1 - k)
    rw [revLoop, ih _ (by rw [hlen]; omega) m (by rw [hlen]; exact hm), hlen]
    have hkl : k < l.length := by omega
    have hjl : l.length - 1 - k < l.length := by omega
    rw [swapAt_get l k _ hkl hjl, swapAt_get l k _ hkl hjl]
    by_cases c1 : m < k ∨ l.length - k ≤ m
    · have c2 : m < k + 1 ∨ l.length - (k + 1) ≤ m := by omega
      rw [if_pos c1, if_pos c2]
      have n1 : ¬ (l.length - 1 - m = l.length - 1 - k) := by omega
      have n2 : ¬ (l.length - 1 - m = k) := by omega
      rw [if_neg n1, if_neg n2]
    · rw [if_neg c1]
      by_cases e1 : m = l.length - 1 - k
      · have c2 : m < k + 1 ∨ l.length - (k + 1) ≤ m := by omega
        rw [if_pos e1, if_pos c2]
        congr 1
        omega
      · rw [if_neg e1]
        by_cases e2 : m = k
        · have c2 : m < k + 1 ∨ l.length - (k + 1) ≤ m := by omega
          rw [if_pos e2, if_pos c2, e2]
        · have c2 : ¬ (m < k + 1 ∨ l.length - (k + 1) ≤ m) := by omega
          rw [if_neg e2, if_neg c2]

/-- **the in-place swap loop of `Reverse` is list reversal** -/
theorem revLoop_eq_reverse {α : Type} (l : List α) : revLoop l (l.length / 2) = l.reverse := by
  apply List.ext_getElem?
  intro m
  by_cases hm : m < l.length
  · rw [revLoop_get _ l (by omega) m hm, List.getElem?_reverse hm]
    by_cases c : m < l.length / 2 ∨ l.length - l.length / 2 ≤ m
    · rw [if_pos c]
    · rw [if_neg c]
      -- the middle element of an odd-length list stays
      have : m = l.length - 1 - m := by omega
      rw [← this]
  · have h1 : (revLoop l (l.length / 2)).length ≤ m := by rw [revLoop_length]; omega
    have h2 : l.reverse.length ≤ m := by rw [List.length_reverse]; omega
    rw [List.getElem?_eq_none h1, List.getElem?_eq_none h2]

theorem reverse_keys (o : Rep) : (reverse o).keys = o.keys.reverse := revLoop_eq_reverse o.keys

theorem abs_reverse (o : Rep) : abs (reverse o) = (abs o).reverse := by
  unfold abs
  rw [reverse_keys]
  show List.filterMap (lookup o.vals) o.keys.reverse = _
  simp only [List.filterMap_reverse]

theorem wf_reverse (o : Rep) (h : WF o) : WF (reverse o) :=
  ⟨by rw [reverse_keys]; exact nodup_rev h.keysNodup, h.domNodup, fun k => by
    rw [reverse_keys, List.mem_reverse]; exact h.same k⟩

theorem abs_copy (o : Rep) : abs (copy o) = abs o := rfl

theorem find_filterMap (vals : List (Hash × Entry)) (hK : ∀ k v, lookup vals k = some v → v.hash = k) (h : Hash) :
    ∀ (ks : List Hash), ks.Nodup → (∀ k ∈ ks, k ∈ dom vals) →
      (ks.filterMap (lookup vals)).find? (fun e => e.hash == h) = if h ∈ ks then lookup vals h else none := by
  intro ks
  induction ks with
  | nil => intro _ _; rfl
  | cons k t ih =>
    intro hnd hin
    obtain ⟨hk, ht⟩ := List.nodup_cons.mp hnd
    have hs := (lookup_isSome_iff vals k).mpr (hin k List.mem_cons_self)
    cases hl : lookup vals k with
    | none => rw [hl] at hs; cases hs
    | some v =>
      have hv := hK k v hl
      rw [List.filterMap_cons, hl, List.find?_cons]
      by_cases hkh : k = h
      · subst hkh
        simp [hv, hl]
      · have hb : (v.hash == h) = false := by rw [hv]; simpa using hkh
        rw [hb, ih ht (fun x hx => hin x (List.mem_cons_of_mem _ hx))]
        have : (h ∈ k :: t) ↔ h ∈ t := by
          rw [List.mem_cons]; exact ⟨fun hh => hh.resolve_left (fun e => hkh e.symm), Or.inr⟩
        by_cases hm : h ∈ t
        · rw [if_pos hm, if_pos (this.mpr hm)]
        · rw [if_neg hm, if_neg (fun hh => hm (this.mp hh))]

/-- `Get` is `get?` of the abstraction -/
theorem get_eq (o : Rep) (h : WF o) (hK : Keyed o) (k : Hash) : get o k = get? (abs o) k := by
  unfold get get? abs
  rw [find_filterMap o.vals hK k o.keys h.keysNodup (fun x hx => (h.same x).mp hx)]
  by_cases hk : k ∈ o.keys
  · rw [if_pos hk]
  · rw [if_neg hk]
    exact (lookup_none_iff _ _).mpr (fun hd => hk ((h.same k).mpr hd))

theorem any_abs (o : Rep) (h : WF o) (hK : Keyed o) (k : Hash) :
    (abs o).any (fun r => r.hash == k) = (get o k).isSome := by
  rw [get_eq o h hK k]
  unfold get?
  cases hf : (abs o).find? (fun e => e.hash == k) with
  | none =>
    rw [List.find?_eq_none] at hf
    cases ha : (abs o).any (fun r => r.hash == k) with
    | false => rfl
    | true =>
      obtain ⟨x, hx, e⟩ := List.any_eq_true.mp ha
      exact absurd e (hf x hx)
  | some v =>
    have hm := List.mem_of_find?_eq_some hf
    have hp := List.find?_some hf
    exact List.any_eq_true.mpr ⟨v, hm, hp⟩

theorem abs_set_absent (o : Rep) (h : WF o) (k : Hash) (v : Entry) (hn : get o k = none) :
    abs (set o k v) = abs o ++ [v] := by
  have hk : k ∉ o.keys := fun hk => (lookup_none_iff _ _).mp hn ((h.same k).mp hk)
  unfold abs
  rw [keys_set o h k v, if_neg hk, List.filterMap_append]
  have h1 : o.keys.filterMap (lookup (set o k v).vals) = o.keys.filterMap (lookup o.vals) := by
    apply filterMap_congr'
    intro x hx
    show lookup (store o.vals k v) x = _
    rw [lookup_store, if_neg (fun (e : x = k) => hk (e ▸ hx))]
  have h2 : lookup (set o k v).vals k = some v := by
    show lookup (store o.vals k v) k = _
    rw [lookup_store, if_pos rfl]
  rw [h1]
  simp [h2]

theorem abs_set_same (o : Rep) (h : WF o) (k : Hash) (v : Entry) (hs : get o k = some v) :
    abs (set o k v) = abs o := by
  have hk : k ∈ o.keys := (h.same k).mpr ((lookup_isSome_iff _ _).mp (by unfold get at hs; rw [hs]; rfl))
  unfold abs
  rw [keys_set o h k v, if_pos hk]
  apply filterMap_congr'
  intro x _
  show lookup (store o.vals k v) x = _
  rw [lookup_store]
  by_cases hx : x = k
  · rw [if_pos hx, hx]; exact hs.symm
  · rw [if_neg hx]

/-- **`Set(e.hash, e)` is `omSet`** as long as the map does not hold a different value under that hash -/
theorem abs_set (o : Rep) (h : WF o) (hK : Keyed o) (e : Entry) (hag : ∀ v, get o e.hash = some v → v = e) :
    abs (set o e.hash e) = omSet (abs o) e := by
  unfold omSet
  rw [any_abs o h hK e.hash]
  cases hg : get o e.hash with
  | none => simp only [Option.isSome_none, Bool.false_eq_true, if_false]; exact abs_set_absent o h _ e hg
  | some v =>
    simp only [Option.isSome_some, if_true]
    exact abs_set_same o h _ e (by rw [hg, hag v hg])

theorem keyed_empty : Keyed empty := fun _ _ h => by cases h

theorem keyed_set (o : Rep) (hK : Keyed o) (e : Entry) : Keyed (set o e.hash e) := by
  intro k v hl
  have : lookup (store o.vals e.hash e) k = some v := hl
  rw [lookup_store] at this
  by_cases hk : k = e.hash
  · rw [if_pos hk] at this; cases this; exact hk.symm
  · rw [if_neg hk] at this; exact hK k v this

/-- entries that agree: equal hashes, equal entries (content addressing) -/
def Agree (S : List Entry) : Prop := ∀ a ∈ S, ∀ b ∈ S, a.hash = b.hash → a = b

theorem mem_omSet {E : List Entry} {e x : Entry} (hx : x ∈ omSet E e) : x ∈ E ∨ x = e := by
  unfold omSet at hx
  split at hx
  · exact Or.inl hx
  · rcases List.mem_append.mp hx with h | h
    · exact Or.inl h
    · exact Or.inr (List.mem_singleton.mp h)

/-- setting a list of agreeing entries one after the other is the fold of `omSet` -/
theorem abs_foldl_set : ∀ (l : List Entry) (o : Rep), WF o → Keyed o → Agree (abs o ++ l) →
    WF (l.foldl (fun m e => set m e.hash e) o) ∧ Keyed (l.foldl (fun m e => set m e.hash e) o) ∧
      abs (l.foldl (fun m e => set m e.hash e) o) = l.foldl omSet (abs o) := by
  intro l
  induction l with
  | nil => intro o h hK _; exact ⟨h, hK, rfl⟩
  | cons e t ih =>
    intro o h hK hag
    have hstep : abs (set o e.hash e) = omSet (abs o) e := by
      apply abs_set o h hK
      intro v hv
      have hvm : v ∈ abs o := (mem_abs o h v).mpr ⟨e.hash, hv⟩
      exact hag v (List.mem_append_left _ hvm) e (List.mem_append_right _ List.mem_cons_self) (hK _ _ hv)
    have hag' : Agree (abs (set o e.hash e) ++ t) := by
      intro a ha b hb hab
      have conv : ∀ x, x ∈ abs (set o e.hash e) ++ t → x ∈ abs o ++ e :: t := by
        intro x hx
        rcases List.mem_append.mp hx with h1 | h1
        · rw [hstep] at h1
          rcases mem_omSet h1 with h2 | h2
          · exact List.mem_append_left _ h2
          · exact List.mem_append_right _ (h2 ▸ List.mem_cons_self)
        · exact List.mem_append_right _ (List.mem_cons_of_mem _ h1)
      exact hag a (conv a ha) b (conv b hb) hab
    have := ih (set o e.hash e) (wf_set o h _ _) (keyed_set o hK e) hag'
    rw [List.foldl_cons, List.foldl_cons, ← hstep]
    exact this

/-- **`NewOrderedMapFromEntries` is `omFromList`** (undefined elements skipped) -/
theorem fromEntries_eq (l : List Entry) (hag : Agree l) :
    WF (fromEntries (l.map some)) ∧ Keyed (fromEntries (l.map some)) ∧ abs (fromEntries (l.map some)) = omFromList l := by
  have h := abs_foldl_set l empty wf_empty keyed_empty (by simpa [abs, empty] using hag)
  have e : fromEntries (l.map some) = l.foldl (fun m e => set m e.hash e) empty := by
    unfold fromEntries
    rw [List.foldl_map]
  rw [e]
  exact h

theorem fromEntries_skips (es : List (Option Entry)) : fromEntries es = fromEntries ((es.filterMap id).map some) := by
  unfold fromEntries
  generalize empty = o
  induction es generalizing o with
  | nil => rfl
  | cons x t ih =>
    cases x with
    | none => simpa using ih o
    | some e => simpa using ih (set o e.hash e)

/-- the loop of `Merge` sets the values of the source in key order -/
theorem setAll_eq (dst src : Rep) (_h : WF src) (hK : Keyed src) :
    setAll dst src = (abs src).foldl (fun m e => set m e.hash e) dst := by
  unfold setAll abs get
  have key : ∀ (ks : List Hash) (d : Rep),
      ks.foldl (fun m k => match lookup src.vals k with | some v => set m k v | none => m) d =
        (ks.filterMap (lookup src.vals)).foldl (fun m e => set m e.hash e) d := by
    intro ks
    induction ks with
    | nil => intro d; rfl
    | cons k t ih =>
      intro d
      rw [List.foldl_cons, List.filterMap_cons]
      cases hl : lookup src.vals k with
      | none => exact ih d
      | some v =>
        simp only [List.foldl_cons]
        rw [hK k v hl]
        exact ih _
  exact key _ _

/-- **`Merge` is `omMerge`** for two maps that agree on the hashes they share -/
theorem merge_eq (a b : Rep) (ha : WF a) (hb : WF b) (hKa : Keyed a) (hKb : Keyed b) (hag : Agree (abs a ++ abs b)) :
    WF (merge a b) ∧ Keyed (merge a b) ∧ abs (merge a b) = omMerge (abs a) (abs b) := by
  unfold merge omMerge
  rw [setAll_eq _ a ha hKa]
  have haa : Agree (abs empty ++ abs a) := by
    intro x hx y hy
    have hx' : x ∈ abs a := by simpa [abs, empty] using hx
    have hy' : y ∈ abs a := by simpa [abs, empty] using hy
    exact hag x (List.mem_append_left _ hx') y (List.mem_append_left _ hy')
  obtain ⟨w1, k1, e1⟩ := abs_foldl_set (abs a) empty wf_empty keyed_empty haa
  rw [setAll_eq _ b hb hKb]
  have e0 : abs empty = [] := rfl
  rw [e0] at e1
  have hab : Agree (abs ((abs a).foldl (fun m e => set m e.hash e) empty) ++ abs b) := by
    intro x hx y hy
    have conv : ∀ z, z ∈ abs ((abs a).foldl (fun m e => set m e.hash e) empty) ++ abs b → z ∈ abs a ++ abs b := by
      intro z hz
      rcases List.mem_append.mp hz with h1 | h1
      · rw [e1] at h1
        have : ∀ (l acc : List Entry), z ∈ l.foldl omSet acc → z ∈ acc ∨ z ∈ l := by
          intro l
          induction l with
          | nil => intro acc h; exact Or.inl h
          | cons c t ih =>
            intro acc h
            rcases ih _ h with h2 | h2
            · rcases mem_omSet h2 with h3 | h3
              · exact Or.inl h3
              · exact Or.inr (h3 ▸ List.mem_cons_self)
            · exact Or.inr (List.mem_cons_of_mem _ h2)
        rcases this _ _ h1 with h2 | h2
        · cases h2
        · exact List.mem_append_left _ h2
      · exact List.mem_append_right _ h1
    exact hag x (conv x hx) y (conv y hy)
  obtain ⟨w2, k2, e2⟩ := abs_foldl_set (abs b) _ w1 k1 hab
  exact ⟨w2, k2, by rw [e2, e1]⟩

/-- `Set(k, e)` as the translators write it (`omSetK`, `Model/GoPrelude.lean`) when the key is the hash -/
theorem abs_set_K (o : Rep) (h : WF o) (hK : Keyed o) (e : Entry) (hag : ∀ v, get o e.hash = some v → v = e) :
    abs (set o e.hash e) = Model.Go.omSetK (abs o) e.hash e := abs_set o h hK e hag

/-! ### Every ordered map of the list model is the abstraction of a well-formed representation -/

/-- the representation of a list of values with distinct hashes -/
def ofList (L : List Entry) : Rep := { keys := hashes L, vals := L.map (fun e => (e.hash, e)) }

theorem lookup_ofList (L : List Entry) (h : Hash) : lookup (ofList L).vals h = get? L h := by
  unfold lookup ofList get?
  induction L with
  | nil => rfl
  | cons e t ih =>
    simp only [List.map_cons, List.find?_cons]
    cases hb : (e.hash == h) with
    | true => rfl
    | false => exact ih

theorem wf_ofList (L : List Entry) (hnd : (hashes L).Nodup) : WF (ofList L) := by
  have hd : dom (ofList L).vals = hashes L := by
    unfold dom ofList hashes
    simp [List.map_map, Function.comp_def]
  exact ⟨hnd, hd ▸ hnd, fun k => by rw [hd]; rfl⟩

theorem keyed_ofList (L : List Entry) : Keyed (ofList L) := by
  intro k v hl
  rw [lookup_ofList] at hl
  unfold get? at hl
  have := List.find?_some hl
  simpa using this

theorem abs_ofList (L : List Entry) (hnd : (hashes L).Nodup) : abs (ofList L) = L := by
  unfold abs
  have : (ofList L).keys = L.map (·.hash) := rfl
  rw [this, List.filterMap_map]
  have h2 : ∀ e ∈ L, ((lookup (ofList L).vals) ∘ (·.hash)) e = some e := by
    intro e he
    simp only [Function.comp, lookup_ofList]
    exact get?_eq_of_mem hnd he
  rw [filterMap_congr' h2]
  exact List.filterMap_some

/-- inside a universe of entries with distinct hashes (content addressing: `Reachable` systems have one) any
    entries agree — the hypothesis of `abs_set`, `fromEntries_eq` and `merge_eq` holds for every log state the
    property theorems talk about -/
theorem agree_of_universe {U S : List Entry} (hU : (hashes U).Nodup) (hS : ∀ e ∈ S, e ∈ U) : Agree S := by
  intro a ha b hb hab
  have h1 := get?_eq_of_mem hU (hS a ha)
  have h2 := get?_eq_of_mem hU (hS b hb)
  rw [hab, h2] at h1
  exact (Option.some.inj h1).symm

/-- **for every log state of the property theorems** (`Inv U l`, `U` the content-addressed universe): its entry map
    and its head map are abstractions of well-formed hash-keyed representations, and `Set` of any entry of the
    universe, `Merge` of the two, … on those representations are the list operations the model performs -/
theorem inv_maps_are_reps {U : List Entry} {l : Log} (hU : (hashes U).Nodup) (I : Inv U l) :
    (WF (ofList l.entries) ∧ Keyed (ofList l.entries) ∧ abs (ofList l.entries) = l.entries) ∧
    (WF (ofList l.heads) ∧ Keyed (ofList l.heads) ∧ abs (ofList l.heads) = l.heads) ∧
    (∀ e ∈ U, abs (set (ofList l.entries) e.hash e) = omSet l.entries e) ∧
    abs (merge (ofList l.heads) (ofList l.entries)) = omMerge l.heads l.entries := by
  have hE := wf_ofList l.entries I.nodup
  have hH := wf_ofList l.heads I.headsNodup
  have aE := abs_ofList l.entries I.nodup
  have aH := abs_ofList l.heads I.headsNodup
  refine ⟨⟨hE, keyed_ofList _, aE⟩, ⟨hH, keyed_ofList _, aH⟩, ?_, ?_⟩
  · intro e he
    rw [abs_set _ hE (keyed_ofList _) e, aE]
    intro v hv
    have hvm : v ∈ l.entries := by
      have := (mem_abs _ hE v).mpr ⟨e.hash, hv⟩
      rwa [aE] at this
    exact eq_of_hash_eq hU (I.inU v hvm) he (keyed_ofList _ _ _ hv)
  · have hag : Agree (abs (ofList l.heads) ++ abs (ofList l.entries)) := by
      rw [aE, aH]
      apply agree_of_universe hU
      intro e he
      rcases List.mem_append.mp he with h | h
      · exact I.inU e (I.headsIn e h)
      · exact I.inU e h
    rw [(merge_eq _ _ hH hE (keyed_ofList _) (keyed_ofList _) hag).2.2, aE, aH]

/-- non-vacuity: two maps sharing one entry, merged -/
example :
    let e1 : Entry := { hash := [1], logId := [], next := [], refs := [], clock := ⟨[], 1⟩ }
    let e2 : Entry := { hash := [2], logId := [], next := [[1]], refs := [], clock := ⟨[], 2⟩ }
    let e3 : Entry := { hash := [3], logId := [], next := [[1]], refs := [], clock := ⟨[], 2⟩ }
    abs (merge (fromEntries [some e1, none, some e2]) (fromEntries [some e3, some e1])) = [e1, e2, e3] ∧
      abs (set (fromEntries [some e1, some e2]) [1] e3) = [e3, e2] := by decide

end Model.OMapRep
