import Proofs.SortTrim
import Proofs.LoadKeeping
import Model.Loaders
/-!
# C10 — a length-limited load returns exactly the most recent entries (fetcher + sort-and-trim)

Hypotheses common to the theorems (`n = cfg.length ≥ 0`):
* `hex`  nothing is excluded;
* `ClosedStore` no faults: start hashes and every `next` of a stored block are retrievable, no block
  has the undefined hash;
* `TimesIncrease` clock times strictly increase along `next` (what `Append` guarantees, C04);
* the event list is accepted, ends quiescent and was not timed out.
"For every accepted event list" = every concurrency level, heap order and block arrival order.

`fetch_limited_superset`: the result is duplicate-free, consists of fetchable entries only, and every
ancestor (along `next`) of the start hashes is either in the result or has at least `n` results with a
strictly larger clock time — so none of the newest `n` (under any ordering that puts larger times later)
is missing.

`load_limited_exact`: consequently the loaders' sort-and-trim (`sortTrim`, i.e. `sorting.Sort` + `entryLastN`)
gives the same list as sorting and trimming the *whole* closure: the loaded entries do not depend on the
event list, and there are exactly `min n size` of them.  This covers `NewFromMultihash` and `NewFromJSON`
(trim length = fetch length = `n`, `k = 0`) and `NewFromEntry` (fetch length = trim length = `max n k`).
`NewFromEntryHash` fetches with `n` but trims with `max n 1`: covered for `n ≥ 1`; the corner `n = 0`
(result = the requested entry) is exercised by the `fetch` stream only.

`load_entries_limited_exact`: the fourth loader, `NewFromEntry`, does not trim with `entryLastN` but with
`entryLastNKeeping` (every supplied entry stays, the quota goes to the newest others).  For every accepted
execution of the fetch with length `max n k` (k = number of supplied entries, repetitions counted) the
loaded log holds exactly what the keeping cut of the *whole* sorted closure holds: all supplied entries,
`min (max n k) size` entries in all, and of the others exactly the newest `max n k - d` (d = number of
distinct supplied entries) — whatever the concurrency and the arrival order.
-/
namespace Model.C10

theorem fetch_limited_superset (cfg : FCfg) (roots : List Hash) (evs : List FEvent) (s : FState)
    (hlen : 0 ≤ cfg.length) (hex : ∀ h, cfg.excluded h = false) (hcl : ClosedStore cfg roots)
    (hti : TimesIncrease cfg) (h : accepted cfg roots evs = some s) (hq : quiescent s)
    (hc : s.cancelled = false) :
    -- duplicate-free
    (s.results.map (·.hash)).Nodup ∧
    -- only fetchable entries (ancestors, when references point to ancestors: `Reach.anc`)
    (∀ r ∈ s.results, ∃ x, Reach cfg roots x ∧ get? cfg.store x = some r) ∧
    -- an ancestor is admitted, or cut below `n` admitted entries with strictly larger time
    (∀ x ex, Anc cfg roots x → get? cfg.store x = some ex →
      ex ∈ s.results ∨ cfg.length ≤ (cntGt s.results ex.clock.time : Int)) ∧
    -- hence: an ancestor that fewer than `n` fetchable entries exceed in time is in the result
    (∀ x ex, Anc cfg roots x → get? cfg.store x = some ex →
      (∀ L : List Entry, (L.map (·.hash)).Nodup →
        (∀ r ∈ L, (∃ y, Reach cfg roots y ∧ get? cfg.store y = some r) ∧ r.clock.time > ex.clock.time) →
        (L.length : Int) < cfg.length) → ex ∈ s.results) := by
  have w := WF_accepted h
  exact ⟨w.resND, fun r hr => results_sound w hr,
    fun x ex ha hg => limited_admitted_or_cut hlen hex hcl hti h hq hc ha hg,
    fun x ex ha hg hfew => limited_newest_admitted hlen hex hcl hti h hq hc ha hg hfew⟩

/-- with fewer than `n` fetchable entries nothing is cut -/
theorem fetch_limited_all_when_small (cfg : FCfg) (roots : List Hash) (evs : List FEvent) (s : FState)
    (hlen : 0 ≤ cfg.length) (hex : ∀ h, cfg.excluded h = false) (hcl : ClosedStore cfg roots)
    (hti : TimesIncrease cfg) (h : accepted cfg roots evs = some s) (hq : quiescent s)
    (hc : s.cancelled = false) (hsmall : ((reach cfg.store roots).length : Int) ≤ cfg.length)
    (x : Hash) (ex : Entry) (ha : Anc cfg roots x) (hg : get? cfg.store x = some ex) : ex ∈ s.results := by
  apply Classical.byContradiction
  intro hni
  have w := WF_accepted h
  have hsub : ∀ r ∈ s.results, r ∈ reach cfg.store roots :=
    fun r hr => (mem_reach_iff cfg roots hex hcl.undef r).mpr (results_sound w hr)
  have hnd : s.results.Nodup := nodup_of_map_nodup _ w.resND
  have hne : ∀ y, (get? cfg.store y).isSome → y ≠ [] := by
    intro y hs hy; rw [hy, hcl.undef] at hs; cases hs
  have hexr : ex ∈ reach cfg.store roots := by
    refine (mem_reach_iff cfg roots hex hcl.undef ex).mpr ⟨x, ?_, hg⟩
    clear hg hni
    induction ha with
    | @root y hm => exact Reach.root hm (hne y (hcl.rootsIn y hm)) (hex y) (hcl.rootsIn y hm)
    | @next p y ep _ hgp hcm ih =>
      exact Reach.link ih hgp (List.mem_append_left _ hcm) (hne y (hcl.nextIn p ep hgp y hcm)) (hex y)
        (hcl.nextIn p ep hgp y hcm)
  -- `ex` and the results are distinct members of the closure
  have hbig := List.Nodup.length_le_of_subset (List.nodup_cons.mpr ⟨hni, hnd⟩) (by
    intro y hy
    cases hy with
    | head => exact hexr
    | tail _ hm => exact hsub y hm)
  simp only [List.length_cons] at hbig
  rcases limited_admitted_or_cut hlen hex hcl hti h hq hc ha hg with h1 | h1
  · exact hni h1
  · have h2 : cntGt s.results ex.clock.time ≤ s.results.length := by
      rw [cntGt_eq_filter]; exact List.length_filter_le _ _
    omega

/-- the loaders' sort-and-trim of any execution's result equals that of the whole closure -/
theorem load_limited_exact (cfg : FCfg) (roots : List Hash) (evs : List FEvent) (s : FState)
    (lt : Entry → Entry → Bool)
    (hlen : 0 ≤ cfg.length) (hex : ∀ h, cfg.excluded h = false) (hcl : ClosedStore cfg roots)
    (hti : TimesIncrease cfg)
    -- references point to ancestors (C04)
    (hrefs : ∀ h e, Anc cfg roots h → get? cfg.store h = some e → ∀ c ∈ e.refs, Anc cfg roots c)
    -- the ordering is a strict total order on the closure that puts larger clock times later
    (hsto : STO lt (· ∈ reach cfg.store roots))
    (hasym : ∀ a b, a ∈ reach cfg.store roots → b ∈ reach cfg.store roots → lt a b = true → lt b a = false)
    (htime : ∀ a b, a ∈ reach cfg.store roots → b ∈ reach cfg.store roots →
      a.clock.time < b.clock.time → lt a b = true)
    (h : accepted cfg roots evs = some s) (hq : quiescent s) (hc : s.cancelled = false) :
    sortTrim lt cfg.length s.results = sortTrim lt cfg.length (reach cfg.store roots) ∧
    (sortTrim lt cfg.length s.results).length = min cfg.length.toNat (reach cfg.store roots).length := by
  have w := WF_accepted h
  have hn : cfg.length > -1 := by omega
  have heq : lastN cfg.length (goSort lt s.results) = lastN cfg.length (goSort lt (reach cfg.store roots)) := by
    apply lastN_sort_eq hsto hasym htime (nodup_of_map_nodup _ (reach_nodup cfg.store roots))
      (nodup_of_map_nodup _ w.resND)
    · exact fun r hr => (mem_reach_iff cfg roots hex hcl.undef r).mpr (results_sound w hr)
    · intro a ha
      obtain ⟨x, rx, hg⟩ := (mem_reach_iff cfg roots hex hcl.undef a).mp ha
      exact limited_admitted_or_cut hlen hex hcl hti h hq hc (rx.anc hrefs) hg
  unfold sortTrim
  rw [if_pos hn, if_pos hn, heq]
  refine ⟨rfl, ?_⟩
  rw [lastN_length, (goSort_perm lt _).length_eq]

/-- `NewFromEntry` with a limit: all supplied entries plus the most recent others, independent of the schedule -/
theorem load_entries_limited_exact (cfg : FCfg) (roots : List Hash) (evs : List FEvent) (s : FState)
    (clockId : Bytes) (k : SortKind) (source : List Entry) (n : Int)
    (hn : 0 ≤ n) (hne : source ≠ [])
    -- `fromEntry`: the fetch runs with `maxInt(n, len(sourceEntries))`
    (hlen : cfg.length = max n (source.length : Int))
    -- the supplied entries are entries of the stored log
    (hsrc : ∀ e ∈ source, e ∈ reach cfg.store roots)
    (hex : ∀ h, cfg.excluded h = false) (hcl : ClosedStore cfg roots) (hti : TimesIncrease cfg)
    (hrefs : ∀ h e, Anc cfg roots h → get? cfg.store h = some e → ∀ c ∈ e.refs, Anc cfg roots c)
    (hsto : STO clockAsc (· ∈ reach cfg.store roots))
    (hasym : ∀ a b, a ∈ reach cfg.store roots → b ∈ reach cfg.store roots → clockAsc a b = true → clockAsc b a = false)
    (htime : ∀ a b, a ∈ reach cfg.store roots → b ∈ reach cfg.store roots →
      a.clock.time < b.clock.time → clockAsc a b = true)
    (h : accepted cfg roots evs = some s) (hq : quiescent s) (hc : s.cancelled = false) :
    ∃ L, loadEntries clockId k source s.results n = some L ∧
      -- the same list as the keeping cut of the whole sorted closure: independent of the event list
      L.entries = lastNKeeping cfg.length (goSort clockAsc (reach cfg.store roots)) source ∧
      -- every supplied entry is there
      (∀ e ∈ source, e ∈ L.entries) ∧
      -- `min (max n k) size` entries in all
      L.entries.length = min cfg.length.toNat (reach cfg.store roots).length ∧
      -- an entry that was not supplied is there iff it is among the newest `max n k - d` of the others
      (∀ x, x ∈ reach cfg.store roots → x ∉ source →
        (x ∈ L.entries ↔ x ∈ lastN (cfg.length - (dedupHashes (source.map (·.hash)) []).length)
          ((goSort clockAsc (reach cfg.store roots)).filter (fun e => !keptBy source e)))) := by
  have w := WF_accepted h
  have hlen0 : 0 ≤ cfg.length := by omega
  have hAh : (hashes (reach cfg.store roots)).Nodup := reach_nodup cfg.store roots
  have hSAh : (hashes (goSort clockAsc (reach cfg.store roots))).Nodup := goSort_hashes_nodup _ hAh
  have hsubR : ∀ r ∈ s.results, r ∈ reach cfg.store roots :=
    fun r hr => (mem_reach_iff cfg roots hex hcl.undef r).mpr (results_sound w hr)
  have hcut : ∀ a ∈ reach cfg.store roots, a ∈ s.results ∨ cfg.length ≤ (cntGt s.results a.clock.time : Int) := by
    intro a ha
    obtain ⟨x, rx, hg⟩ := (mem_reach_iff cfg roots hex hcl.undef a).mp ha
    exact limited_admitted_or_cut hlen0 hex hcl hti h hq hc (rx.anc hrefs) hg
  have heq := lastNKeeping_cut_eq (N := cfg.length) hsto hasym htime hAh (nodup_of_map_nodup _ w.resND)
    hsubR hsrc hcut
  have hsubA : ∀ hh ∈ hashes source, hh ∈ hashes (goSort clockAsc (reach cfg.store roots)) := fun hh hm => by
    obtain ⟨e, he, rfl⟩ := List.mem_map.mp hm
    exact List.mem_map_of_mem (mem_goSort.mpr (hsrc e he))
  have hmem := mem_lastNKeeping cfg.length source hSAh hsubA
  have hkeeps : ∀ e ∈ source, e ∈ lastNKeeping cfg.length (goSort clockAsc (reach cfg.store roots)) source :=
    fun e he => (hmem e).mpr ⟨mem_goSort.mpr (hsrc e he), Or.inl ((keptBy_iff source e).mpr (List.mem_map_of_mem he))⟩
  have hslh : (hashes (lastNKeeping cfg.length (goSort clockAsc (reach cfg.store roots)) source)).Nodup :=
    hSAh.sublist ((lastNKeeping_sublist _ _ _).map _)
  have hdiff : entryDifference (lastNKeeping cfg.length (goSort clockAsc (reach cfg.store roots)) source) source = [] := by
    apply entryDifference_nil
    intro v hv
    rw [fhas_iff]
    exact List.mem_map_of_mem (hkeeps v hv)
  have hnonempty : lastNKeeping cfg.length (goSort clockAsc (reach cfg.store roots)) source ≠ [] := by
    intro hnil
    cases source with
    | nil => exact hne rfl
    | cons v t =>
      have := hkeeps v List.mem_cons_self
      rw [hnil] at this; cases this
  unfold loadEntries
  have hgt : n > -1 := by omega
  have hgt' : cfg.length > -1 := by omega
  simp only [hgt, if_true, ← hlen, hgt', heq, hdiff, List.nil_append, List.length_nil, List.drop_zero]
  cases hl : (lastNKeeping cfg.length (goSort clockAsc (reach cfg.store roots)) source).getLast? with
  | none => exact absurd (List.getLast?_eq_none_iff.mp hl) hnonempty
  | some lastE =>
    have hent : (newLog lastE.logId clockId k
        (lastNKeeping cfg.length (goSort clockAsc (reach cfg.store roots)) source) []).entries =
        lastNKeeping cfg.length (goSort clockAsc (reach cfg.store roots)) source := by
      rw [(newLog_entries _ _ _ _ _).1, omFromList_id hslh]
    refine ⟨_, rfl, hent, ?_, ?_, ?_⟩
    · intro e he; rw [hent]; exact hkeeps e he
    · rw [hent, lastNKeeping_length cfg.length source hSAh hsubA (by omega), (goSort_perm _ _).length_eq]
    · intro x hx hns
      rw [hent, hmem x]
      have hnk : ¬ keptBy source x = true := by
        intro hk
        obtain ⟨e, he, heq'⟩ := List.mem_map.mp ((keptBy_iff source x).mp hk)
        have : e = x := eq_of_hash_eq hAh (hsrc e he) hx heq'
        exact hns (this ▸ he)
      constructor
      · rintro ⟨_, h2 | h2⟩
        · exact absurd h2 hnk
        · exact h2
      · intro h2
        exact ⟨mem_goSort.mpr hx, Or.inr h2⟩

/-! ## non-vacuity: limit 2 on a five-entry forked log; two schedules cut differently, load the same -/

def e1 : Entry := { hash := [1], logId := [7], next := [], refs := [], clock := { id := [4], time := 1 } }
def e2 : Entry := { hash := [2], logId := [7], next := [[1]], refs := [], clock := { id := [4], time := 2 } }
def e3 : Entry := { hash := [3], logId := [7], next := [[2]], refs := [[1]], clock := { id := [4], time := 3 } }
def e4 : Entry := { hash := [4], logId := [7], next := [[2]], refs := [], clock := { id := [5], time := 3 } }
def e5 : Entry := { hash := [5], logId := [7], next := [[3], [4]], refs := [[2]], clock := { id := [4], time := 4 } }

def cfgL : FCfg := { store := [e1, e2, e3, e4, e5], length := 2, excluded := fun _ => false }

def runA : List FEvent :=
  [.dispatch [5], .complete [5] (some e5), .dispatch [3], .complete [3] (some e3), .dispatch [4],
   .complete [4] (some e4), .dispatch [2], .complete [2] (some e2)]
def runB : List FEvent :=
  [.dispatch [5], .complete [5] (some e5), .dispatch [4], .dispatch [3], .complete [4] (some e4),
   .complete [3] (some e3), .dispatch [2], .complete [2] (some e2)]

example : (accepted cfgL [[5]] runA).map (fun s => (s.results, decide (quiescent s))) =
    some ([e5, e3, e4], true) := by decide
example : (accepted cfgL [[5]] runB).map (fun s => (s.results, decide (quiescent s))) =
    some ([e5, e4, e3], true) := by decide
example : sortTrim (beforeAsc .lww) 2 [e5, e3, e4] = sortTrim (beforeAsc .lww) 2 (reach cfgL.store [[5]]) := by decide
example : sortTrim (beforeAsc .lww) 2 [e5, e4, e3] = [e4, e5] := by decide

example : ClosedStore cfgL [[5]] where
  rootsIn := by decide
  nextIn := by
    intro h e hg
    have he : e ∈ cfgL.store := fget?_mem hg
    revert he; clear hg; revert e
    decide
  undef := by decide

example : TimesIncrease cfgL := by
  intro h e c e' hg hc hg'
  have he : e ∈ cfgL.store := fget?_mem hg
  have he' : e' ∈ cfgL.store := fget?_mem hg'
  have hh : e'.hash = c := fget?_hash hg'
  subst hh
  clear hg hg'
  revert hc; revert he'; revert e'; revert he; revert e
  decide

/-- the ordering hypotheses of `load_limited_exact` hold for last-write-wins on this closure -/
example : STO (beforeAsc .lww) (· ∈ reach cfgL.store [[5]]) where
  trans := by
    have key : ∀ a ∈ reach cfgL.store [[5]], ∀ b ∈ reach cfgL.store [[5]], ∀ c ∈ reach cfgL.store [[5]],
        beforeAsc .lww a b = true → beforeAsc .lww b c = true → beforeAsc .lww a c = true := by decide
    exact fun a b c ha hb hc => key a ha b hb c hc
  total := by
    have key : ∀ a ∈ reach cfgL.store [[5]], ∀ b ∈ reach cfgL.store [[5]], a ≠ b →
        beforeAsc .lww a b = true ∨ beforeAsc .lww b a = true := by decide
    exact fun a b ha hb => key a ha b hb

example : ∀ a b, a ∈ reach cfgL.store [[5]] → b ∈ reach cfgL.store [[5]] →
    (beforeAsc .lww a b = true → beforeAsc .lww b a = false) ∧
    (a.clock.time < b.clock.time → beforeAsc .lww a b = true) := by
  have key : ∀ a ∈ reach cfgL.store [[5]], ∀ b ∈ reach cfgL.store [[5]],
      (beforeAsc .lww a b = true → beforeAsc .lww b a = false) ∧
      (a.clock.time < b.clock.time → beforeAsc .lww a b = true) := by decide
  exact fun a b ha hb => key a ha b hb

/-- references point to ancestors -/
example : ∀ h e, Anc cfgL [[5]] h → get? cfgL.store h = some e → ∀ c ∈ e.refs, Anc cfgL [[5]] c := by
  have a5 : Anc cfgL [[5]] [5] := Anc.root (by decide)
  have a3 : Anc cfgL [[5]] [3] := Anc.next (e := e5) a5 (by decide) (by decide)
  have a2 : Anc cfgL [[5]] [2] := Anc.next (e := e3) a3 (by decide) (by decide)
  have a1 : Anc cfgL [[5]] [1] := Anc.next (e := e2) a2 (by decide) (by decide)
  have key : ∀ e ∈ cfgL.store, ∀ c ∈ e.refs, c = [1] ∨ c = [2] := by decide
  intro h e _ hg c hc
  rcases key e (fget?_mem hg) c hc with rfl | rfl
  · exact a1
  · exact a2

/-! ## non-vacuity for `NewFromEntry`: supplied `e1` and `e5`, limit 3; one schedule delivers everything,
    another cuts `e1` and `e2` from the fetch result — the loaded log is `e1, e4, e5` both times -/

def cfgK : FCfg := { store := [e1, e2, e3, e4, e5], length := 3, excluded := fun _ => false }
def runK2 : List FEvent :=
  [.dispatch [1], .dispatch [5], .complete [5] (some e5), .complete [1] (some e1), .dispatch [4], .dispatch [3],
   .complete [4] (some e4), .complete [3] (some e3), .dispatch [2], .complete [2] (some e2)]
def runK3 : List FEvent :=
  [.dispatch [5], .complete [5] (some e5), .dispatch [3], .complete [3] (some e3), .dispatch [4],
   .complete [4] (some e4), .dispatch [1], .complete [1] (some e1), .dispatch [2], .complete [2] (some e2)]

example : (accepted cfgK [[1], [5]] runK2).map (fun s => (s.results, decide (quiescent s))) =
    some ([e5, e1, e4, e3, e2], true) := by decide
example : (accepted cfgK [[1], [5]] runK3).map (fun s => (s.results, decide (quiescent s))) =
    some ([e5, e3, e4], true) := by decide
example : (loadEntries [9] .lww [e1, e5] [e5, e1, e4, e3, e2] 3).map (·.entries) = some [e1, e4, e5] := by decide
example : (loadEntries [9] .lww [e1, e5] [e5, e3, e4] 3).map (·.entries) = some [e1, e4, e5] := by decide
example : lastNKeeping 3 (goSort clockAsc (reach cfgK.store [[1], [5]])) [e1, e5] = [e1, e4, e5] := by decide
/-- an entry supplied twice counts twice in `k` and once in the result -/
example : (loadEntries [9] .lww [e1, e5, e5] [e5, e3, e4] 2).map (·.entries) = some [e1, e4, e5] := by decide
example : cfgK.length = max 3 (([e1, e5] : List Entry).length : Int) ∧
    cfgK.length = max 2 (([e1, e5, e5] : List Entry).length : Int) := by decide
example : ∀ e ∈ [e1, e5], e ∈ reach cfgK.store [[1], [5]] := by decide
example : ∀ a ∈ reach cfgK.store [[1], [5]], ∀ b ∈ reach cfgK.store [[1], [5]],
    (a ≠ b → clockAsc a b = true ∨ clockAsc b a = true) ∧
    (clockAsc a b = true → clockAsc b a = false) ∧
    (a.clock.time < b.clock.time → clockAsc a b = true) := by decide

end Model.C10
