import Model.GoPrelude
import Model.Loaders
import Model.Codec
import Model.Fetcher
import Proofs.Sort
/-!
# Props.GenCommon — lemmas about the Go primitives of `Model/GoPrelude.lean` and generic simulation lemmas,
shared by the `Props/Gen*.lean` files (which prove the translated functions equal to the model).  Nothing here
depends on generated code.
-/
namespace Model.SlicesGen
open Model Model.Go Model.Codec

theorem slice?_suffix {α : Type} (xs : List α) (a : Int) (h0 : 0 ≤ a) (h1 : a ≤ xs.length) :
    slice? xs a xs.length = some (xs.drop a.toNat) := by
  unfold slice?
  rw [if_pos ⟨h0, h1, Int.le_refl _⟩]
  simp

theorem slice?_isSome {α : Type} (xs : List α) (a b : Int) (h : 0 ≤ a ∧ a ≤ b ∧ b ≤ xs.length) :
    (slice? xs a b).isSome = true := by
  unfold slice?; rw [if_pos h]; rfl

theorem foldl_sim {α β γ : Type} (R : α → β → Prop) (f : α → γ → α) (g : β → γ → β)
    (h : ∀ a b x, R a b → R (f a x) (g b x)) : ∀ (l : List γ) (a : α) (b : β), R a b → R (l.foldl f a) (l.foldl g b) := by
  intro l
  induction l with
  | nil => intro a b r; exact r
  | cons x t ih => intro a b r; exact ih _ _ (h a b x r)

theorem contains_setInsert (m : List Hash) (k h : Hash) :
    (setInsert m k).contains h = (m.contains h || h == k) := by
  unfold setInsert
  by_cases hc : m.contains k = true
  · simp only [hc, if_true]
    by_cases hh : h = k
    · subst hh; simp [List.contains_iff_mem.mp hc]
    · simp [hh]
  · simp only [hc, Bool.false_eq_true, if_false, List.contains_append, List.contains_cons, List.contains_nil, Bool.or_false]

theorem has_append_single (d : List Entry) (v : Entry) (h : Hash) : has (d ++ [v]) h = (has d h || h == v.hash) := by
  simp only [has, List.any_append, List.any_cons, List.any_nil, Bool.or_false]
  congr 1
  rw [Bool.beq_comm]

theorem any_map_congr {α : Type} (f : α → α) (q : α → Bool) (m : List α) (h : ∀ p, q (f p) = q p) :
    (m.map f).any q = m.any q := by
  induction m with
  | nil => rfl
  | cons p t ih => simp only [List.map_cons, List.any_cons, h, ih]

theorem mapHas_mapSet (m : List (Hash × Hash)) (k v h : Hash) :
    mapHas (mapSet m k v) h = (mapHas m h || h == k) := by
  unfold mapSet mapHas
  by_cases hc : m.any (fun p => p.1 == k) = true
  · simp only [hc, if_true]
    rw [any_map_congr]
    · by_cases hh : h = k
      · subst hh; simp [hc]
      · simp [hh]
    · intro p
      by_cases hp : (p.1 == k) = true
      · simp only [hp, if_true]
        have : p.1 = k := by simpa using hp
        rw [this]
      · simp [hp]
  · simp only [hc, Bool.false_eq_true, if_false, List.any_append, List.any_cons, List.any_nil, Bool.or_false]
    congr 1
    rw [Bool.beq_comm]

theorem mapGet_of_not_has (m : List (Hash × Hash)) (h : Hash) (hn : mapHas m h = false) : mapGet m h = [] := by
  unfold mapGet
  have : m.find? (fun p => p.1 == h) = none := by
    rw [List.find?_eq_none]
    intro p hp
    unfold mapHas at hn
    rw [List.any_eq_false] at hn
    exact hn p hp
  rw [this]

theorem foldl_cond_append (p : Entry → Bool) : ∀ (l acc : List Entry),
    l.foldl (fun result h => if p h = true then result else result ++ [h]) acc = acc ++ l.filter (fun e => !p e) := by
  intro l
  induction l with
  | nil => intro acc; simp
  | cons e t ih =>
    intro acc
    rw [List.foldl_cons, ih, List.filter_cons]
    by_cases hp : p e = true <;> simp [hp]

/-- the zero value read from a missing key is `""`: `ok || v != ""` says no more than `ok` -/
theorem mapHas_or_mapGet (m : List (Hash × Hash)) (k : Hash) :
    (mapHas m k || mapGet m k != ([] : Hash)) = mapHas m k := by
  cases h : mapHas m k with
  | true => rfl
  | false => rw [mapGet_of_not_has m k h]; rfl

theorem dedup_uniq : ∀ (l acc : List Bytes),
    dedupHashes l acc = acc ++ (uniq l).filter (fun x => !acc.contains x) := by
  intro l
  induction l with
  | nil => intro acc; simp [dedupHashes, uniq]
  | cons c t ih =>
    intro acc
    rw [dedupHashes, uniq]
    by_cases hc : acc.contains c = true
    · simp only [hc, if_true, List.filter_cons, Bool.not_true, Bool.false_eq_true, if_false]
      rw [ih acc, List.filter_filter]
      congr 1
      apply List.filter_congr
      intro x _
      cases hx : acc.contains x with
      | true => simp
      | false =>
        have : x ≠ c := by intro h; subst h; rw [hc] at hx; cases hx
        simp [this]
    · simp only [hc, Bool.false_eq_true, if_false, List.filter_cons, Bool.not_false, if_true]
      rw [ih (acc ++ [c]), List.filter_filter, List.append_assoc]
      congr 1
      simp only [List.singleton_append]
      congr 1
      apply List.filter_congr
      intro x _
      simp only [List.contains_append, List.contains_cons, List.contains_nil, Bool.or_false, Bool.not_or, bne]

theorem uniq_eq_dedup (l : List Bytes) : uniq l = dedupHashes l [] := by
  rw [dedup_uniq]
  simp only [List.nil_append, List.contains_nil, Bool.not_false]
  exact (List.filter_eq_self.mpr (fun _ _ => rfl)).symm

/-- same members -/
def SameSet (a b : List Hash) : Prop := ∀ h, a.contains h = b.contains h

theorem sameSet_insert {a b : List Hash} (h : SameSet a b) (k : Hash) : SameSet (setInsert a k) (k :: b) := by
  intro x
  rw [contains_setInsert, h x, List.contains_cons, Bool.or_comm]

theorem mem_goSort' {lt : Entry → Entry → Bool} {l : List Entry} {a : Entry} : a ∈ goSort lt l → a ∈ l :=
  mem_goSort.mp

theorem get?_isSome (E : List Entry) (h : Hash) : (get? E h).isSome = has E h := by
  unfold get? has
  induction E with
  | nil => rfl
  | cons e t ih =>
    simp only [List.find?_cons, List.any_cons]
    cases he : (e.hash == h) with
    | true => simp
    | false => simpa using ih

theorem get?_some_hash {E : List Entry} {h : Hash} {e : Entry} (hg : get? E h = some e) : e.hash = h := by
  have := List.find?_some hg
  simpa using this

/-- `a > b || a == b` is `a ≥ b` (the code may spell it either way) -/
theorem gt_or_beq (a b : Int) : (decide (a > b) || (a == b)) = decide (a ≥ b) := by
  by_cases h1 : a > b
  · have : a ≥ b := by omega
    simp [h1, this]
  · by_cases h2 : a = b
    · simp [h2]
    · have : ¬ a ≥ b := by omega
      simp [h1, h2, this]

theorem foldl_setInsert (l : List Entry) : ∀ (acc : List Hash),
    l.foldl (fun kept e => setInsert kept e.hash) acc = dedupHashes (l.map (·.hash)) acc := by
  induction l with
  | nil => intro acc; rfl
  | cons e t ih =>
    intro acc
    rw [List.foldl_cons, List.map_cons, dedupHashes, ih]
    unfold setInsert
    by_cases h : acc.contains e.hash = true <;> simp only [h, if_true, if_false, Bool.false_eq_true]

/-- a search loop with an early `return true` (translated as a fold that keeps the first hit) and `false` after it -/
theorem search_true_fold {α : Type} (p : α → Bool) : ∀ (cs : List α) (hit : Option Bool),
    cs.foldl (fun hit c => hit.or (if p c = true then some true else none)) hit =
      hit.or (if cs.any p = true then some true else none) := by
  intro cs
  induction cs with
  | nil => intro hit; cases hit <;> rfl
  | cons c t ih =>
    intro hit
    rw [List.foldl_cons, ih]
    cases hit with
    | some r => rfl
    | none =>
      simp only [Option.none_or, List.any_cons]
      by_cases h1 : p c = true <;> by_cases h2 : t.any p = true <;> simp [h1, h2]

theorem search_true {α : Type} (p : α → Bool) (cs : List α) :
    (cs.foldl (fun hit c => hit.or (if p c = true then some true else none)) none).getD false = cs.any p := by
  rw [search_true_fold p cs none]
  by_cases h : cs.any p = true <;> simp [h]

theorem setInsert_eq_hsSet' : (fun (next : List Hash) (n : Hash) => setInsert next n) = hsSet := by
  funext m k; rfl

end Model.SlicesGen
