import Generated.GenLoaders
import Props.GenCommon
import Props.C19Gen
import Proofs.OMap
import Proofs.LoadersUnbounded
import Proofs.SortTrim
/-!
# Props.GenLoaders — `entryLastN`, `entryLastNKeeping`, `entrySliceRange` (log_io.go) and `Difference` (entry/utils.go) = `lastN`, `lastNKeeping`, `drop`, `entryDifference`; no slice expression in them can panic

`Generated/GenLoaders.lean` is produced on every run by `harness/cmd/extract/translate2.go` from the Go source; the
theorems identify it with the hand-written model the property theorems are about.
-/
namespace Model.SlicesGen
open Model Model.Go Model.Codec

theorem entrySliceRange_total (es : List Entry) (a b : Int) : (Generated.Go.entrySliceRange es a b).isSome = true := by
  unfold Generated.Go.entrySliceRange
  simp only
  generalize hA : (if decide (a < 0) = true then (if decide ((es.length : Int) + a < 0) = true then (0 : Int) else (es.length : Int) + a) else a) = A
  generalize hB : (if decide (b < 0) = true then (es.length : Int) + b else b) = B
  have hA0 : 0 ≤ A := by
    rw [← hA]; split <;> (try split) <;> simp_all <;> omega
  by_cases hl : ((es.length : Int) == 0) = true
  · simp [hl]
  · simp only [hl, Bool.false_eq_true, if_false]
    by_cases h1 : A ≥ (es.length : Int)
    · simp [h1]
    · simp only [h1, decide_false, Bool.false_eq_true, if_false]
      generalize hC : (if decide (B > (es.length : Int)) = true then (es.length : Int) else B) = C
      have hC1 : C ≤ es.length := by rw [← hC]; split <;> simp_all <;> omega
      by_cases h2 : A ≥ C
      · simp [h2]
      · simp only [h2, decide_false, Bool.false_eq_true, if_false]
        -- (the code has an unreachable `from == to` test here; tolerate its removal)
        first
          | exact slice?_isSome es A C ⟨hA0, by omega, hC1⟩
          | (by_cases h3 : (A == C) = true
             · simp [h3]
             · simp only [h3, Bool.false_eq_true, if_false]
               exact slice?_isSome es A C ⟨hA0, by omega, hC1⟩)

theorem entrySliceRange_drop (es : List Entry) (k : Nat) :
    Generated.Go.entrySliceRange es k es.length = some (es.drop k) := by
  unfold Generated.Go.entrySliceRange
  by_cases hl : es.length = 0
  · have : es = [] := List.eq_nil_of_length_eq_zero hl
    subst this; simp
  · have h0 : ((es.length : Int) == 0) = false := by rw [beq_eq_false_iff_ne]; omega
    have hk0 : decide ((k : Int) < 0) = false := by simp
    have hl0 : decide ((es.length : Int) < 0) = false := by simp
    have hl1 : decide ((es.length : Int) > es.length) = false := by simp
    simp only [h0, hk0, hl0, hl1, Bool.false_eq_true, if_false]
    by_cases hge : (k : Int) ≥ es.length
    · have : es.length ≤ k := by omega
      simp [hge, List.drop_eq_nil_of_le this]
    · have hne : ((k : Int) == (es.length : Int)) = false := by rw [beq_eq_false_iff_ne]; omega
      simp only [hge, decide_false, Bool.false_eq_true, if_false, hne]
      rw [slice?_suffix es k (by omega) (by omega)]
      simp

theorem entryLastN_eq (es : List Entry) (n : Int) : Generated.Go.entryLastN es n = some (lastN n es) := by
  unfold Generated.Go.entryLastN lastN
  by_cases h0 : n ≤ 0
  · simp [h0]
  · by_cases h1 : n ≥ (es.length : Int)
    · simp [h0, h1]
    · simp only [h0, h1, decide_false, Bool.false_eq_true, if_false]
      rw [slice?_suffix es _ (by omega) (by omega)]
      congr 2
      omega

theorem entryLastNKeeping_eq (es : List Entry) (n : Int) (keep : List Entry) :
    Generated.Go.entryLastNKeeping es n keep = lastNKeeping n es keep := by
  unfold Generated.Go.entryLastNKeeping lastNKeeping
  by_cases h : n ≥ (es.length : Int)
  · simp [h]
  · simp only [h, decide_false, Bool.false_eq_true, if_false, foldl_setInsert]
    refine congrArg List.reverse ?_
    refine (foldl_sim (fun (a : Int × List Entry) (b : List Entry × Int) => a.2 = b.1 ∧ a.1 = b.2) _ _ ?_
      es.reverse _ _ ⟨rfl, rfl⟩).1
    intro a b e r
    obtain ⟨q, o⟩ := a
    obtain ⟨o', q'⟩ := b
    obtain ⟨r1, r2⟩ := r
    dsimp only at r1 r2
    subst r1; subst r2
    dsimp only
    -- decide every atom the loop body may test, in both spellings
    by_cases hk : e.hash ∈ dedupHashes (keep.map (·.hash)) []
    · by_cases hq : 0 < q
      · have hq' : ¬ q ≤ 0 := by omega
        simp [hk, hq, hq']
      · have hq' : q ≤ 0 := by omega
        simp [hk, hq, hq']
    · by_cases hq : 0 < q
      · have hq' : ¬ q ≤ 0 := by omega
        simp [hk, hq, hq']
      · have hq' : q ≤ 0 := by omega
        simp [hk, hq, hq']

theorem existing_contains (a : List Entry) (h : Hash) : ∀ (acc : List Hash),
    (a.foldl (fun existing v => setInsert existing v.hash) acc).contains h = (acc.contains h || has a h) := by
  induction a with
  | nil => intro acc; simp [has]
  | cons v t ih =>
    intro acc
    rw [List.foldl_cons, ih, contains_setInsert]
    simp only [has, List.any_cons, Bool.or_assoc]
    congr 2
    rw [Bool.beq_comm]

theorem difference_eq (a b : List Entry) : Generated.Go.entryDifference a b = entryDifference a b := by
  unfold Generated.Go.entryDifference entryDifference
  simp only
  have he : ∀ v : Entry, (a.foldl (fun existing v => setInsert existing v.hash) []).contains v.hash = has a v.hash := by
    intro v; rw [existing_contains]; simp
  refine (foldl_sim (fun (x : List Hash × List Entry) (y : List Entry) => x.2 = y ∧ ∀ h, x.1.contains h = has y h)
    _ _ ?_ b _ _ ⟨rfl, fun h => by simp [has]⟩).1
  intro x y v r
  obtain ⟨p, d⟩ := x
  obtain ⟨r1, r2⟩ := r
  dsimp only at r1 r2 ⊢
  subst r1
  rw [he v, r2 v.hash]
  cases h1 : has a v.hash <;> cases h2 : has d v.hash <;>
    simp only [Bool.not_true, Bool.not_false, Bool.and_self, Bool.and_false, Bool.false_and, Bool.false_eq_true, if_false,
      if_true, Bool.or_self, Bool.or_true, Bool.true_or, true_and]
  · intro h; rw [contains_setInsert, r2 h, has_append_single]
  · exact r2
  · exact r2
  · exact r2

/-! ## `fromEntry` around the fetch: the fetch length and what is made of the fetched entries = `loadEntries` -/

theorem fromEntryLength_eq (nOpt : Option Int) (source : List Entry) :
    Generated.Go.fromEntryLength nOpt source =
      (if nOpt.getD (-1) > -1 then max (nOpt.getD (-1)) (source.length : Int) else -1) := by
  unfold Generated.Go.fromEntryLength
  cases nOpt with
  | none => simp
  | some v =>
    simp only [Option.isSome_some, Bool.true_and, Option.getD_some, C19Gen.maxInt_eq]
    by_cases h : v > -1 <;> simp [h]

/-- **the fourth loader's glue, translated, is the model's `loadEntries`** (no `Exclude` list; the fetch result is a
    parameter): the same entries in the same order under the log id of the last one, or — when nothing at all is
    left — the panic of the code (`none`) -/
theorem fromEntry_eq (clockId : Bytes) (k : SortKind) (source fetched : List Entry) (nOpt : Option Int) :
    (Generated.Go.fromEntryTail [] source fetched (Generated.Go.fromEntryLength nOpt source)).map
        (fun r => newLog r.1 clockId k r.2 []) =
      loadEntries clockId k source fetched (nOpt.getD (-1)) := by
  rw [fromEntryLength_eq]
  unfold Generated.Go.fromEntryTail loadEntries
  simp only [List.append_nil, entryLastNKeeping_eq, difference_eq]
  generalize (if nOpt.getD (-1) > -1 then max (nOpt.getD (-1)) (source.length : Int) else -1) = len
  generalize goSort clockAsc (omFromList (source ++ fetched)) = uniques
  have hsl : (if decide (len > -1) = true then lastNKeeping len uniques source else uniques) =
      (if len > -1 then lastNKeeping len uniques source else uniques) := by
    by_cases h : len > -1 <;> simp [h]
  rw [hsl]
  generalize (if len > -1 then lastNKeeping len uniques source else uniques) = sliced
  rw [entrySliceRange_drop]
  simp only
  cases (entryDifference sliced source ++ List.drop (entryDifference sliced source).length sliced).getLast? <;> rfl

/-- **`fromJSON`'s glue, translated, is the model's `loadJSON`** (the fetch result is a parameter; id and heads are
    handed through from the caller's manifest) — and it cannot panic -/
theorem fromJSON_eq (clockId : Bytes) (k : SortKind) (id : Bytes) (fetched : List Entry) (nOpt : Option Int) :
    (Generated.Go.fromJSONTail nOpt fetched).map (fun ents => newLog id clockId k ents []) =
      some (loadJSON clockId k id fetched (nOpt.getD (-1))) := by
  unfold Generated.Go.fromJSONTail Generated.Go.fromJSONTail_join1 loadJSON
  simp only [entryLastN_eq]
  cases nOpt with
  | none => simp
  | some v =>
    simp only [Option.isSome_some, Bool.true_and, Option.getD_some]
    by_cases h : v > -1 <;> simp [h]

/-! ## the default loader: `fromMultihash` / `NewFromMultihash` around the fetch = `loadManifest` -/

theorem inner_heads (x : Hash) : ∀ (M : List Hash) (acc : List Hash), M.Nodup →
    M.foldl (fun heads h => if (h == x) = true then heads ++ [x] else heads) acc =
      if M.contains x then acc ++ [x] else acc := by
  intro M
  induction M with
  | nil => intro acc _; rfl
  | cons m t ih =>
    intro acc hnd
    obtain ⟨hm, ht⟩ := List.nodup_cons.mp hnd
    simp only [List.foldl_cons, List.contains_cons]
    by_cases hx : m = x
    · subst hx
      have hnc : t.contains m = false := by
        cases hc : t.contains m with
        | false => rfl
        | true => exact absurd (List.contains_iff_mem.mp hc) hm
      simp only [beq_self_eq_true, if_true, Bool.true_or]
      rw [ih _ ht, hnc]; rfl
    · have h1 : (m == x) = false := by simpa using hx
      have h2 : (x == m) = false := by simpa using (fun h => hx h.symm)
      simp only [h1, Bool.false_eq_true, if_false, h2, Bool.false_or]
      exact ih acc ht

theorem heads_fold (M : List Hash) (hM : M.Nodup) : ∀ (ents : List Entry) (acc : List Hash),
    ents.foldl (fun heads e => M.foldl (fun heads h => if (h == e.hash) = true then heads ++ [e.hash] else heads) heads) acc =
      acc ++ (ents.filter (fun e => M.contains e.hash)).map (·.hash) := by
  intro ents
  induction ents with
  | nil => intro acc; simp
  | cons e t ih =>
    intro acc
    simp only [List.foldl_cons, inner_heads e.hash M _ hM, List.filter_cons]
    by_cases hc : M.contains e.hash = true
    · simp only [hc, if_true, ih, List.map_cons, List.append_assoc, List.singleton_append]
    · simp only [hc, Bool.false_eq_true, if_false, ih]

theorem head_entries_fold (E : List Entry) (hE : (hashes E).Nodup) : ∀ (hs : List Entry) (acc : List Entry),
    (∀ e ∈ hs, e ∈ E) →
    (hs.map (·.hash)).foldl (fun heads h => if (!(get? E h).isSome) = true then heads else heads ++ [(get? E h).getD default]) acc =
      acc ++ hs := by
  intro hs
  induction hs with
  | nil => intro acc _; simp
  | cons e t ih =>
    intro acc hin
    have hg := get?_eq_of_mem hE (hin e List.mem_cons_self)
    simp only [List.map_cons, List.foldl_cons, hg, Option.isSome_some, Bool.not_true, Bool.false_eq_true, if_false,
      Option.getD_some]
    rw [ih _ (fun x hx => hin x (List.mem_cons_of_mem _ hx))]
    simp

/-- **the default loader's glue, translated, is the model's `loadManifest`** (manifest heads and fetched entries
    without repetitions; the fetch result is a parameter) -/
theorem fromMultihash_eq (clockId : Bytes) (logSort fetchSort : SortKind) (id : Bytes) (manifestHeads : List Hash)
    (fetched : List Entry) (nOpt : Option Int) (hF : (hashes fetched).Nodup) (hM : manifestHeads.Nodup) :
    ∃ vals hs, Generated.Go.fromMultihashTail (beforeAsc fetchSort) nOpt manifestHeads fetched = some (vals, hs) ∧
      newLog id clockId logSort (Generated.Go.newFromMultihashHeads vals hs).1 (Generated.Go.newFromMultihashHeads vals hs).2 =
        loadManifest clockId logSort fetchSort id manifestHeads fetched (nOpt.getD (-1)) := by
  -- the entries after sort-and-trim
  obtain ⟨ents, hdef⟩ : ∃ e, e = sortTrim (beforeAsc fetchSort) (nOpt.getD (-1)) fetched := ⟨_, rfl⟩
  have hentsND : (hashes ents).Nodup := by
    rw [hdef]
    unfold sortTrim
    split
    · have h1 := goSort_hashes_nodup (beforeAsc fetchSort) hF
      exact h1.sublist ((lastN_sublist _ _).map _)
    · exact hF
  have htail : Generated.Go.fromMultihashTail (beforeAsc fetchSort) nOpt manifestHeads fetched =
      some (ents, (ents.filter (fun e => manifestHeads.contains e.hash)).map (·.hash)) := by
    unfold Generated.Go.fromMultihashTail Generated.Go.fromMultihashTail_join1
    simp only [entryLastN_eq, heads_fold manifestHeads hM, List.nil_append]
    rw [hdef]
    unfold sortTrim
    cases nOpt with
    | none => simp
    | some v =>
      simp only [Option.isSome_some, Bool.true_and, Option.getD_some]
      by_cases h : v > -1 <;> simp [h]
  refine ⟨ents, _, htail, ?_⟩
  unfold Generated.Go.newFromMultihashHeads loadManifest
  simp only [← hdef]
  have hom : omFromList ents = ents := omFromList_id hentsND
  rw [hom, head_entries_fold ents hentsND _ [] (fun e he => (List.mem_filter.mp he).1), List.nil_append]

/-! ## `fromEntryHash` around the fetch = `loadEntryHash` -/

theorem fromEntryHashLength_eq (nOpt : Option Int) :
    Generated.Go.fromEntryHashLength nOpt = (if nOpt.getD (-1) > -1 then max (nOpt.getD (-1)) 1 else -1) := by
  unfold Generated.Go.fromEntryHashLength
  cases nOpt with
  | none => simp
  | some v =>
    simp only [Option.isSome_some, Bool.true_and, Option.getD_some, C19Gen.maxInt_eq]
    by_cases h : v > -1 <;> simp [h]

/-- **`fromEntryHash`'s glue, translated, is the model's `loadEntryHash`** (default ordering; the slice is sorted
    through one of its names and trimmed through the other — the translation updates both) -/
theorem fromEntryHash_eq (clockId : Bytes) (k : SortKind) (id : Bytes) (fetched : List Entry) (nOpt : Option Int) :
    (Generated.Go.fromEntryHashTail (beforeAsc .lww) fetched (Generated.Go.fromEntryHashLength nOpt)).map
        (fun ents => newLog id clockId k ents []) =
      some (loadEntryHash clockId k id fetched (nOpt.getD (-1))) := by
  rw [fromEntryHashLength_eq]
  unfold Generated.Go.fromEntryHashTail Generated.Go.fromEntryHashTail_join1 loadEntryHash sortTrim
  simp only [entryLastN_eq]
  by_cases h : nOpt.getD (-1) > -1
  · have h2 : max (nOpt.getD (-1)) 1 > -1 := by omega
    simp [h, h2]
  · simp [h]

end Model.SlicesGen
