import Proofs.Store
import Proofs.RefsClosed
import Props.C09
/-!
# C17 — the block store is causally closed at every instant (crash safety)

`s.uni` is the write sequence of entry blocks of a reachable system (any history of appends, merges,
identity changes on any number of replicas sharing the store).  A crash point between two block
writes is a prefix `s.uni.take n`.
-/
namespace Model.C17

/-- after any prefix of the block writes, every entry block in the store has the blocks of all its
    predecessors and references in the store too -/
theorem store_closed_at_every_prefix {s : Sys} (hr : Reachable s) (n : Nat) :
    ∀ e ∈ s.uni.take n, ∀ h ∈ e.next ++ e.refs, h ∈ hashes (s.uni.take n) := by
  obtain ⟨ops, h⟩ := hr
  exact prefixClosed_run ops sysInv_init prefixClosed_nil h n

/-- every entry a replica holds in memory has been written to the store (writes precede publication) -/
theorem memory_subset_store {s : Sys} (hr : Reachable s) {r : Nat} {l : Log} (hl : s.logs r = some l) :
    ∀ e ∈ l.entries, e ∈ s.uni := ((reachable_inv hr).inv r l hl).inU

/-- what a manifest (or a returned head hash) names is in the store, with all of its history -/
theorem published_heads_in_store {s : Sys} (hr : Reachable s) {r : Nat} {l : Log} (hl : s.logs r = some l) :
    (∀ h ∈ jsonHeads l, h ∈ hashes s.uni) ∧
    (∀ e ∈ l.entries, ∀ c ∈ e.next, ∃ p ∈ s.uni, p.hash = c) := by
  have I := (reachable_inv hr).inv r l hl
  constructor
  · intro h hh
    unfold jsonHeads at hh
    obtain ⟨x, hx, hxh⟩ := List.mem_map.mp hh
    unfold hashes
    exact List.mem_map.mpr ⟨x, I.inU x (I.headsIn x (mem_goSort.mp hx)), hxh⟩
  · intro e he c hc
    obtain ⟨p, hp, hph⟩ := has_iff.mp (I.closed e he c hc)
    exact ⟨p, I.inU p hp, hph⟩

/-- the store only grows: a later store contains every earlier one as a prefix -/
theorem store_only_grows {s s' : Sys} {op : Op} (hstep : s.step op = some s') : ∃ t, s'.uni = s.uni ++ t := by
  cases op with
  | newLog id cid k => simp only [Sys.step, Option.some.injEq] at hstep; subst hstep; exact ⟨[], by simp⟩
  | append r pc h tag =>
    simp only [Sys.step] at hstep
    cases hl : s.logs r with
    | none => rw [hl] at hstep; cases hstep
    | some l =>
      rw [hl] at hstep
      simp only at hstep
      by_cases hcc : (hashes s.uni).contains h = true
      · rw [if_pos hcc] at hstep; cases hstep
      · rw [if_neg hcc] at hstep
        simp only [Option.some.injEq] at hstep
        subst hstep
        exact ⟨[_], rfl⟩
  | join r r2 =>
    simp only [Sys.step] at hstep
    cases ha : s.logs r with
    | none => rw [ha] at hstep; simp at hstep
    | some a =>
      cases hb : s.logs r2 with
      | none => rw [ha, hb] at hstep; simp at hstep
      | some b =>
        rw [ha, hb] at hstep
        simp only at hstep
        by_cases hrr : r = r2
        · simp only [hrr, if_true, Option.some.injEq] at hstep; subst hstep; exact ⟨[], by simp⟩
        · simp only [hrr, if_false] at hstep
          cases hj : join a b.id b.entries b.heads (-1) with
          | ok l2 => rw [hj] at hstep; simp only [Option.some.injEq] at hstep; subst hstep; exact ⟨[], by simp⟩
          | err => rw [hj] at hstep; simp only [Option.some.injEq] at hstep; subst hstep; exact ⟨[], by simp⟩
  | setIdentity r cid =>
    simp only [Sys.step] at hstep
    cases hl : s.logs r with
    | none => rw [hl] at hstep; cases hstep
    | some l => rw [hl] at hstep; simp only [Option.some.injEq] at hstep; subst hstep; exact ⟨[], by simp⟩
  | rebuild src cid ents wh =>
    obtain ⟨l, _, _, rfl⟩ := rebuild_step hstep
    exact ⟨[], by simp⟩

/-- the decidable predicate evaluated on the implementation's write log implies the property -/
theorem checked_predicate_sound (U : List Entry) (h : prefixClosedB U = true) :
    ∀ n, ∀ e ∈ U.take n, ∀ c ∈ e.next ++ e.refs, c ∈ hashes (U.take n) := prefixClosedB_sound U h

/-- a whole history only appends block writes -/
theorem run_store_grows : ∀ (ops : List Op) {s s' : Sys}, s.run ops = some s' → ∃ t, s'.uni = s.uni ++ t
  | [], s, s', h => by simp [Sys.run] at h; exact ⟨[], by rw [h]; simp⟩
  | op :: ops, s, s', h => by
    simp only [Sys.run] at h
    cases hs : s.step op with
    | none => rw [hs] at h; cases h
    | some s1 =>
      rw [hs] at h
      obtain ⟨t1, h1⟩ := store_only_grows hs
      obtain ⟨t2, h2⟩ := run_store_grows ops h
      exact ⟨t1 ++ t2, by rw [h2, h1, List.append_assoc]⟩

/-- the replica as the block store sees it: the hypothesis of the fetcher theorems of C09, discharged
    for every replica of every reachable system and every store that holds the replica's universe -/
theorem source_in_store {s : Sys} (hr : Reachable s) {r : Nat} {l : Log} (hl : s.logs r = some l)
    (cfg : FCfg) (hstore : ∀ e ∈ s.uni, get? cfg.store e.hash = some e) (hdef : [] ∉ hashes s.uni) :
    C09.SourceInStore cfg l.entries (jsonHeads l) := by
  have I := (reachable_inv hr).inv r l hl
  have R := reachable_refsIn hr hl
  have hroots : ∀ h, h ∈ jsonHeads l ↔ h ∈ hashes l.heads := by
    intro h
    unfold jsonHeads hashes
    simp only [List.mem_map]
    exact ⟨fun ⟨x, hx, hxh⟩ => ⟨x, mem_goSort.mp hx, hxh⟩, fun ⟨x, hx, hxh⟩ => ⟨x, mem_goSort.mpr hx, hxh⟩⟩
  have hstored : ∀ e ∈ l.entries, get? cfg.store e.hash = some e := fun e he => hstore e (I.inU e he)
  refine ⟨hstored, ?_, ?_, ?_, ?_⟩
  · intro e he hh
    apply hdef
    rw [← hh]
    exact List.mem_map.mpr ⟨e, I.inU e he, rfl⟩
  · intro h hh
    obtain ⟨x, hx, hxh⟩ := List.mem_map.mp ((hroots h).mp hh)
    exact ⟨x, I.headsIn x hx, hxh⟩
  · intro e he c hc
    rcases List.mem_append.mp hc with h1 | h1
    · exact has_iff.mp (I.closed e he c h1)
    · exact List.mem_map.mp (R e he c h1)
  · intro e he
    obtain ⟨hd, hhd, hdesc⟩ := every_entry_below_some_head I e he
    have : ∀ a b, Desc l.entries a b → a = hd → Anc cfg (jsonHeads l) b.hash := by
      intro a b d
      induction d with
      | refl ha =>
        intro e1; subst e1
        exact Anc.root ((hroots _).mpr (List.mem_map.mpr ⟨_, hhd, rfl⟩))
      | step d hc hg ih =>
        intro e1
        have hb := hstored _ (Desc.mem_right d)
        have hp := (get?_mem hg).2
        rw [hp]
        exact Anc.next (ih e1) hb hc
    exact this hd e hdesc rfl

/-- **C17, end to end in the model.**  `l` is the state of a replica at some point of a history (`s`);
    the history continues arbitrarily (`ops`, reaching `s'`), and the process may crash between any two
    later block writes (the store is the prefix `s'.uni.take n`, `n ≥ |s.uni|` because `Append` writes
    before it publishes).  Then what the published manifest of `l` names — its id and head hashes —
    loads, by *any* accepted unbounded execution of the fetcher and each of the four loaders, to
    exactly `l`: same id, same entries, same heads, same `Values()` under a strict total ordering. -/
theorem published_state_loads {s s' : Sys} (hr : Reachable s) (ops : List Op) (hrun : s.run ops = some s')
    {r : Nat} {l : Log} (hl : s.logs r = some l) (n : Nat) (hn : s.uni.length ≤ n)
    (hdef : [] ∉ hashes s'.uni)
    (cfg : FCfg) (hstore : cfg.store = s'.uni.take n) (hlen : cfg.length < 0) (hex : ∀ h, cfg.excluded h = false)
    (evs : List FEvent) (st : FState)
    (h : accepted cfg (jsonHeads l) evs = some st) (hq : quiescent st) (hc : st.cancelled = false)
    (clockId : Bytes) (k k' : SortKind) :
    C09.SameLog s.uni l (loadManifest clockId k k' l.id (jsonHeads l) st.results (-1)) ∧
    C09.SameLog s.uni l (loadEntryHash clockId k l.id st.results (-1)) ∧
    C09.SameLog s.uni l (loadJSON clockId k l.id st.results (-1)) ∧
    (∀ source, (∀ e ∈ source, e ∈ l.entries) → source ≠ [] →
      ∃ L, loadEntries clockId k source st.results (-1) = some L ∧ C09.SameLog s.uni l L) := by
  have I := reachable_inv hr
  have I' := sysInv_run ops I hrun
  obtain ⟨t, ht⟩ := run_store_grows ops hrun
  have hsub : ∀ e ∈ s.uni, e ∈ s'.uni.take n := by
    intro e he
    rw [ht, List.take_append]
    exact List.mem_append_left _ (by rw [List.take_of_length_le hn]; exact he)
  have hnd : (hashes (s'.uni.take n)).Nodup := by
    have := I'.uni
    unfold hashes at this ⊢
    exact ((List.take_sublist n s'.uni).map _).nodup this
  have hget : ∀ e ∈ s.uni, get? cfg.store e.hash = some e := by
    intro e he
    rw [hstore]
    exact get?_eq_of_mem hnd (hsub e he)
  have hdef' : [] ∉ hashes s.uni := by
    intro hm
    apply hdef
    obtain ⟨y, hy, hyh⟩ := List.mem_map.mp hm
    exact List.mem_map.mpr ⟨y, by rw [ht]; exact List.mem_append_left _ hy, hyh⟩
  have src := source_in_store hr hl cfg hget hdef'
  have hroots : ∀ h, h ∈ jsonHeads l ↔ h ∈ hashes l.heads := by
    intro h
    unfold jsonHeads hashes
    simp only [List.mem_map]
    exact ⟨fun ⟨x, hx, hxh⟩ => ⟨x, mem_goSort.mp hx, hxh⟩, fun ⟨x, hx, hxh⟩ => ⟨x, mem_goSort.mpr hx, hxh⟩⟩
  have Il := I.inv r l hl
  exact C09.rebuilt_equals_original I.uni Il cfg (jsonHeads l) evs st hroots hlen hex src h hq hc clockId k k'

/-! non-vacuity: a forked and merged two-replica history is reachable, its replicas exist, no block has
the undefined hash, and the history continues (the hypotheses of `published_state_loads`; an accepted
fetcher execution on such a store is exhibited in `Props/C09.lean`) -/
def demoOps : List Op :=
  [.newLog [88] [4, 1] .lww, .newLog [88] [4, 2] .lww, .append 0 0 [1] 0, .append 1 0 [2] 0, .append 0 2 [3] 0,
   .join 0 1, .join 1 0, .append 1 2 [4] 0]
def demoLater : List Op := [.append 0 0 [5] 0, .join 0 1]

def demoCheck : Bool :=
  match Sys.init.run demoOps with
  | some s =>
    (match s.logs 1, s.run demoLater with
     | some l, some s' => l.entries.length == 4 && !(hashes s'.uni).contains [] && s.uni.length ≤ 4 && s'.uni.length == 5
     | _, _ => false)
  | none => false

example : demoCheck = true := by decide

end Model.C17
