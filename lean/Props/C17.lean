import Proofs.Store
/-!
# C17 — the block store is causally closed at every instant (crash safety)

`s.uni` is the write sequence of entry blocks of a reachable system (any history of appends, merges,
identity changes on any number of replicas sharing the store).  A crash point between two block
writes is a prefix `s.uni.take n`.
-/
namespace Model.C17

/-- after any prefix of the block writes, every entry block in the store has the blocks of all its
    predecessors and references in the store too -/
theorem store_closed_at_every_prefix {s : Sys} (hr : Reachable s) (n : Nat) :
    ∀ e ∈ s.uni.take n, ∀ h ∈ e.next ++ e.refs, h ∈ hashes (s.uni.take n) := by
  obtain ⟨ops, h⟩ := hr
  exact prefixClosed_run ops sysInv_init prefixClosed_nil h n

/-- every entry a replica holds in memory has been written to the store (writes precede publication) -/
theorem memory_subset_store {s : Sys} (hr : Reachable s) {r : Nat} {l : Log} (hl : s.logs r = some l) :
    ∀ e ∈ l.entries, e ∈ s.uni := ((reachable_inv hr).inv r l hl).inU

/-- what a manifest (or a returned head hash) names is in the store, with all of its history -/
theorem published_heads_in_store {s : Sys} (hr : Reachable s) {r : Nat} {l : Log} (hl : s.logs r = some l) :
    (∀ h ∈ jsonHeads l, h ∈ hashes s.uni) ∧
    (∀ e ∈ l.entries, ∀ c ∈ e.next, ∃ p ∈ s.uni, p.hash = c) := by
  have I := (reachable_inv hr).inv r l hl
  constructor
  · intro h hh
    unfold jsonHeads at hh
    obtain ⟨x, hx, hxh⟩ := List.mem_map.mp hh
    unfold hashes
    exact List.mem_map.mpr ⟨x, I.inU x (I.headsIn x (mem_goSort.mp hx)), hxh⟩
  · intro e he c hc
    obtain ⟨p, hp, hph⟩ := has_iff.mp (I.closed e he c hc)
    exact ⟨p, I.inU p hp, hph⟩

/-- the store only grows: a later store contains every earlier one as a prefix -/
theorem store_only_grows {s s' : Sys} {op : Op} (hstep : s.step op = some s') : ∃ t, s'.uni = s.uni ++ t := by
  cases op with
  | newLog id cid k => simp only [Sys.step, Option.some.injEq] at hstep; subst hstep; exact ⟨[], by simp⟩
  | append r pc h tag =>
    simp only [Sys.step] at hstep
    cases hl : s.logs r with
    | none => rw [hl] at hstep; cases hstep
    | some l =>
      rw [hl] at hstep
      simp only at hstep
      by_cases hcc : (hashes s.uni).contains h = true
      · rw [if_pos hcc] at hstep; cases hstep
      · rw [if_neg hcc] at hstep
        simp only [Option.some.injEq] at hstep
        subst hstep
        exact ⟨[_], rfl⟩
  | join r r2 =>
    simp only [Sys.step] at hstep
    cases ha : s.logs r with
    | none => rw [ha] at hstep; simp at hstep
    | some a =>
      cases hb : s.logs r2 with
      | none => rw [ha, hb] at hstep; simp at hstep
      | some b =>
        rw [ha, hb] at hstep
        simp only at hstep
        by_cases hrr : r = r2
        · simp only [hrr, if_true, Option.some.injEq] at hstep; subst hstep; exact ⟨[], by simp⟩
        · simp only [hrr, if_false] at hstep
          cases hj : join a b.id b.entries b.heads (-1) with
          | ok l2 => rw [hj] at hstep; simp only [Option.some.injEq] at hstep; subst hstep; exact ⟨[], by simp⟩
          | err => rw [hj] at hstep; simp only [Option.some.injEq] at hstep; subst hstep; exact ⟨[], by simp⟩
  | setIdentity r cid =>
    simp only [Sys.step] at hstep
    cases hl : s.logs r with
    | none => rw [hl] at hstep; cases hstep
    | some l => rw [hl] at hstep; simp only [Option.some.injEq] at hstep; subst hstep; exact ⟨[], by simp⟩

/-- the decidable predicate evaluated on the implementation's write log implies the property -/
theorem checked_predicate_sound (U : List Entry) (h : prefixClosedB U = true) :
    ∀ n, ∀ e ∈ U.take n, ∀ c ∈ e.next ++ e.refs, c ∈ hashes (U.take n) := prefixClosedB_sound U h

end Model.C17
