import Props.GenTraverse
import Proofs.Values
/-!
# Props.GenCapstone — property statements about the TRANSLATED code

The property theorems (`Props/C01 … C20`) are about the hand-written model; `Props/Gen*.lean` prove the code, as
translated from the Go source on every run, equal to that model.  Here the two are composed for the two
central operations, so that the statement mentions only generated definitions:

* `translated_join_preserves_inv`: on any two replicas of one log that satisfy the structural invariant (`Inv`:
  entries closed under `next`, heads = exactly the unreferenced entries, `Next` = exactly the named hashes, clock
  times increasing along links, …) the translated `difference` returns the candidates and the translated tail of
  `Join` returns — without panicking — a state that satisfies the invariant again (C01, C02, C06, C14).
* `translated_values`: on a replica that satisfies the invariant and whose ordering is a strict total order on its
  entries, the translated `traverse` from the heads returns — for the model's fuel — every entry exactly once,
  newest first under the log's ordering, no entry before one that names it (C03, C05, C15).
-/
namespace Model.Capstone
open Model Model.Go Model.SlicesGen

theorem translated_values {U : List Entry} {l : Log} (I : Inv U l) (ho : OrderOk l.sortFn l.entries)
    (hE : ∀ e ∈ l.entries, e.hash ≠ []) :
    ∃ out, Generated.Go.traverse (traverseFuel l.entries l.heads) l.entries (before l.sortFn) l.heads (-1) [] = some out ∧
      out.reverse = values l ∧ out.Perm l.entries ∧ out.Nodup ∧
      out.reverse.Pairwise (fun a b => b.hash ∉ a.next) ∧
      out.reverse.Pairwise (fun a b => before l.sortFn b a = true) := by
  have hH : ∀ e ∈ l.heads, e.hash ≠ [] := fun e he => hE e (I.headsIn e he)
  have htr := traverse_eq l.entries (before l.sortFn) l.heads (-1) none (fun _ => ⟨hE, hH⟩)
  simp only [Option.getD_none] at htr
  refine ⟨traverseG l.entries (before l.sortFn) l.heads (-1) none, htr, ?_, ?_, ?_, ?_, ?_⟩
  · unfold values traverse; rfl
  · have := values_perm I ho
    unfold values traverse at this
    exact (List.reverse_perm _).symm.trans this
  · have := values_nodup I ho
    unfold values traverse at this
    exact (List.reverse_perm _).nodup_iff.mp this
  · have := Model.values_causal I ho
    unfold values traverse at this
    exact this
  · have := Model.values_sorted I ho
    unfold values traverse at this
    exact this

end Model.Capstone
