import Proofs.Conc
/-!
# C04 under concurrency — the clock id of an appended entry is the identity in force

In the concurrent world (`Model.Conc`), for every set of programs and every schedule: the clock id of a
log is the argument of the last `SetIdentity` critical section recorded for that log (its initial id when
there is none) — a merge, bounded or not, successful or not, never changes it — and the entry created by
an `Append` critical section carries exactly that id.  The seeded change C04c (a merge re-installing a
clock id it sampled before taking the lock) breaks the first statement on the implementation; the conc
stream evaluates it as `clockIdIsWriter`.
-/
namespace Model.C04Conc
open Model Model.Conc

/-- the identity installed by the newest `SetIdentity` among the recorded critical sections (newest first) -/
def lastId (init : Bytes) : List Ev → Bytes
  | [] => init
  | .wr _ (.setIdentity c) _ :: _ => c
  | _ :: t => lastId init t

theorem join_clock_id (l l' : Log) (oid : Bytes) (E H : List Entry) (size : Int) (valid : Entry → Bool)
    (h : join l oid E H size valid = .ok l') : l'.clock.id = l.clock.id := by
  unfold join at h
  split at h
  · cases h; rfl
  · split at h
    · cases h
    · cases h
      show (joinTrim (joinMerge l E H) size).clock.id = l.clock.id
      unfold joinTrim
      split <;> rfl

theorem applyW_clock_id (op : WOp) (r : Regs) (l : Log) :
    (applyW op r l).1.clock.id = (match op with | .setIdentity c => c | _ => l.clock.id) := by
  cases op with
  | append pc h tag => rfl
  | setIdentity c => rfl
  | refuse => rfl
  | join oid size =>
    simp only [applyW]
    split
    · rename_i l' hj; exact join_clock_id l l' oid _ _ size _ hj
    · rfl

/-- the entry an `Append` critical section creates carries the clock id of the log at that instant -/
theorem append_out_clock_id (pc : Int) (h : Hash) (tag : Nat) (r : Regs) (l : Log) :
    ((applyW (.append pc h tag) r l).2.out.map (·.clock.id)) = some l.clock.id := rfl

/-- the invariant: every log's clock id is `lastId` of its recorded events -/
def IdInv (w0 w : World) : Prop := ∀ l, (w.logs l).clock.id = lastId (w0.logs l).clock.id (w.ev l)

theorem step_idInv {w0 w w' : World} {t : Tid} (I : IdInv w0 w) (hs : step w t = some w') : IdInv w0 w' := by
  have hsd := step_sound hs
  cases hsd with
  | write l op rest hr =>
    intro l'
    dsimp only
    by_cases hl : l' = l
    · subst hl
      rw [upd_same, upd_same, applyW_clock_id]
      cases op with
      | append pc h tag => exact I l'
      | join oid size => exact I l'
      | refuse => exact I l'
      | setIdentity c => rfl
    · rw [upd_other _ _ hl, upd_other _ _ hl]; exact I l'
  | lockAcq l rest hr hw hrd hp =>
    intro l'
    dsimp only
    by_cases hl : l' = l
    · subst hl; rw [upd_same]; exact I l'
    · rw [upd_other _ _ hl]; exact I l'
  | unlock l rest hr hw =>
    intro l'
    dsimp only
    by_cases hl : l' = l
    · subst hl; rw [upd_same]; exact I l'
    · rw [upd_other _ _ hl]; exact I l'
  | _ => exact I

/-- **every schedule**: the clock id of every log is the identity installed by the last completed
    `SetIdentity` on it (the initial one if none) — merges never change it -/
theorem clock_id_is_identity_in_force : ∀ (s : List Tid) (w0 w1 w : World), IdInv w0 w1 → exec w1 s = some w → IdInv w0 w
  | [], _, _, _, I, h => by simp only [exec, Option.some.injEq] at h; exact h ▸ I
  | t :: ts, w0, w1, w, I, h => by
    simp only [exec] at h
    cases hs : step w1 t with
    | none => rw [hs] at h; cases h
    | some w2 =>
      rw [hs] at h
      exact clock_id_is_identity_in_force ts w0 w2 w (step_idInv I hs) h

theorem idInv_init {w0 : World} (hI : Init w0) : IdInv w0 w0 := by
  intro l; rw [hI.ev l]; rfl

/-- in words: from an initial world, after any schedule, an `Append` that runs its critical section next
    creates an entry whose clock id is `lastId` of the log's events so far -/
theorem appended_entry_clock_id {w0 w : World} (hI : Init w0) (s : List Tid) (h : exec w0 s = some w)
    (l : Lid) (pc : Int) (hh : Hash) (tag : Nat) (r : Regs) :
    ((applyW (.append pc hh tag) r (w.logs l)).2.out.map (·.clock.id)) =
      some (lastId (w0.logs l).clock.id (w.ev l)) := by
  rw [append_out_clock_id]
  exact congrArg some (clock_id_is_identity_in_force s w0 w0 w (idInv_init hI) h l)

/-! non-vacuity: a merge racing an identity change, then an append: the appended entry carries the new id
whichever of the two critical sections of log 0 comes first -/
def wS : World := mkWorld (fun _ => { id := [7], entries := [], heads := [], nextIdx := [], clock := { id := [1], time := 0 }, sortFn := .lww })
  (progsOfList [joinProg 0 1 [7] (-1), setIdentityProg 0 [9], appendProg 0 1 [5]])

/-- merge up to its lock request, identity change completely, merge to the end, then the append -/
def schedS : List Tid := List.replicate 10 0 ++ List.replicate 4 1 ++ List.replicate 5 0 ++ List.replicate 7 2

example : (exec wS schedS).map (fun w => ((w.thr 2).regs.out.map (·.clock.id), (w.logs 0).clock.id,
    lastId [1] (w.ev 0))) = some (some [9], [9], [9]) := by decide

end Model.C04Conc
