import Props.GenViews
import Proofs.Values
/-!
# Props.GenCapstoneViews — C02 and C03 stated about the TRANSLATED observation function

`ToSnapshot` is how a user (and the correspondence harness) looks at a log.  On every replica that satisfies the
structural invariant and whose ordering is a strict total order on its entries, the translated `ToSnapshot` returns —
without panicking, with the model's fuel — heads that are exactly the hashes of the entries no entry names, and
values that hold every entry exactly once, no entry before one of its predecessors, sorted by the log's ordering.
The statement mentions only generated definitions.
-/
namespace Model.Capstone
open Model Model.Go Model.SlicesGen

theorem translated_snapshot {U : List Entry} {l : Log} (I : Inv U l) (ho : OrderOk l.sortFn l.entries)
    (hE : ∀ e ∈ l.entries, e.hash ≠ []) :
    ∃ hs vs, Generated.Go.toSnapshot (traverseFuel l.entries l.heads) l.entries (before l.sortFn) l.heads = some (hs, vs) ∧
      (∀ h, h ∈ hs ↔ ∃ e ∈ l.entries, e.hash = h ∧ ¬ namedBy l.entries h) ∧ hs.Nodup ∧
      vs.Perm l.entries ∧ vs.Nodup ∧
      vs.Pairwise (fun a b => b.hash ∉ a.next) ∧
      vs.Pairwise (fun a b => before l.sortFn b a = true) := by
  have hH : ∀ e ∈ l.heads, e.hash ≠ [] := fun e he => hE e (I.headsIn e he)
  refine ⟨hashes l.heads, values l, toSnapshot_eq l hE hH, ?_, ?_, values_perm I ho, values_nodup I ho,
    Model.values_causal I ho, Model.values_sorted I ho⟩
  · intro h
    unfold hashes
    rw [List.mem_map]
    constructor
    · rintro ⟨e, he, rfl⟩
      exact ⟨e, I.headsIn e he, rfl, I.headsUnref e he⟩
    · rintro ⟨e, he, rfl, hn⟩
      exact ⟨e, I.headsSpec e he hn, rfl⟩
  · exact I.headsNodup

end Model.Capstone
