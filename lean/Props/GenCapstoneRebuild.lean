import Props.GenLoaders
import Props.GenNewLog
import Proofs.Rebuild
import Proofs.LoadersUnbounded
import Props.C09
/-!
# Props.GenCapstoneRebuild — C09 stated about the TRANSLATED loader glue and `NewLog` core

For a replica that satisfies the structural invariant and any fetch result holding exactly its entries (each once,
in any arrival order — what `Props/C09` proves of every accepted execution of the fetcher from its heads), the
translated glue of `fromJSON` (no length limit) returns the sorted entries, and the translated core of `NewLog`
(clock time, heads, index keys) makes of them a log with the same entries, the same heads, satisfying the invariant
again.  The statement mentions only generated definitions (and the record they fill).
-/
namespace Model.Capstone
open Model Model.Go Model.SlicesGen

theorem fromJSONTail_unbounded (fetched : List Entry) :
    Generated.Go.fromJSONTail none fetched = some (goSort clockAsc fetched) := by
  unfold Generated.Go.fromJSONTail Generated.Go.fromJSONTail_join1
  simp

theorem translated_rebuild_json {U : List Entry} (hU : (hashes U).Nodup) {l : Log} (I : Inv U l)
    (fetched : List Entry) (hnd : (hashes fetched).Nodup) (hin : ∀ e ∈ fetched, e ∈ U)
    (hset : ∀ h, h ∈ hashes fetched ↔ h ∈ hashes l.entries) (cid : Bytes) :
    ∃ (ents : List Entry) (t : Int) (H : List Entry) (N : List Hash),
      Generated.Go.fromJSONTail none fetched = some ents ∧
      Generated.Go.newLogCore none [] ents = (t, H, N) ∧
      (∀ x, x ∈ ents ↔ x ∈ l.entries) ∧ (∀ x, x ∈ H ↔ x ∈ l.heads) ∧
      Inv U { id := l.id, entries := ents, heads := H, nextIdx := N, clock := ⟨cid, t⟩, sortFn := l.sortFn } := by
  have hp := goSort_perm clockAsc fetched
  have hnd' : (hashes (goSort clockAsc fetched)).Nodup := goSort_hashes_nodup _ hnd
  have hin' : ∀ e ∈ goSort clockAsc fetched, e ∈ U := fun e he => hin e (hp.mem_iff.mp he)
  have hset' : ∀ h, h ∈ hashes (goSort clockAsc fetched) ↔ h ∈ hashes l.entries := by
    intro h
    rw [← hset h]
    unfold hashes
    exact (hp.map _).mem_iff
  obtain ⟨hInv, _, hE, hH⟩ := newLog_rebuilds hU I (goSort clockAsc fetched) [] cid l.sortFn hin' hset' (Or.inl rfl)
  have hcore := newLogCore_eq l.id cid l.sortFn (goSort clockAsc fetched) [] hnd'
  have hom : omFromList (goSort clockAsc fetched) = goSort clockAsc fetched := omFromList_id hnd'
  have hL : newLog l.id cid l.sortFn (goSort clockAsc fetched) [] =
      { id := l.id, entries := goSort clockAsc fetched,
        heads := (newLog l.id cid l.sortFn (goSort clockAsc fetched) []).heads,
        nextIdx := (newLog l.id cid l.sortFn (goSort clockAsc fetched) []).nextIdx,
        clock := ⟨cid, (newLog l.id cid l.sortFn (goSort clockAsc fetched) []).clock.time⟩, sortFn := l.sortFn } := by
    unfold newLog
    simp only [hom]
  refine ⟨goSort clockAsc fetched, _, _, _, fromJSONTail_unbounded fetched, hcore, ?_, hH, ?_⟩
  · intro x
    have := hE x
    rw [hL] at this
    exact this
  · rw [← hL]; exact hInv

/-- **C09 for all four loaders on the translated glue**: a replica of a reachable system whose entries are in the
    block store; any accepted unbounded execution of the fetcher from its head hashes (every concurrency level and
    completion order); the translated glue of each loader applied to the result, followed by `NewLog` (whose core is
    translated too, `newLogCore_eq`) ⇒ no panic, and a log with the same id, entries, heads and — under a strict
    total ordering — the same `Values()`. -/
theorem translated_rebuilt_equals_original {U : List Entry} (hU : (hashes U).Nodup) {l : Log} (I : Inv U l)
    (cfg : FCfg) (roots : List Hash) (evs : List FEvent) (s : FState)
    (hroots : ∀ h, h ∈ roots ↔ h ∈ hashes l.heads) (hrnd : roots.Nodup)
    (hlen : cfg.length < 0) (hex : ∀ h, cfg.excluded h = false) (src : C09.SourceInStore cfg l.entries roots)
    (h : accepted cfg roots evs = some s) (hq : quiescent s) (hc : s.cancelled = false)
    (clockId : Bytes) (k k' : SortKind) :
    -- NewFromMultihash
    (∃ vals hs, Generated.Go.fromMultihashTail (beforeAsc k') none roots s.results = some (vals, hs) ∧
      C09.SameLog U l (newLog l.id clockId k (Generated.Go.newFromMultihashHeads vals hs).1
        (Generated.Go.newFromMultihashHeads vals hs).2)) ∧
    -- NewFromEntryHash
    (∃ ents, Generated.Go.fromEntryHashTail (beforeAsc .lww) s.results (Generated.Go.fromEntryHashLength none) = some ents ∧
      C09.SameLog U l (newLog l.id clockId k ents [])) ∧
    -- NewFromJSON
    (∃ ents, Generated.Go.fromJSONTail none s.results = some ents ∧ C09.SameLog U l (newLog l.id clockId k ents [])) ∧
    -- NewFromEntry, handed entries of the log (at least one)
    (∀ source : List Entry, (∀ e ∈ source, e ∈ l.entries) → source ≠ [] →
      ∃ r, Generated.Go.fromEntryTail [] source s.results (Generated.Go.fromEntryLength none source) = some r ∧
        C09.SameLog U l (newLog r.1 clockId k r.2 [])) := by
  obtain ⟨hM, hEH, hJ, hE⟩ := C09.rebuilt_equals_original hU I cfg roots evs s hroots hlen hex src h hq hc clockId k k'
  obtain ⟨_, hnd⟩ := C09.fetch_eq_source cfg l.entries roots evs s hlen hex src h hq hc
  refine ⟨?_, ?_, ?_, ?_⟩
  · obtain ⟨vals, hs, ht, hn⟩ := fromMultihash_eq clockId k k' l.id roots s.results none hnd hrnd
    refine ⟨vals, hs, ht, ?_⟩
    rw [hn]; exact hM
  · have := fromEntryHash_eq clockId k l.id s.results none
    cases ht : Generated.Go.fromEntryHashTail (beforeAsc .lww) s.results (Generated.Go.fromEntryHashLength none) with
    | none => rw [ht] at this; cases this
    | some ents =>
      rw [ht] at this
      refine ⟨ents, rfl, ?_⟩
      have e : newLog l.id clockId k ents [] = loadEntryHash clockId k l.id s.results (-1) := Option.some.inj this
      rw [e]; exact hEH
  · have := fromJSON_eq clockId k l.id s.results none
    cases ht : Generated.Go.fromJSONTail none s.results with
    | none => rw [ht] at this; cases this
    | some ents =>
      rw [ht] at this
      refine ⟨ents, rfl, ?_⟩
      have e : newLog l.id clockId k ents [] = loadJSON clockId k l.id s.results (-1) := Option.some.inj this
      rw [e]; exact hJ
  · intro source hsrc hne
    obtain ⟨L, hL, hS⟩ := hE source hsrc hne
    have := fromEntry_eq clockId k source s.results none
    cases ht : Generated.Go.fromEntryTail [] source s.results (Generated.Go.fromEntryLength none source) with
    | none => rw [ht] at this; simp only [Option.map_none, Option.getD_none] at this; rw [hL] at this; cases this
    | some r =>
      rw [ht] at this
      simp only [Option.map_some, Option.getD_none] at this
      rw [hL] at this
      refine ⟨r, rfl, ?_⟩
      rw [Option.some.inj this]; exact hS

end Model.Capstone
