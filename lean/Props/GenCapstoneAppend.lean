import Props.GenAppend
import Proofs.Append
import Proofs.TraverseG
/-!
# Props.GenCapstoneAppend — C04 statements about the TRANSLATED plan of `Append`

On a replica that satisfies the structural invariant, under an ordering that is a strict total order on its
entries, the translated region of `Append` (with the model's fuel) returns — no error — predecessors that are exactly
the hashes of the heads, each once, the writer's clock id, and a clock time above that of every entry of the log.
-/
namespace Model.Capstone
open Model Model.Go Model.SlicesGen

/-- the model's fuel suffices for the bounded traversal of the plan -/
theorem plan_fuel_ok {U : List Entry} {l : Log} (I : Inv U l) (ho : OrderOk l.sortFn l.entries) (pcOpt : Int) :
    (traverseG l.entries (before l.sortFn) (sortedHeads l)
      (max (if pcOpt ≠ 0 then pcOpt else 1) (sortedHeads l).length) none).length + 1 ≤
      traverseFuel l.entries (sortedHeads l) := by
  have C := ctxG_of_inv I ho
  have hin : ∀ r ∈ sortedHeads l, r ∈ l.entries := fun r hr => I.headsIn r ((mem_sortedHeads I.headsNodup).mp hr)
  obtain ⟨_, hnd, hmem⟩ := traverse_general C hin
  obtain ⟨t, ht⟩ := traverseG_prefix l.entries (before l.sortFn) (sortedHeads l)
    (max (if pcOpt ≠ 0 then pcOpt else 1) (sortedHeads l).length) none
  have hsub : ∀ x ∈ traverseG l.entries (before l.sortFn) (sortedHeads l) (-1) none, x ∈ l.entries := by
    intro x hx
    obtain ⟨r, hr, hd⟩ := (hmem x).mp hx
    exact hd.mem_right
  have h1 := List.Nodup.length_le_of_subset hnd hsub
  have h2 : (traverseG l.entries (before l.sortFn) (sortedHeads l)
      (max (if pcOpt ≠ 0 then pcOpt else 1) (sortedHeads l).length) none).length ≤
      (traverseG l.entries (before l.sortFn) (sortedHeads l) (-1) none).length := by
    rw [ht, List.length_append]; omega
  unfold traverseFuel
  omega

theorem translated_append_plan {U : List Entry} {l : Log} (I : Inv U l) (ho : OrderOk l.sortFn l.entries)
    (hE : ∀ e ∈ l.entries, e.hash ≠ []) (pcOpt : Int) :
    ∃ (next refs : List Hash) (t : Int),
      Generated.Go.appendPlan (traverseFuel l.entries (sortedHeads l)) l.entries (before l.sortFn) l.heads
        l.clock.id l.clock.time pcOpt = some (next, refs, l.clock.id, t) ∧
      next.Nodup ∧ (∀ n, n ∈ next ↔ n ∈ hashes l.heads) ∧ (∀ x ∈ l.entries, x.clock.time < t) := by
  have hH : ∀ e ∈ l.heads, e.hash ≠ [] := fun e he => hE e (I.headsIn e he)
  have hlen := plan_fuel_ok I ho pcOpt
  refine ⟨planNextRaw l, planRefsRaw l pcOpt, max l.clock.time (maxTime (sortedHeads l) 0) + 1,
    appendPlan_eq l pcOpt hE hH hlen, ?_, ?_, ?_⟩
  · unfold planNextRaw
    have h := sortedHeads_nodup I.headsNodup
    exact (List.reverse_perm _).nodup_iff.mpr (by simpa [hashes] using h)
  · intro n
    unfold planNextRaw hashes
    simp only [List.mem_reverse, List.mem_map]
    constructor
    · rintro ⟨x, hx, rfl⟩; exact ⟨x, (mem_sortedHeads I.headsNodup).mp hx, rfl⟩
    · rintro ⟨x, hx, rfl⟩; exact ⟨x, (mem_sortedHeads I.headsNodup).mpr hx, rfl⟩
  · intro x hx
    have := appendPlan_time_gt I pcOpt x hx
    rw [appendPlan_clock] at this
    exact this

/-- the entry `CreateEntryWithIO` makes of the plan (with the CID `h` of its block): the log's id, the two lists
    de-duplicated by `Entry.Copy` — the translated `uniqueCIDs` — and the planned clock -/
def createdEntry (l : Log) (h : Hash) (tag : Nat) (next refs : List Hash) (t : Int) : Entry :=
  { hash := h, logId := l.id, next := Generated.Go.uniqueCIDs next, refs := Generated.Go.uniqueCIDs refs, clock := ⟨l.clock.id, t⟩, tag := tag }

/-- **the whole of `Append` on the translated code** (C04, C02, C05): on a replica that satisfies the structural
    invariant, for every pointer count and a fresh CID `h`: the translated plan returns predecessors, references and
    clock; for the entry made of them the translated tail of `Append` returns the new entries, index and heads; the
    entry is the single head, every old entry is still there, and the resulting state satisfies the invariant. -/
theorem translated_append {U : List Entry} {l : Log} (I : Inv U l) (ho : OrderOk l.sortFn l.entries)
    (hE : ∀ e ∈ l.entries, e.hash ≠ []) (pcOpt : Int) (h : Hash) (tag : Nat) (hfresh : h ∉ hashes U) :
    ∃ (next refs : List Hash) (t : Int) (E' : List Entry) (N' : List Hash) (H' : List Entry),
      Generated.Go.appendPlan (traverseFuel l.entries (sortedHeads l)) l.entries (before l.sortFn) l.heads
        l.clock.id l.clock.time pcOpt = some (next, refs, l.clock.id, t) ∧
      Generated.Go.appendTail l.entries l.nextIdx l.heads (createdEntry l h tag next refs t) next = some (E', N', H') ∧
      H' = [createdEntry l h tag next refs t] ∧
      (∀ x ∈ l.entries, x ∈ E') ∧
      Inv (U ++ [createdEntry l h tag next refs t])
        { l with entries := E', nextIdx := N', heads := H', clock := ⟨l.clock.id, t⟩ } := by
  have hH : ∀ e ∈ l.heads, e.hash ≠ [] := fun e he => hE e (I.headsIn e he)
  have hplan := appendPlan_eq l pcOpt hE hH (plan_fuel_ok I ho pcOpt)
  have he : createdEntry l h tag (planNextRaw l) (planRefsRaw l pcOpt) (max l.clock.time (maxTime (sortedHeads l) 0) + 1) =
      (append l pcOpt h tag).1 := by
    unfold createdEntry
    simp only [uniqueCIDs_eq]
    rfl
  have hnext : (createdEntry l h tag (planNextRaw l) (planRefsRaw l pcOpt)
      (max l.clock.time (maxTime (sortedHeads l) 0) + 1)).next = dedupHashes (planNextRaw l) [] := by
    unfold createdEntry
    simp only [uniqueCIDs_eq]
  refine ⟨planNextRaw l, planRefsRaw l pcOpt, _, _, _, _, hplan, appendTail_eq l _ (planNextRaw l) hnext, rfl, ?_, ?_⟩
  · intro x hx
    show x ∈ omSet l.entries _
    unfold omSet
    split
    · exact hx
    · exact List.mem_append_left _ hx
  · rw [he]
    exact inv_append I pcOpt h tag hfresh

end Model.Capstone
