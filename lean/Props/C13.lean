import Proofs.ConcLog
/-!
# C13 — a log shared between goroutines behaves atomically

World: any number of logs, each behind a Go `sync.RWMutex` (`Model.Conc.RW`), any number of threads
running straight-line programs; an execution is ANY list of thread ids (`run`; a thread that cannot
move is skipped), so every statement below is about every interleaving.

`Init w0` = all locks free and every program well bracketed (`wb`): accesses to a log only under
its lock (writes under the write lock), no lock acquired while one is held, everything released at
the end.  That the code has this shape is `Props/C13Facts.lean` (facts regenerated from the Go AST)
and `api_programs_wb` below for the transcribed programs.

What is NOT modelled: the Go memory model itself, races inside dependencies, the internal lock of
`entry.OrderedMap`; the data steps inside a bracket are the functions of the sequential model.
-/
namespace Model.C13
open Model Model.Conc

/-- ANY programs: the holder of the write lock excludes every reader (at most one writer holds the
    lock by construction: `writer : Option Tid`). -/
theorem rw_exclusion (w0 : World) (hfree : ∀ l, w0.locks l = {}) (s : List Tid) (l : Lid) :
    ((run w0 s).locks l).writer ≠ none → ((run w0 s).locks l).readers = [] :=
  (run_inv (P := Excl) (fun _ _ _ hE h => step_excl hE h) s w0 (init_excl hfree)) l

/-- the same, seen from a reader -/
theorem rw_exclusion_reader (w0 : World) (hfree : ∀ l, w0.locks l = {}) (s : List Tid) (l : Lid) (t : Tid) :
    t ∈ ((run w0 s).locks l).readers → ((run w0 s).locks l).writer = none := by
  intro hm
  cases hw : ((run w0 s).locks l).writer with
  | none => rfl
  | some u =>
    have := rw_exclusion w0 hfree s l (by rw [hw]; simp)
    rw [this] at hm; cases hm

/-- the ghost `held` is what the lock table says -/
theorem held_iff_lock (w0 : World) (hI : Init w0) (s : List Tid) (t : Tid) (l : Lid) :
    (((run w0 s).thr t).held = some (l, true) ↔ ((run w0 s).locks l).writer = some t) ∧
    (((run w0 s).thr t).held = some (l, false) ↔ t ∈ ((run w0 s).locks l).readers) :=
  let hG := run_good hI s
  ⟨⟨hG.coh.heldW l t, hG.coh.wHeld l t⟩, ⟨hG.coh.heldR l t, hG.coh.rHeld l t⟩⟩

/-- DISCIPLINE ⇒ RACE FREE: in no reachable state are two threads both about to access the same
    log when one of the two accesses is a write -/
theorem discipline_race_free (w0 : World) (hI : Init w0) (s : List Tid) {t u : Tid} (htu : t ≠ u)
    {l : Lid} {b : Bool} (ht : nextAccess (run w0 s) t = some (l, true))
    (hu : nextAccess (run w0 s) u = some (l, b)) : False :=
  let hG := run_good hI s
  no_conflict hG.coh hG.excl htu ht hu

/-- every access happens under the lock: a thread about to access a log holds its lock, and the
    write lock if the access is a write -/
theorem access_under_lock (w0 : World) (hI : Init w0) (s : List Tid) {t : Tid} {l : Lid} {b : Bool}
    (ha : nextAccess (run w0 s) t = some (l, b)) :
    (b = true → ((run w0 s).locks l).writer = some t) ∧
    (((run w0 s).locks l).writer = some t ∨ t ∈ ((run w0 s).locks l).readers) := by
  have hG := run_good hI s
  obtain ⟨b', hb', himp⟩ := access_held hG.coh ha
  constructor
  · intro hb; have := himp hb; subst this; exact hG.coh.heldW l t hb'
  · cases b' with
    | true => exact Or.inl (hG.coh.heldW l t hb')
    | false => exact Or.inr (hG.coh.heldR l t hb')

/-- A BRACKET IS ATOMIC: while a thread holds the lock of a log (for reading or writing), no step of
    any other thread changes that log — this is what licenses modelling a critical section by one
    step of the sequential model -/
theorem bracket_atomic (w0 : World) (hI : Init w0) (s : List Tid) {t u : Tid} {l : Lid} {b : Bool}
    (hh : ((run w0 s).thr t).held = some (l, b)) (htu : u ≠ t) {w' : World}
    (h : step (run w0 s) u = some w') : w'.logs l = (run w0 s).logs l := by
  have hG := run_good hI s
  cases b with
  | true => exact writer_owns hG.coh hh htu h
  | false => exact reader_stable hG.coh hG.excl hh h

/-- NO LOCK WHILE HOLDING ⇒ DEADLOCK FREE: in every reachable state in which some thread has not
    finished, some thread can move -/
theorem deadlock_free (w0 : World) (hI : Init w0) (s : List Tid)
    (hu : ∃ t, finished (run w0 s) t = false) : ∃ t w', step (run w0 s) t = some w' := by
  obtain ⟨t, ht⟩ := hu
  exact progress (run_good hI s).coh ⟨t, by simpa [finished] using ht⟩

/-- and executions are finite: in an execution in which every scheduled thread moves, a thread moves
    at most twice per instruction of its program (a `Lock()` may first announce itself) -/
theorem bounded_moves (w0 w' : World) (s : List Tid) (h : exec w0 s = some w') (t : Tid) :
    s.count t ≤ 2 * (w0.thr t).rest.length := by
  have := exec_count t s w0 w' h
  have := budget_le w0 t
  omega

/-- the programs transcribed from the API -/
inductive ApiProg : List Instr → Prop where
  | append (l : Lid) (pc : Int) (h : Hash) (tag : Nat) : ApiProg (appendProg l pc h tag)
  | join (dst src : Lid) (srcId : Bytes) (size : Int) : ApiProg (joinProg dst src srcId size)
  | joinNoop : ApiProg joinNoopProg
  | joinRefused (dst src : Lid) : ApiProg (joinRefusedProg dst src)
  | setIdentity (l : Lid) (cid : Bytes) : ApiProg (setIdentityProg l cid)
  | reader (l : Lid) : ApiProg (readerProg l)
  | heads (l : Lid) : ApiProg (headsProg l)
  | iterator (l : Lid) : ApiProg (iteratorProg l)
  | toMultihash (l : Lid) : ApiProg (toMultihashProg l)

/-- every API program keeps the discipline -/
theorem api_programs_wb {p : List Instr} (h : ApiProg p) : wb none p = true := by
  cases h <;>
    simp [appendProg, joinProg, joinNoopProg, joinRefusedProg, setIdentityProg, readerProg, headsProg, iteratorProg,
      toMultihashProg, wb, heldAfter]

/-- a world of API calls on free locks is an initial world -/
theorem api_world_init (logs : Lid → Log) (progs : Tid → List Instr) (h : ∀ t, ApiProg (progs t) ∨ progs t = []) :
    Init (mkWorld logs progs) where
  locks := fun _ => rfl
  held := fun _ => rfl
  wbP := fun t => by
    rcases h t with h | h
    · exact api_programs_wb h
    · simp [mkWorld, h, wb]
  ev := fun _ => rfl

/-- SERIAL: the state of every log is the fold of the sequential model's steps that were executed on
    it, in the order of the lock sessions (`scan`: the event list of the log is a sequence of
    sessions `acq t, wr t …, rel t`, the open one belonging to the current writer) -/
theorem serial (w0 : World) (hI : Init w0) (s : List Tid) (l : Lid) :
    (run w0 s).logs l = replay (w0.logs l) ((run w0 s).ev l) ∧
    scan ((run w0 s).ev l) = some ((run w0 s).locks l).writer :=
  let hG := run_good hI s
  ⟨hG.rep l, hG.sess l⟩

/-- hence every invariant `P` of the sequential steps holds in every reachable state -/
theorem serial_inv (P : Log → Prop) (w0 : World) (h0 : ∀ l, P (w0.logs l)) (hW : WritesOK P w0)
    (s : List Tid) (l : Lid) : P ((run w0 s).logs l) :=
  (run_inv (P := fun w => WritesOK P w ∧ ∀ l, P (w.logs l))
    (fun _ _ _ hp h => ⟨step_writesOK hp.1 h, step_pinv hp.1 hp.2 h⟩) s w0 ⟨hW, h0⟩).2 l

/-- and in every state the log has ever had -/
theorem serial_inv_past (P : Log → Prop) (w0 : World) (hI : Init w0) (h0 : ∀ l, P (w0.logs l))
    (hW : WritesOK P w0) (s : List Tid) (l : Lid) (k : Nat) :
    P (replay (w0.logs l) (((run w0 s).ev l).drop k)) := by
  have hG := run_good hI s
  apply replay_inv (h0 l)
  intro t op r hm log hp
  exact hW t l op (hG.fromProg.evs l t op r (List.mem_of_mem_drop hm)) r log hp

/-- every read observes such a state: what a read accessor records is the state of the log at that
    moment, and that state satisfies `P` -/
theorem reads_see_inv (P : Log → Prop) (w0 : World) (h0 : ∀ l, P (w0.logs l)) (hW : WritesOK P w0)
    (s : List Tid) (t : Tid) (l : Lid) (rest : List Instr) (w' : World)
    (hr : ((run w0 s).thr t).rest = .observe l :: rest) (h : step (run w0 s) t = some w') :
    (w'.thr t).regs.obs = ((run w0 s).thr t).regs.obs ++ [seenOf ((run w0 s).logs l)] ∧
    P ((run w0 s).logs l) := by
  refine ⟨?_, serial_inv P w0 h0 hW s l⟩
  have hs := step_sound h
  cases hs with
  | observe l' rest' hr' =>
    rw [hr] at hr'; injection hr' with h1 h2; injection h1 with h1; subst h1; simp
  | _ => simp_all

/-- APPEND CHAIN.  `t1`'s append session on log `l` came before `t2`'s (lock order), the operations in
    between and afterwards never remove entries (appends, unbounded merges, identity changes), the
    hashes are fresh, and the state `t2` saw has the structural guarantee `Covered` (every entry in
    the past of a head — C02).  Then `t2`'s entry names exactly the heads it saw, it became the only
    head, and `t1`'s entry is in its causal past in the log as it is now. -/
theorem append_chain (w0 : World) (hI : Init w0) (s : List Tid) (l : Lid)
    (t1 t2 : Tid) (pc1 pc2 : Int) (h1 h2 : Hash) (tag1 tag2 : Nat) (r1 r2 : Regs) (newer mid older : List Ev)
    (hev : (run w0 s).ev l =
      newer ++ .wr t2 (.append pc2 h2 tag2) r2 :: (mid ++ .wr t1 (.append pc1 h1 tag1) r1 :: older))
    (hnewer : ∀ t op r, Ev.wr t op r ∈ newer → op.unbounded)
    (hmid : ∀ t op r, Ev.wr t op r ∈ mid → op.unbounded)
    (hcov : Covered (replay (w0.logs l) (mid ++ .wr t1 (.append pc1 h1 tag1) r1 :: older)))
    (hf1 : h1 ∉ hashes (replay (w0.logs l) older).entries)
    (hf2 : h2 ∉ hashes (replay (w0.logs l) (mid ++ .wr t1 (.append pc1 h1 tag1) r1 :: older)).entries) :
    let seen := replay (w0.logs l) (mid ++ .wr t1 (.append pc1 h1 tag1) r1 :: older)
    let e2 := (append seen pc2 h2 tag2).1
    (∀ x, x ∈ e2.next ↔ x ∈ hashes seen.heads) ∧
    (replay (w0.logs l) (.wr t2 (.append pc2 h2 tag2) r2 :: (mid ++ .wr t1 (.append pc1 h1 tag1) r1 :: older))).heads = [e2] ∧
    Anc ((run w0 s).logs l).entries h1 h2 := by
  intro seen e2
  have hG := run_good hI s
  refine ⟨?_, ?_, ?_⟩
  · intro x; rw [(append_fst seen pc2 h2 tag2).2]; exact appendPlan_next_iff seen pc2 x
  · simp only [replay, applyW]; exact (append_snd seen pc2 h2 tag2).2
  · -- t1's entry is in the state t2 saw
    let e1 := (append (replay (w0.logs l) older) pc1 h1 tag1).1
    have he1h : e1.hash = h1 := (append_fst _ pc1 h1 tag1).1
    have he1 : e1 ∈ (replay (w0.logs l) (.wr t1 (.append pc1 h1 tag1) r1 :: older)).entries := by
      simp only [replay, applyW]
      rw [(append_snd _ pc1 h1 tag1).1]
      exact mem_omSet.mpr (Or.inr ⟨rfl, by rw [he1h]; exact hf1⟩)
    have he1s : e1 ∈ seen.entries := replay_grows _ _ mid hmid e1 he1
    have hanc := (append_covered pc2 tag2 hcov hf2).2 e1 he1s
    rw [he1h] at hanc
    -- and the state after t2's append is contained in the present state
    have hsub : ∀ x ∈ (append seen pc2 h2 tag2).2.entries, x ∈ ((run w0 s).logs l).entries := by
      intro x hx
      rw [hG.rep l, hev]
      exact replay_grows _ _ newer hnewer x (by simpa [replay, applyW] using hx)
    exact hanc.mono hsub

/-- two appends directly after one another: the second names exactly the first -/
theorem append_after_append (init : Log) (older : List Ev) (t1 : Tid) (pc1 pc2 : Int) (h1 h2 : Hash)
    (tag1 tag2 : Nat) (r1 : Regs) :
    (append (replay init (.wr t1 (.append pc1 h1 tag1) r1 :: older)) pc2 h2 tag2).1.next = [h1] := by
  simp [replay, applyW, append, appendApply, appendPlan, sortedHeads, omFromList, omSet, goSort, isortRev,
    insRev, dedupHashes]

/-- EXACTLY ONCE: an entry that was appended is in the log exactly once, as long as nothing removes
    entries afterwards -/
theorem append_once (w0 : World) (hI : Init w0) (s : List Tid) (l : Lid)
    (hn : NodupH (w0.logs l).entries)
    (t : Tid) (pc : Int) (h : Hash) (tag : Nat) (r : Regs) (newer older : List Ev)
    (hev : (run w0 s).ev l = newer ++ .wr t (.append pc h tag) r :: older)
    (hnewer : ∀ t op r, Ev.wr t op r ∈ newer → op.unbounded) :
    (hashes ((run w0 s).logs l).entries).count h = 1 := by
  have hG := run_good hI s
  have hnd : NodupH ((run w0 s).logs l).entries := by
    rw [hG.rep l]
    exact replay_inv (P := fun lg => NodupH lg.entries) hn _ (fun _ op r _ log hp => applyW_nodupH op r hp)
  have hin : h ∈ hashes (replay (w0.logs l) (.wr t (.append pc h tag) r :: older)).entries := by
    simp only [replay, applyW]
    rw [(append_snd _ pc h tag).1, hashes_omSet, (append_fst _ pc h tag).1]
    split
    · rename_i hh; exact has_iff.mp hh
    · simp
  obtain ⟨y, hy, hyh⟩ := List.mem_map.mp hin
  have hy' : y ∈ ((run w0 s).logs l).entries := by
    rw [hG.rep l, hev]; exact replay_grows _ _ newer hnewer y hy
  have hm : h ∈ hashes ((run w0 s).logs l).entries := List.mem_map.mpr ⟨y, hy', hyh⟩
  rw [List.Nodup.count hnd, if_pos hm]


/-! ## Non-vacuity: a concrete world meets the hypotheses, and the conclusions are not trivial -/

/-- an empty log -/
def log0 : Log :=
  { id := [7], entries := [], heads := [], nextIdx := [], clock := { id := [1], time := 0 }, sortFn := .lww }

/-- two appends and a reader on one log -/
def w2 : World := mkWorld (fun _ => log0) (progsOfList [appendProg 0 1 [1], appendProg 0 1 [2], readerProg 0])

theorem w2_init : Init w2 :=
  api_world_init _ _ (fun t => by
    match t with
    | 0 => exact Or.inl (.append 0 1 [1] 0)
    | 1 => exact Or.inl (.append 0 1 [2] 0)
    | 2 => exact Or.inl (.reader 0)
    | _ + 3 => exact Or.inr rfl)

/-- thread 0 appends, the reader reads, thread 1 appends -/
def sched2 : List Tid := [0, 0, 0, 0, 0, 0, 0, 2, 2, 2, 2, 1, 1, 1, 1, 1, 1, 1]

example : (run w2 sched2).ev 0 =
    [.rel 1, .wr 1 (.append 1 [2] 0) {}, .acq 1, .rel 0, .wr 0 (.append 1 [1] 0) {}, .acq 0] := by decide

theorem covered_log0 : Covered log0 := ⟨fun _ h => (nomatch h), fun _ h => (nomatch h)⟩

/-- `append_chain` applies to this run: the first appended entry is in the causal past of the second -/
example : Anc ((run w2 sched2).logs 0).entries [1] [2] :=
  (append_chain w2 w2_init sched2 0 0 1 1 1 [1] [2] 0 0 {} {} [.rel 1] [.acq 1, .rel 0] [.acq 0]
    (by decide) (fun _ _ _ h => by simp at h) (fun _ _ _ h => by simp at h)
    (by have := (append_covered (l := log0) 1 (h := [1]) 0 covered_log0 (by decide)).1
        simpa [replay, applyW, w2, mkWorld] using this)
    (by decide) (by decide)).2.2

example : (hashes ((run w2 sched2).logs 0).entries).count [1] = 1 :=
  append_once w2 w2_init sched2 0 (by simp [w2, mkWorld, log0, NodupH, hashes]) 0 1 [1] 0 {}
    [.rel 1, .wr 1 (.append 1 [2] 0) {}, .acq 1, .rel 0] [.acq 0] (by decide)
    (fun _ op _ h => by simp at h; rcases h with h; cases h.2.1; trivial)

/-- in the middle of the run thread 0 is inside its bracket and about to write -/
example : nextAccess (run w2 [0, 0, 0, 0, 0]) 0 = some (0, true) := by decide

/-- the reader saw the state after the first append -/
example : (((run w2 sched2).thr 2).regs.obs.map (fun o => hashes o.entries)) = [[[1]]] := by decide

/-- every schedule ends: this one has finished all three threads -/
example : ∀ t, t < 3 → finished (run w2 sched2) t = true := by decide

/-! ## The code before the repair: `toMultihash` read `log.heads` without the lock -/

def wOldMultihash : World := mkWorld (fun _ => log0) (progsOfList [toMultihashProgOld 0, appendProg 0 1 [1]])

/-- the old program breaks the discipline … -/
example : wb none (toMultihashProgOld 0) = false := by decide

/-- … and a state is reachable in which the unlocked read and `Append`'s write are both enabled -/
example : ∃ s, nextAccess (run wOldMultihash s) 1 = some (0, true) ∧
    nextAccess (run wOldMultihash s) 0 = some (0, false) :=
  ⟨[1, 1, 1, 1, 1], by decide⟩

end Model.C13
