import Proofs.FetchLimited
import Proofs.LoadersUnbounded
import Proofs.Load
/-!
# C09 — a log rebuilt from its published heads equals the original (fetcher part)

`fetch_unbounded_complete`: for every accepted event list of the fetcher (every concurrency level,
heap order and block arrival order) with `length = -1` that ends quiescent and was not timed out, the
result is duplicate-free and is, as a set (indeed as a permutation), `reach store roots` — the
deterministic closure the loaders of `Model.Loaders` (and the `core` stream) are specified with.

`closure_eq_source` / `fetch_eq_source`: when the store contains a log state `E` (unique blocks per
hash), `E` is closed under `next` and `refs`, and every entry lies below one of the requested heads,
that closure is exactly `E`.  The hypotheses are the log invariant of C17/C02 (`SourceInStore`).

`load_eq_source`: fed with the result of *any* such execution, each of the four loaders of
`Model.Loaders` (no length limit) builds a log with the given id (the last entry's log id for
`NewFromEntry`) whose entry map holds exactly the hashes of `E`.

`rebuilt_equals_original` (end of file): for a replica `l` with the log invariant `Inv U l` (every
replica of every reachable system state, `Proofs.System.reachable_inv`), each loader on the result of
any such execution from `l`'s head hashes yields a log `L` with `SameLog U l L`: the invariant again,
the same id, the same entries, the same heads, and `values L = values l` whenever the ordering is a
strict total order on the entries (`OrderOk`; without it `Values()` is not a function of the entry set
at all — the C05 tie finding).
-/
namespace Model.C09

theorem fetch_unbounded_complete (cfg : FCfg) (roots : List Hash) (evs : List FEvent) (s : FState)
    (hlen : cfg.length < 0) (hex : ∀ h, cfg.excluded h = false) (hundef : get? cfg.store [] = none)
    (h : accepted cfg roots evs = some s) (hq : quiescent s) (hc : s.cancelled = false) :
    (∀ e, e ∈ s.results ↔ e ∈ reach cfg.store roots) ∧ (s.results.map (·.hash)).Nodup ∧
      s.results.Perm (reach cfg.store roots) := by
  have hmem : ∀ e, e ∈ s.results ↔ e ∈ reach cfg.store roots := by
    intro e
    rw [unbounded_complete hlen h hq hc e, mem_reach_iff cfg roots hex hundef]
  have w := WF_accepted h
  refine ⟨hmem, w.resND, ?_⟩
  exact (List.perm_ext_iff_of_nodup (nodup_of_map_nodup _ w.resND)
    (nodup_of_map_nodup _ (reach_nodup cfg.store roots))).mpr hmem

/-- a log state `E` with head hashes `roots`, as the block store sees it -/
structure SourceInStore (cfg : FCfg) (E : List Entry) (roots : List Hash) : Prop where
  /-- the store returns exactly the log's entry for each of its hashes -/
  stored : ∀ e ∈ E, get? cfg.store e.hash = some e
  defined : ∀ e ∈ E, e.hash ≠ []
  rootsIn : ∀ h ∈ roots, ∃ e ∈ E, e.hash = h
  /-- causally closed, references included -/
  closed : ∀ e ∈ E, ∀ c ∈ e.next ++ e.refs, ∃ e' ∈ E, e'.hash = c
  /-- every entry lies below a head -/
  below : ∀ e ∈ E, Anc cfg roots e.hash

theorem closure_eq_source (cfg : FCfg) (E : List Entry) (roots : List Hash)
    (hex : ∀ h, cfg.excluded h = false) (src : SourceInStore cfg E roots) (e : Entry) :
    (∃ h, Reach cfg roots h ∧ get? cfg.store h = some e) ↔ e ∈ E := by
  have uniq : ∀ h e e', get? cfg.store h = some e → e' ∈ E → e'.hash = h → e = e' := by
    intro h e e' hg he' hh
    have := src.stored e' he'
    rw [hh, hg] at this
    exact Option.some.inj this
  constructor
  · rintro ⟨h, r, hg⟩
    have hin : ∃ e' ∈ E, e'.hash = h := by
      clear hg
      induction r with
      | root a _ _ _ => exact src.rootsIn _ a
      | link _ hg' hc _ _ _ ih =>
        obtain ⟨ep, hep, hph⟩ := ih
        have := uniq _ _ _ hg' hep hph
        subst this
        exact src.closed _ hep _ hc
    obtain ⟨e', he', hh⟩ := hin
    rw [uniq h e e' hg he' hh]; exact he'
  · intro he
    have key : ∀ h, Anc cfg roots h → (∃ e' ∈ E, e'.hash = h) ∧ Reach cfg roots h := by
      intro h a
      induction a with
      | root hm =>
        obtain ⟨e', he', hh⟩ := src.rootsIn _ hm
        refine ⟨⟨e', he', hh⟩, Reach.root hm (hh ▸ src.defined e' he') (hex _) ?_⟩
        rw [← hh, src.stored e' he']; rfl
      | next _ hg hc ih =>
        obtain ⟨⟨ep, hep, hph⟩, rp⟩ := ih
        have := uniq _ _ _ hg hep hph
        subst this
        obtain ⟨e', he', hh⟩ := src.closed _ hep _ (List.mem_append_left _ hc)
        refine ⟨⟨e', he', hh⟩, Reach.link rp hg (List.mem_append_left _ hc) (hh ▸ src.defined e' he') (hex _) ?_⟩
        rw [← hh, src.stored e' he']; rfl
    exact ⟨e.hash, (key _ (src.below e he)).2, src.stored e he⟩

/-- the unbounded fetch from the heads of a stored log state returns exactly its entries -/
theorem fetch_eq_source (cfg : FCfg) (E : List Entry) (roots : List Hash) (evs : List FEvent) (s : FState)
    (hlen : cfg.length < 0) (hex : ∀ h, cfg.excluded h = false) (src : SourceInStore cfg E roots)
    (h : accepted cfg roots evs = some s) (hq : quiescent s) (hc : s.cancelled = false) :
    (∀ e, e ∈ s.results ↔ e ∈ E) ∧ (s.results.map (·.hash)).Nodup := by
  refine ⟨fun e => ?_, (WF_accepted h).resND⟩
  rw [unbounded_complete hlen h hq hc e, closure_eq_source cfg E roots hex src]

/-- all four loaders, without a limit, on the result of any accepted execution: same id, same entry set -/
theorem load_eq_source (cfg : FCfg) (E : List Entry) (roots : List Hash) (evs : List FEvent) (s : FState)
    (hlen : cfg.length < 0) (hex : ∀ h, cfg.excluded h = false) (src : SourceInStore cfg E roots)
    (h : accepted cfg roots evs = some s) (hq : quiescent s) (hc : s.cancelled = false)
    (clockId id : Bytes) (k k' : SortKind)
    -- the entries handed to `NewFromEntry`: members of the log, at least one
    (source : List Entry) (hsrc : ∀ e ∈ source, e ∈ E) (hne : source ≠ []) :
    ((∀ x, x ∈ hashes (loadManifest clockId k k' id roots s.results (-1)).entries ↔ x ∈ hashes E) ∧
      (loadManifest clockId k k' id roots s.results (-1)).id = id) ∧
    ((∀ x, x ∈ hashes (loadEntryHash clockId k id s.results (-1)).entries ↔ x ∈ hashes E) ∧
      (loadEntryHash clockId k id s.results (-1)).id = id) ∧
    ((∀ x, x ∈ hashes (loadJSON clockId k id s.results (-1)).entries ↔ x ∈ hashes E) ∧
      (loadJSON clockId k id s.results (-1)).id = id) ∧
    (∃ l, loadEntries clockId k source s.results (-1) = some l ∧
      (∀ x, x ∈ hashes l.entries ↔ x ∈ hashes E) ∧ ∃ last ∈ l.entries, l.id = last.logId) := by
  obtain ⟨hmem, hnd⟩ := fetch_eq_source cfg E roots evs s hlen hex src h hq hc
  have hh : ∀ x, x ∈ hashes s.results ↔ x ∈ hashes E := by
    intro x
    unfold hashes
    simp only [List.mem_map]
    exact ⟨fun ⟨e, he, hx⟩ => ⟨e, (hmem e).mp he, hx⟩, fun ⟨e, he, hx⟩ => ⟨e, (hmem e).mpr he, hx⟩⟩
  have hnd' : (hashes s.results).Nodup := hnd
  refine ⟨?_, ?_, ?_, ?_⟩
  · obtain ⟨h1, h2⟩ := loadManifest_unbounded clockId k k' id roots hnd'
    exact ⟨fun x => by rw [h1]; exact hh x, h2⟩
  · obtain ⟨h1, h2⟩ := loadEntryHash_unbounded clockId k id hnd'
    exact ⟨fun x => by rw [h1]; exact hh x, h2⟩
  · obtain ⟨h1, h2⟩ := loadJSON_unbounded clockId k id hnd'
    exact ⟨fun x => by rw [h1, mem_hashes_goSort]; exact hh x, h2⟩
  · obtain ⟨l, h1, _, h3, h4⟩ := loadEntries_unbounded clockId k source s.results hne
    refine ⟨l, h1, fun x => ?_, h4⟩
    rw [h3 x, hh x]
    constructor
    · rintro (h5 | h5)
      · obtain ⟨e, he, hx⟩ := List.mem_map.mp h5
        exact List.mem_map.mpr ⟨e, hsrc e he, hx⟩
      · exact h5
    · exact Or.inr

/-! ## non-vacuity: a forked, merged log with a skip reference; two different schedules -/

def e1 : Entry := { hash := [1], logId := [7], next := [], refs := [], clock := { id := [4], time := 1 } }
def e2 : Entry := { hash := [2], logId := [7], next := [[1]], refs := [], clock := { id := [4], time := 2 } }
def e3 : Entry := { hash := [3], logId := [7], next := [[2]], refs := [[1]], clock := { id := [4], time := 3 } }
def e4 : Entry := { hash := [4], logId := [7], next := [[2]], refs := [], clock := { id := [5], time := 3 } }
def e5 : Entry := { hash := [5], logId := [7], next := [[3], [4]], refs := [[2]], clock := { id := [4], time := 4 } }

def cfgU : FCfg := { store := [e1, e2, e3, e4, e5], length := -1, excluded := fun _ => false }

/-- one request at a time -/
def runSeq : List FEvent :=
  [.dispatch [5], .complete [5] (some e5), .dispatch [2], .complete [2] (some e2), .dispatch [4],
   .complete [4] (some e4), .dispatch [3], .complete [3] (some e3), .dispatch [1], .complete [1] (some e1)]

/-- three requests in flight, completing out of order -/
def runPar : List FEvent :=
  [.dispatch [5], .complete [5] (some e5), .dispatch [3], .dispatch [4], .dispatch [2],
   .complete [2] (some e2), .dispatch [1], .complete [4] (some e4), .complete [1] (some e1),
   .complete [3] (some e3)]

example : (accepted cfgU [[5]] runSeq).map (·.results) = some [e5, e2, e4, e3, e1] := by decide
example : (accepted cfgU [[5]] runPar).map (·.results) = some [e5, e2, e4, e1, e3] := by decide
example : (accepted cfgU [[5]] runPar).map (fun s => decide (quiescent s) && !s.cancelled) = some true := by decide
example : reach cfgU.store [[5]] = [e5, e3, e4, e2, e1] := by decide
example : get? cfgU.store [] = none := by decide

example : SourceInStore cfgU [e1, e2, e3, e4, e5] [[5]] where
  stored := by decide
  defined := by decide
  rootsIn := by decide
  closed := by decide
  below := by
    have a5 : Anc cfgU [[5]] [5] := Anc.root (by decide)
    have a3 : Anc cfgU [[5]] [3] := Anc.next (e := e5) a5 (by decide) (by decide)
    have a4 : Anc cfgU [[5]] [4] := Anc.next (e := e5) a5 (by decide) (by decide)
    have a2 : Anc cfgU [[5]] [2] := Anc.next (e := e3) a3 (by decide) (by decide)
    have a1 : Anc cfgU [[5]] [1] := Anc.next (e := e2) a2 (by decide) (by decide)
    intro e he
    simp only [List.mem_cons, List.not_mem_nil, or_false] at he
    rcases he with rfl | rfl | rfl | rfl | rfl
    · exact a1
    · exact a2
    · exact a3
    · exact a4
    · exact a5

end Model.C09

namespace Model.C09

/-- what "equals the original" means for a rebuilt replica `L` of `l` -/
structure SameLog (U : List Entry) (l L : Log) : Prop where
  inv : Inv U L
  id : L.id = l.id
  entries : ∀ x, x ∈ L.entries ↔ x ∈ l.entries
  heads : ∀ x, x ∈ L.heads ↔ x ∈ l.heads
  /-- same linearisation whenever the ordering is a strict total order on the log's entries -/
  values : L.sortFn = l.sortFn → OrderOk l.sortFn l.entries → values L = values l

theorem sameLog_of_newLog {U : List Entry} (hU : (hashes U).Nodup) {l : Log} (I : Inv U l)
    (ents heads : List Entry) (cid : Bytes) (k : SortKind)
    (hin : ∀ e ∈ ents, e ∈ l.entries) (hall : ∀ e ∈ l.entries, e ∈ ents)
    (hheads : heads = [] ∨ ((hashes heads).Nodup ∧ ∀ x, x ∈ heads ↔ x ∈ l.heads)) :
    SameLog U l (newLog l.id cid k ents heads) := by
  have hin' : ∀ e ∈ ents, e ∈ U := fun e he => I.inU e (hin e he)
  have hset : ∀ h, h ∈ hashes ents ↔ h ∈ hashes l.entries := by
    intro h
    unfold hashes
    simp only [List.mem_map]
    exact ⟨fun ⟨e, he, hx⟩ => ⟨e, hin e he, hx⟩, fun ⟨e, he, hx⟩ => ⟨e, hall e he, hx⟩⟩
  obtain ⟨h1, h2, h3, h4⟩ := newLog_rebuilds hU I ents heads cid k hin' hset hheads
  refine ⟨h1, h2, h3, h4, ?_⟩
  intro hk ho
  have hk' : k = l.sortFn := hk
  subst hk'
  exact newLog_values hU I ents heads cid hin' hset hheads ho

/-- **C09, end to end in the model**: a replica `l` of a reachable system (`Inv U l`) whose entries are in
    the block store; *any* accepted unbounded execution of the fetcher from its head hashes; each of
    the four loaders on the result ⇒ a log with the same id, the same entries, the same heads and —
    under a strict total ordering — the same `Values()`. -/
theorem rebuilt_equals_original {U : List Entry} (hU : (hashes U).Nodup) {l : Log} (I : Inv U l)
    (cfg : FCfg) (roots : List Hash) (evs : List FEvent) (s : FState)
    (hroots : ∀ h, h ∈ roots ↔ h ∈ hashes l.heads)
    (hlen : cfg.length < 0) (hex : ∀ h, cfg.excluded h = false) (src : SourceInStore cfg l.entries roots)
    (h : accepted cfg roots evs = some s) (hq : quiescent s) (hc : s.cancelled = false)
    (clockId : Bytes) (k k' : SortKind) :
    SameLog U l (loadManifest clockId k k' l.id roots s.results (-1)) ∧
    SameLog U l (loadEntryHash clockId k l.id s.results (-1)) ∧
    SameLog U l (loadJSON clockId k l.id s.results (-1)) ∧
    -- `NewFromEntry` is handed entries of the log, at least one
    (∀ source : List Entry, (∀ e ∈ source, e ∈ l.entries) → source ≠ [] →
      ∃ L, loadEntries clockId k source s.results (-1) = some L ∧ SameLog U l L) := by
  obtain ⟨hmem, hnd⟩ := fetch_eq_source cfg l.entries roots evs s hlen hex src h hq hc
  refine ⟨?_, ?_, ?_, ?_⟩
  · unfold loadManifest
    simp only [sortTrim_unbounded]
    apply sameLog_of_newLog hU I _ _ _ _ (fun e he => (hmem e).mp he) (fun e he => (hmem e).mpr he)
    right
    constructor
    · have : (hashes s.results).Nodup := hnd
      unfold hashes at this ⊢
      exact (List.Sublist.map _ List.filter_sublist).nodup this
    · intro x
      rw [List.mem_filter, List.contains_iff_mem, hroots, hmem]
      constructor
      · rintro ⟨hx, hh⟩
        obtain ⟨y, hy, hyh⟩ := List.mem_map.mp hh
        have : y = x := eq_of_hash_eq hU (I.inU y (I.headsIn y hy)) (I.inU x hx) hyh
        exact this ▸ hy
      · exact fun hx => ⟨I.headsIn x hx, List.mem_map.mpr ⟨x, hx, rfl⟩⟩
  · unfold loadEntryHash
    simp only [show ¬ ((-1 : Int) > -1) by decide, if_false, sortTrim_unbounded]
    exact sameLog_of_newLog hU I _ _ _ _ (fun e he => (hmem e).mp he) (fun e he => (hmem e).mpr he) (Or.inl rfl)
  · unfold loadJSON
    simp only [show ¬ ((-1 : Int) > -1) by decide, if_false]
    exact sameLog_of_newLog hU I _ _ _ _
      (fun e he => (hmem e).mp ((goSort_perm _ _).mem_iff.mp he))
      (fun e he => (goSort_perm _ _).mem_iff.mpr ((hmem e).mpr he)) (Or.inl rfl)
  · intro source hsrc hne
    obtain ⟨lastE, hlast, heq⟩ := loadEntries_unbounded_eq clockId k source s.results hne
    have hin : ∀ e ∈ goSort clockAsc (omFromList (source ++ s.results)), e ∈ l.entries := by
      intro e he
      have := mem_omFromList ((goSort_perm _ _).mem_iff.mp he)
      rcases List.mem_append.mp this with h1 | h1
      · exact hsrc e h1
      · exact (hmem e).mp h1
    have hall : ∀ e ∈ l.entries, e ∈ goSort clockAsc (omFromList (source ++ s.results)) := by
      intro e he
      apply (goSort_perm _ _).mem_iff.mpr
      have hx : e ∈ source ++ s.results := List.mem_append_right _ ((hmem e).mpr he)
      have : has (omFromList (source ++ s.results)) e.hash = true := by
        rw [has_omFromList]; exact has_of_mem hx
      obtain ⟨y, hy, hyh⟩ := has_iff.mp this
      have hyl : y ∈ l.entries := by
        rcases List.mem_append.mp (mem_omFromList hy) with h1 | h1
        · exact hsrc y h1
        · exact (hmem y).mp h1
      have : y = e := eq_of_hash_eq hU (I.inU y hyl) (I.inU e he) hyh
      exact this ▸ hy
    refine ⟨_, heq, ?_⟩
    rw [I.logId lastE (hin lastE hlast)]
    exact sameLog_of_newLog hU I _ _ _ _ hin hall (Or.inl rfl)

end Model.C09

namespace Model.C09
/-! non-vacuity of `rebuilt_equals_original`: the five-entry log above as a replica -/
def l5 : Log := { id := [7], entries := [e1, e2, e3, e4, e5], heads := [e5], nextIdx := [[1], [2], [3], [4]],
                  clock := { id := [4], time := 4 }, sortFn := .lww }

theorem inv_l5 : Inv [e1, e2, e3, e4, e5] l5 where
  inU := fun _ h => h
  nodup := by decide
  closed := by decide
  mono := by
    intro e he c hc p hp
    simp only [l5, List.mem_cons, List.not_mem_nil, or_false] at he
    rcases he with rfl | rfl | rfl | rfl | rfl <;>
      simp only [e1, e2, e3, e4, e5, List.mem_cons, List.not_mem_nil, or_false] at hc
    · rcases hc with rfl; simp [l5, get?, e1, e2, e3, e4, e5] at hp; subst hp; decide
    · rcases hc with rfl; simp [l5, get?, e1, e2, e3, e4, e5] at hp; subst hp; decide
    · rcases hc with rfl; simp [l5, get?, e1, e2, e3, e4, e5] at hp; subst hp; decide
    · rcases hc with rfl | rfl <;> (simp [l5, get?, e1, e2, e3, e4, e5] at hp; subst hp; decide)
  headsIn := by decide
  headsNodup := by decide
  headsSpec := by unfold namedBy; decide
  headsUnref := by unfold namedBy; decide
  nextIdx := by
    intro h
    simp [namedBy, l5, e1, e2, e3, e4, e5]
    done
  logId := by decide

example : ∃ L, loadEntries [9] .lww [e5] [e5, e2, e4, e1, e3] (-1) = some L ∧ values L = values l5 := by
  decide
end Model.C09

namespace Model.C09
/-- a replica constructed in memory from another one's entries (the live map, a copy, or its linearisation)
    with or without its heads is that replica again — and, the model being a value, owns its state -/
theorem copy_equals_original {U : List Entry} (hU : (hashes U).Nodup) {l : Log} (I : Inv U l) (cid : Bytes) (k : SortKind) :
    SameLog U l (newLog l.id cid k l.entries l.heads) ∧
    SameLog U l (newLog l.id cid k l.entries []) ∧
    (OrderOk l.sortFn l.entries → SameLog U l (newLog l.id cid k (values l) l.heads)) := by
  refine ⟨?_, ?_, ?_⟩
  · exact sameLog_of_newLog hU I _ _ _ _ (fun _ h => h) (fun _ h => h) (Or.inr ⟨I.headsNodup, fun _ => Iff.rfl⟩)
  · exact sameLog_of_newLog hU I _ _ _ _ (fun _ h => h) (fun _ h => h) (Or.inl rfl)
  · intro ho
    exact sameLog_of_newLog hU I _ _ _ _ (fun e he => (values_perm I ho).mem_iff.mp he)
      (fun e he => (values_perm I ho).mem_iff.mpr he) (Or.inr ⟨I.headsNodup, fun _ => Iff.rfl⟩)
end Model.C09
