import Proofs.FetchLimited
import Proofs.LoadersUnbounded
/-!
# C09 — a log rebuilt from its published heads equals the original (fetcher part)

`fetch_unbounded_complete`: for every accepted event list of the fetcher (every concurrency level,
heap order and block arrival order) with `length = -1` that ends quiescent and was not timed out, the
result is duplicate-free and is, as a set (indeed as a permutation), `reach store roots` — the
deterministic closure the loaders of `Model.Loaders` (and the `core` stream) are specified with.

`closure_eq_source` / `fetch_eq_source`: when the store contains a log state `E` (unique blocks per
hash), `E` is closed under `next` and `refs`, and every entry lies below one of the requested heads,
that closure is exactly `E`.  The hypotheses are the log invariant of C17/C02 (`SourceInStore`).

`load_eq_source`: fed with the result of *any* such execution, each of the four loaders of
`Model.Loaders` (no length limit) builds a log with the given id (the last entry's log id for
`NewFromEntry`) whose entry map holds exactly the hashes of `E`.

Not proved here: that `NewLog` recomputes the same heads and `values` from that entry set (C02/C03 of
the log core); the `fetch` and `core` streams compare them on the implementation.
-/
namespace Model.C09

theorem fetch_unbounded_complete (cfg : FCfg) (roots : List Hash) (evs : List FEvent) (s : FState)
    (hlen : cfg.length < 0) (hex : ∀ h, cfg.excluded h = false) (hundef : get? cfg.store [] = none)
    (h : accepted cfg roots evs = some s) (hq : quiescent s) (hc : s.cancelled = false) :
    (∀ e, e ∈ s.results ↔ e ∈ reach cfg.store roots) ∧ (s.results.map (·.hash)).Nodup ∧
      s.results.Perm (reach cfg.store roots) := by
  have hmem : ∀ e, e ∈ s.results ↔ e ∈ reach cfg.store roots := by
    intro e
    rw [unbounded_complete hlen h hq hc e, mem_reach_iff cfg roots hex hundef]
  have w := WF_accepted h
  refine ⟨hmem, w.resND, ?_⟩
  exact (List.perm_ext_iff_of_nodup (nodup_of_map_nodup _ w.resND)
    (nodup_of_map_nodup _ (reach_nodup cfg.store roots))).mpr hmem

/-- a log state `E` with head hashes `roots`, as the block store sees it -/
structure SourceInStore (cfg : FCfg) (E : List Entry) (roots : List Hash) : Prop where
  /-- the store returns exactly the log's entry for each of its hashes -/
  stored : ∀ e ∈ E, get? cfg.store e.hash = some e
  defined : ∀ e ∈ E, e.hash ≠ []
  rootsIn : ∀ h ∈ roots, ∃ e ∈ E, e.hash = h
  /-- causally closed, references included -/
  closed : ∀ e ∈ E, ∀ c ∈ e.next ++ e.refs, ∃ e' ∈ E, e'.hash = c
  /-- every entry lies below a head -/
  below : ∀ e ∈ E, Anc cfg roots e.hash

theorem closure_eq_source (cfg : FCfg) (E : List Entry) (roots : List Hash)
    (hex : ∀ h, cfg.excluded h = false) (src : SourceInStore cfg E roots) (e : Entry) :
    (∃ h, Reach cfg roots h ∧ get? cfg.store h = some e) ↔ e ∈ E := by
  have uniq : ∀ h e e', get? cfg.store h = some e → e' ∈ E → e'.hash = h → e = e' := by
    intro h e e' hg he' hh
    have := src.stored e' he'
    rw [hh, hg] at this
    exact Option.some.inj this
  constructor
  · rintro ⟨h, r, hg⟩
    have hin : ∃ e' ∈ E, e'.hash = h := by
      clear hg
      induction r with
      | root a _ _ _ => exact src.rootsIn _ a
      | link _ hg' hc _ _ _ ih =>
        obtain ⟨ep, hep, hph⟩ := ih
        have := uniq _ _ _ hg' hep hph
        subst this
        exact src.closed _ hep _ hc
    obtain ⟨e', he', hh⟩ := hin
    rw [uniq h e e' hg he' hh]; exact he'
  · intro he
    have key : ∀ h, Anc cfg roots h → (∃ e' ∈ E, e'.hash = h) ∧ Reach cfg roots h := by
      intro h a
      induction a with
      | root hm =>
        obtain ⟨e', he', hh⟩ := src.rootsIn _ hm
        refine ⟨⟨e', he', hh⟩, Reach.root hm (hh ▸ src.defined e' he') (hex _) ?_⟩
        rw [← hh, src.stored e' he']; rfl
      | next _ hg hc ih =>
        obtain ⟨⟨ep, hep, hph⟩, rp⟩ := ih
        have := uniq _ _ _ hg hep hph
        subst this
        obtain ⟨e', he', hh⟩ := src.closed _ hep _ (List.mem_append_left _ hc)
        refine ⟨⟨e', he', hh⟩, Reach.link rp hg (List.mem_append_left _ hc) (hh ▸ src.defined e' he') (hex _) ?_⟩
        rw [← hh, src.stored e' he']; rfl
    exact ⟨e.hash, (key _ (src.below e he)).2, src.stored e he⟩

/-- the unbounded fetch from the heads of a stored log state returns exactly its entries -/
theorem fetch_eq_source (cfg : FCfg) (E : List Entry) (roots : List Hash) (evs : List FEvent) (s : FState)
    (hlen : cfg.length < 0) (hex : ∀ h, cfg.excluded h = false) (src : SourceInStore cfg E roots)
    (h : accepted cfg roots evs = some s) (hq : quiescent s) (hc : s.cancelled = false) :
    (∀ e, e ∈ s.results ↔ e ∈ E) ∧ (s.results.map (·.hash)).Nodup := by
  refine ⟨fun e => ?_, (WF_accepted h).resND⟩
  rw [unbounded_complete hlen h hq hc e, closure_eq_source cfg E roots hex src]

/-- all four loaders, without a limit, on the result of any accepted execution: same id, same entry set -/
theorem load_eq_source (cfg : FCfg) (E : List Entry) (roots : List Hash) (evs : List FEvent) (s : FState)
    (hlen : cfg.length < 0) (hex : ∀ h, cfg.excluded h = false) (src : SourceInStore cfg E roots)
    (h : accepted cfg roots evs = some s) (hq : quiescent s) (hc : s.cancelled = false)
    (clockId id : Bytes) (k k' : SortKind)
    -- the entries handed to `NewFromEntry`: members of the log, at least one
    (source : List Entry) (hsrc : ∀ e ∈ source, e ∈ E) (hne : source ≠ []) :
    ((∀ x, x ∈ hashes (loadManifest clockId k k' id roots s.results (-1)).entries ↔ x ∈ hashes E) ∧
      (loadManifest clockId k k' id roots s.results (-1)).id = id) ∧
    ((∀ x, x ∈ hashes (loadEntryHash clockId k id s.results (-1)).entries ↔ x ∈ hashes E) ∧
      (loadEntryHash clockId k id s.results (-1)).id = id) ∧
    ((∀ x, x ∈ hashes (loadJSON clockId k id s.results (-1)).entries ↔ x ∈ hashes E) ∧
      (loadJSON clockId k id s.results (-1)).id = id) ∧
    (∃ l, loadEntries clockId k source s.results (-1) = some l ∧
      (∀ x, x ∈ hashes l.entries ↔ x ∈ hashes E) ∧ ∃ last ∈ l.entries, l.id = last.logId) := by
  obtain ⟨hmem, hnd⟩ := fetch_eq_source cfg E roots evs s hlen hex src h hq hc
  have hh : ∀ x, x ∈ hashes s.results ↔ x ∈ hashes E := by
    intro x
    unfold hashes
    simp only [List.mem_map]
    exact ⟨fun ⟨e, he, hx⟩ => ⟨e, (hmem e).mp he, hx⟩, fun ⟨e, he, hx⟩ => ⟨e, (hmem e).mpr he, hx⟩⟩
  have hnd' : (hashes s.results).Nodup := hnd
  refine ⟨?_, ?_, ?_, ?_⟩
  · obtain ⟨h1, h2⟩ := loadManifest_unbounded clockId k k' id roots hnd'
    exact ⟨fun x => by rw [h1]; exact hh x, h2⟩
  · obtain ⟨h1, h2⟩ := loadEntryHash_unbounded clockId k id hnd'
    exact ⟨fun x => by rw [h1]; exact hh x, h2⟩
  · obtain ⟨h1, h2⟩ := loadJSON_unbounded clockId k id hnd'
    exact ⟨fun x => by rw [h1, mem_hashes_goSort]; exact hh x, h2⟩
  · obtain ⟨l, h1, _, h3, h4⟩ := loadEntries_unbounded clockId k source s.results hne
    refine ⟨l, h1, fun x => ?_, h4⟩
    rw [h3 x, hh x]
    constructor
    · rintro (h5 | h5)
      · obtain ⟨e, he, hx⟩ := List.mem_map.mp h5
        exact List.mem_map.mpr ⟨e, hsrc e he, hx⟩
      · exact h5
    · exact Or.inr

/-! ## non-vacuity: a forked, merged log with a skip reference; two different schedules -/

def e1 : Entry := { hash := [1], logId := [7], next := [], refs := [], clock := { id := [4], time := 1 } }
def e2 : Entry := { hash := [2], logId := [7], next := [[1]], refs := [], clock := { id := [4], time := 2 } }
def e3 : Entry := { hash := [3], logId := [7], next := [[2]], refs := [[1]], clock := { id := [4], time := 3 } }
def e4 : Entry := { hash := [4], logId := [7], next := [[2]], refs := [], clock := { id := [5], time := 3 } }
def e5 : Entry := { hash := [5], logId := [7], next := [[3], [4]], refs := [[2]], clock := { id := [4], time := 4 } }

def cfgU : FCfg := { store := [e1, e2, e3, e4, e5], length := -1, excluded := fun _ => false }

/-- one request at a time -/
def runSeq : List FEvent :=
  [.dispatch [5], .complete [5] (some e5), .dispatch [2], .complete [2] (some e2), .dispatch [4],
   .complete [4] (some e4), .dispatch [3], .complete [3] (some e3), .dispatch [1], .complete [1] (some e1)]

/-- three requests in flight, completing out of order -/
def runPar : List FEvent :=
  [.dispatch [5], .complete [5] (some e5), .dispatch [3], .dispatch [4], .dispatch [2],
   .complete [2] (some e2), .dispatch [1], .complete [4] (some e4), .complete [1] (some e1),
   .complete [3] (some e3)]

example : (accepted cfgU [[5]] runSeq).map (·.results) = some [e5, e2, e4, e3, e1] := by decide
example : (accepted cfgU [[5]] runPar).map (·.results) = some [e5, e2, e4, e1, e3] := by decide
example : (accepted cfgU [[5]] runPar).map (fun s => decide (quiescent s) && !s.cancelled) = some true := by decide
example : reach cfgU.store [[5]] = [e5, e3, e4, e2, e1] := by decide
example : get? cfgU.store [] = none := by decide

example : SourceInStore cfgU [e1, e2, e3, e4, e5] [[5]] where
  stored := by decide
  defined := by decide
  rootsIn := by decide
  closed := by decide
  below := by
    have a5 : Anc cfgU [[5]] [5] := Anc.root (by decide)
    have a3 : Anc cfgU [[5]] [3] := Anc.next (e := e5) a5 (by decide) (by decide)
    have a4 : Anc cfgU [[5]] [4] := Anc.next (e := e5) a5 (by decide) (by decide)
    have a2 : Anc cfgU [[5]] [2] := Anc.next (e := e3) a3 (by decide) (by decide)
    have a1 : Anc cfgU [[5]] [1] := Anc.next (e := e2) a2 (by decide) (by decide)
    intro e he
    simp only [List.mem_cons, List.not_mem_nil, or_false] at he
    rcases he with rfl | rfl | rfl | rfl | rfl
    · exact a1
    · exact a2
    · exact a3
    · exact a4
    · exact a5

end Model.C09
