import Proofs.Cmp
/-!
# C19 — the ordering functions are lawful orders that respect causality

Statements about the exact transcriptions `cmpHash` (`SortByEntryHash`), `cmpLWW` (`LastWriteWins`),
`cmpFWW` (`FirstWriteWins`), `clockCompare` (`LamportClock.Compare`) and `goSort` (`sorting.Sort`), for
all entries: any clock times (unbounded integers — the repaired comparison never subtracts, so no
64-bit wrap-around can occur), any clock ids, any hashes.
-/
namespace Model.C19

/-- hash-tiebreak ordering: irreflexive -/
theorem hash_irreflexive (a : Entry) : cmpHash a a = 0 := cmpHash_self a

/-- hash-tiebreak ordering: antisymmetric (the sign flips when the arguments are swapped) -/
theorem hash_antisymmetric (a b : Entry) : cmpHash a b = - cmpHash b a := cmpHash_swap a b

/-- hash-tiebreak ordering: transitive -/
theorem hash_transitive (a b c : Entry) (h1 : cmpHash a b > 0) (h2 : cmpHash b c > 0) : cmpHash a c > 0 := by
  have := ltHash_trans ((ltHash_iff a b).mpr h1) ((ltHash_iff b c).mpr h2)
  exact (ltHash_iff a c).mp this

/-- hash-tiebreak ordering: total on distinct entries (distinct entries have distinct hashes) -/
theorem hash_total (a b : Entry) (h : a.hash ≠ b.hash) : cmpHash a b ≠ 0 :=
  fun h0 => h (cmpHash_eq_zero h0)

/-- default ordering: never 0, antisymmetric, transitive whenever clock id/time pairs are distinct -/
theorem lww_total (a b : Entry) : cmpLWW a b ≠ 0 := cmpLWW_ne_zero a b

theorem lww_antisymmetric (a b : Entry) (h : keyNe a b) : cmpLWW a b = - cmpLWW b a := cmpLWW_swap h

theorem lww_transitive (a b c : Entry) (hab : keyNe a b) (hbc : keyNe b c) (hac : keyNe a c)
    (h1 : cmpLWW a b > 0) (h2 : cmpLWW b c > 0) : cmpLWW a c > 0 := by
  have := ltLWW_trans hab hbc hac ((ltLWW_iff a b).mpr h1) ((ltLWW_iff b c).mpr h2)
  exact (ltLWW_iff a c).mp this

/-- with a tie the default ordering is *not* antisymmetric (it answers 1 both ways): this is why
    C01/C03/C05 ask for distinct clock id/time pairs -/
theorem lww_tie_not_antisymmetric (a b : Entry) (hi : a.clock.id = b.clock.id) (ht : a.clock.time = b.clock.time) :
    cmpLWW a b = 1 ∧ cmpLWW b a = 1 := by
  simp [cmpLWW, clockCompare, hi, ht, cmpBytes_refl]

/-- clock comparison: antisymmetric and transitive -/
theorem clock_antisymmetric (a b : Clock) : clockCompare a b = - clockCompare b a := clockCompare_swap a b

theorem clock_transitive (a b c : Clock) (h1 : clockCompare a b > 0) (h2 : clockCompare b c > 0) :
    clockCompare a c > 0 := clockCompare_trans h1 h2

/-- all of them order an entry after every entry with a smaller clock time -/
theorem time_respected (a b : Entry) (h : a.clock.time < b.clock.time) :
    cmpHash a b < 0 ∧ cmpLWW a b < 0 ∧ clockCompare a.clock b.clock < 0 :=
  ⟨time_lt_cmpHash h, time_lt_cmpLWW h, time_lt_clockCompare h⟩

/-- first-write-wins is the exact reverse of last-write-wins -/
theorem fww_reverse (a b : Entry) : cmpFWW a b = - cmpLWW a b := cmpFWW_eq_neg a b

/-- sorting is a permutation of its input, for every comparator -/
theorem sort_permutation (lt : Entry → Entry → Bool) (l : List Entry) : (goSort lt l).Perm l := goSort_perm lt l

/-- sorting with the hash-tiebreak ordering gives a sorted list and does not depend on the order of
    the input (entries with distinct hashes) -/
theorem sort_hash_sorted (l : List Entry) (hd : ∀ a ∈ l, ∀ b ∈ l, a ≠ b → a.hash ≠ b.hash) (hn : l.Nodup) :
    (goSort ltHash l).Pairwise (fun a b => ltHash a b = true) :=
  goSort_sorted (ltHash_STO l hd) l (fun _ h => h) hn

theorem sort_hash_deterministic (l₁ l₂ : List Entry) (hd : ∀ a ∈ l₁, ∀ b ∈ l₁, a ≠ b → a.hash ≠ b.hash)
    (hn : l₁.Nodup) (hp : l₁.Perm l₂) : goSort ltHash l₁ = goSort ltHash l₂ :=
  goSort_perm_invariant (ltHash_STO l₁ hd) (fun _ _ _ _ _ h => ltHash_asymm h) (fun _ h => h) hn hp

/-- the same for the default ordering when no two entries tie -/
theorem sort_lww_sorted (l : List Entry) (hd : ∀ a ∈ l, ∀ b ∈ l, a ≠ b → keyNe a b) (hn : l.Nodup) :
    (goSort ltLWW l).Pairwise (fun a b => ltLWW a b = true) :=
  goSort_sorted (ltLWW_STO l hd) l (fun _ h => h) hn

theorem sort_lww_deterministic (l₁ l₂ : List Entry) (hd : ∀ a ∈ l₁, ∀ b ∈ l₁, a ≠ b → keyNe a b)
    (hn : l₁.Nodup) (hp : l₁.Perm l₂) : goSort ltLWW l₁ = goSort ltLWW l₂ :=
  goSort_perm_invariant (ltLWW_STO l₁ hd) (fun a b ha hb hne h => ltLWW_asymm (hd a ha b hb hne) h) (fun _ h => h) hn hp

/-! non-vacuity: concrete entries meeting the hypotheses -/
def e1 : Entry := { hash := [1], logId := [], next := [], refs := [], clock := { id := [4], time := 1 } }
def e2 : Entry := { hash := [2], logId := [], next := [], refs := [], clock := { id := [4], time := 2 } }
def e3 : Entry := { hash := [3], logId := [], next := [], refs := [], clock := { id := [5], time := 2 } }
example : keyNe e1 e2 ∧ keyNe e2 e3 ∧ e1.hash ≠ e2.hash := by unfold keyNe; decide
example : cmpLWW e3 e2 > 0 ∧ cmpLWW e2 e1 > 0 ∧ cmpHash e3 e2 > 0 := by decide
example : goSort ltLWW [e1, e3, e2] = [e3, e2, e1] := by decide

end Model.C19
