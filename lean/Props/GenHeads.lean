import Generated.GenHeads
import Props.GenCommon
import Props.C19Gen
/-!
# Props.GenHeads — `FindHeads` (entry/utils.go) = `findHeads`

`Generated/GenHeads.lean` is produced on every run by `harness/cmd/extract/translate2.go` from the Go source; the
theorems identify it with the hand-written model the property theorems are about.
-/
namespace Model.SlicesGen
open Model Model.Go Model.Codec

theorem items_inner (e : Entry) (h : Hash) : ∀ (l : List Hash) (items : List (Hash × Hash)),
    mapHas (l.foldl (fun items n => mapSet items n e.hash) items) h = (mapHas items h || l.contains h) := by
  intro l
  induction l with
  | nil => intro items; simp
  | cons n t ih =>
    intro items
    rw [List.foldl_cons, ih, mapHas_mapSet]
    simp only [List.contains_cons, Bool.or_assoc]

theorem items_outer (h : Hash) : ∀ (E : List Entry) (items : List (Hash × Hash)) (named : List Hash),
    mapHas items h = named.contains h →
    mapHas (E.foldl (fun items k => k.next.foldl (fun items n => mapSet items n k.hash) items) items) h =
      (E.foldl (fun acc e => acc ++ e.next) named).contains h := by
  intro E
  induction E with
  | nil => intro items named hinv; exact hinv
  | cons e t ih =>
    intro items named hinv
    rw [List.foldl_cons, List.foldl_cons]
    apply ih
    rw [items_inner, hinv, List.contains_append]

theorem findHeads_eq (E : List Entry) : Generated.Go.findHeads E = findHeads E := by
  unfold Generated.Go.findHeads findHeads
  simp only [Bool.false_eq_true, if_false]
  have hitems := fun h => items_outer h E [] [] (by simp [mapHas])
  -- whether the code tests `ok || e != ""` or just `ok`
  try simp only [mapHas_or_mapGet]
  simp only [hitems]
  rw [foldl_cond_append]
  simp

end Model.SlicesGen
