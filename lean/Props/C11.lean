import Proofs.FetchReach
import Proofs.FetchSync
import Generated.Facts
/-!
# C11 — fetching tolerates missing, failing and slow blocks and always terminates

All statements are about `Model.Fetcher`: the transition system of `entry/fetcher.go` whose events are
`dispatch h` (a hash leaves the queue and is requested from the store), `complete h got` (the
completion section of that request, `got = none` for an absent / failing / undecodable block or an
ended context) and `cancel` (the timeout fires).  `cfg.store` holds exactly the retrievable blocks, so a
fault set is a choice of `cfg.store`; `cfg.excluded` is `ShouldExclude`; `cfg.length` is any limit.
"For every accepted event list" = for every concurrency limit, heap order and completion order.

What is *not* proved here (see DESIGN): wall-clock ("within the configured timeout") and freedom from
lost wake-ups of the Go `sync.Cond` loop; the harness measures the former.
-/
namespace Model.C11

/-- no hash is requested from the store twice -/
theorem dispatch_once (cfg : FCfg) (roots : List Hash) (evs : List FEvent) (s : FState)
    (h : accepted cfg roots evs = some s) : (dispatchedOf evs).Nodup :=
  (dispatch_fresh (WF_finit cfg roots) h).1

/-- no excluded or undefined hash is ever requested, and only hashes the request or a retrieved block
    names (`Req`: wanted start hashes and wanted links of retrieved entries) -/
theorem never_excluded (cfg : FCfg) (roots : List Hash) (evs : List FEvent) (s : FState)
    (h : accepted cfg roots evs = some s) :
    ∀ x ∈ dispatchedOf evs, x ≠ [] ∧ cfg.excluded x = false ∧ Req cfg roots x ∧ x ∈ mentioned cfg roots := by
  intro x hx
  have r := ((dispatch_fresh (WF_finit cfg roots) h).2 x hx).2
  exact ⟨r.ok.1, r.ok.2, r, r.mentioned⟩

/-- no entry is returned twice (not even two entries with one hash) -/
theorem results_nodup (cfg : FCfg) (roots : List Hash) (evs : List FEvent) (s : FState)
    (h : accepted cfg roots evs = some s) : (s.results.map (·.hash)).Nodup ∧ s.results.Nodup := by
  have w := WF_accepted h
  exact ⟨w.resND, nodup_of_map_nodup _ w.resND⟩

/-- every execution is finite: at most two events per mentioned hash, plus the cancellation -/
theorem bounded (cfg : FCfg) (roots : List Hash) (evs : List FEvent) (s : FState)
    (h : accepted cfg roots evs = some s) : evs.length ≤ 2 * (mentioned cfg roots).length + 1 := by
  have h1 := frun_length_le evs (WF_finit cfg roots) h
  have h2 := potential_finit_le cfg roots
  omega

/-- a state in which `processQueue` has not returned has an enabled event (no deadlock) -/
theorem progress (cfg : FCfg) (s : FState) (h : ¬ terminated s) : ∃ ev s', fstep cfg s ev = some s' :=
  progress_step cfg s h

/-- every execution can be continued to a terminated state (and by `bounded` cannot be continued for ever) -/
theorem can_terminate (cfg : FCfg) (roots : List Hash) (evs : List FEvent) (s : FState)
    (h : accepted cfg roots evs = some s) :
    ∃ evs' s', accepted cfg roots (evs ++ evs') = some s' ∧ terminated s' := by
  have w := WF_accepted h
  have key : ∀ (k : Nat) (s : FState), WF cfg roots s → potential cfg roots s ≤ k →
      ∃ evs' s', frun cfg s evs' = some s' ∧ terminated s' := by
    intro k
    induction k with
    | zero =>
      intro s w hk
      by_cases ht : terminated s
      · exact ⟨[], s, rfl, ht⟩
      · obtain ⟨ev, s1, h1⟩ := progress_step cfg s ht
        have := potential_step w h1
        omega
    | succ k ih =>
      intro s w hk
      by_cases ht : terminated s
      · exact ⟨[], s, rfl, ht⟩
      · obtain ⟨ev, s1, h1⟩ := progress_step cfg s ht
        have hp := potential_step w h1
        obtain ⟨evs', s', h2, h3⟩ := ih s1 (WF_fstep w h1) (by omega)
        exact ⟨ev :: evs', s', by simp [frun, h1, h2], h3⟩
  obtain ⟨evs', s', h2, h3⟩ := key _ s w (Nat.le_refl _)
  exact ⟨evs', s', frun_append.mpr ⟨s, h, h2⟩, h3⟩

/-- unbounded load, any faults, any exclusions, not timed out: the result is exactly the set of entries
    reachable from the requested heads along paths of retrievable, non-excluded entries -/
theorem faulty_result (cfg : FCfg) (roots : List Hash) (evs : List FEvent) (s : FState)
    (hlen : cfg.length < 0) (h : accepted cfg roots evs = some s) (hq : quiescent s)
    (hc : s.cancelled = false) (e : Entry) :
    e ∈ s.results ↔ ∃ x, Reach cfg roots x ∧ get? cfg.store x = some e :=
  unbounded_complete hlen h hq hc e

/-- the same set, computed: `reachX` is what the driver compares the implementation's result with -/
theorem faulty_result_computed (cfg : FCfg) (roots : List Hash) (evs : List FEvent) (s : FState)
    (hlen : cfg.length < 0) (h : accepted cfg roots evs = some s) (hq : quiescent s)
    (hc : s.cancelled = false) (e : Entry) : e ∈ s.results ↔ e ∈ reachX cfg roots := by
  rw [unbounded_complete hlen h hq hc e, mem_reachX_iff]

/-- at any time, for any limit, timed out or not: whatever has been returned is a retrievable,
    non-excluded entry reachable from the requested heads -/
theorem partial_result_sound (cfg : FCfg) (roots : List Hash) (evs : List FEvent) (s : FState)
    (h : accepted cfg roots evs = some s) (e : Entry) (he : e ∈ s.results) :
    ∃ x, Reach cfg roots x ∧ get? cfg.store x = some e :=
  results_sound (WF_accepted h) he

/-- after the timeout nothing more is requested -/
theorem cancel_stops_dispatch (cfg : FCfg) (roots : List Hash) (before after : List FEvent) (s : FState)
    (h : accepted cfg roots (before ++ FEvent.cancel :: after) = some s) : dispatchedOf after = [] := by
  obtain ⟨s1, _, h2⟩ := frun_append.mp h
  obtain ⟨s2, h3, h4⟩ := frun_cons h2
  rcases fstep_cases h3 with ⟨_, heq, _⟩ | ⟨_, heq, _⟩ | ⟨_, _, heq, _⟩ | ⟨_, _, rfl⟩
  · cases heq
  · cases heq
  · cases heq
  · exact (no_dispatch_after_cancel after rfl h4).1

/-! ## non-vacuity: a forked log with skip references, one absent block, one excluded hash -/

def e1 : Entry := { hash := [1], logId := [7], next := [], refs := [], clock := { id := [4], time := 1 } }
def e2 : Entry := { hash := [2], logId := [7], next := [[1]], refs := [], clock := { id := [4], time := 2 } }
def e3 : Entry := { hash := [3], logId := [7], next := [[2]], refs := [[1]], clock := { id := [4], time := 3 } }
def e4 : Entry := { hash := [4], logId := [7], next := [[2]], refs := [], clock := { id := [5], time := 3 } }
def e5 : Entry := { hash := [5], logId := [7], next := [[3], [4]], refs := [[2]], clock := { id := [4], time := 4 } }

/-- block 3 is absent, hash 9 is excluded -/
def cfgF : FCfg := { store := [e1, e2, e4, e5], length := -1, excluded := fun h => h == [9] }

def runF : List FEvent :=
  [.dispatch [5], .complete [5] (some e5), .dispatch [3], .dispatch [4], .complete [4] (some e4),
   .complete [3] none, .dispatch [2], .complete [2] (some e2), .dispatch [1], .complete [1] (some e1)]

example : (accepted cfgF [[5], [9], []] runF).map (·.results) = some [e5, e4, e2, e1] := by decide
example : (accepted cfgF [[5], [9], []] runF).map (fun s => decide (quiescent s) && !s.cancelled) = some true := by
  decide
example : reachX cfgF [[5], [9], []] = [e5, e4, e2, e1] := by decide
/-- a timed-out run: block 4 comes back empty after the cancellation although it is retrievable -/
example : (accepted cfgF [[5]] [.dispatch [5], .complete [5] (some e5), .dispatch [4], .cancel,
    .complete [4] none]).map (fun s => (s.results, decide (terminated s))) = some ([e5], true) := by decide

/-! ## the synchronisation of `processQueue`: mutex, semaphore, condition variable, cancellation

`Model/FetchSync.lean` is the dispatcher and its worker goroutines at the level of their lock, semaphore
and condition-variable operations (what the transition system above abstracts into "an enabled dispatch
/ completion happens").  For every concurrency limit ≥ 1, every number of start hashes, every finite
budget of hashes that completions may still queue, every interleaving and every moment of
cancellation: -/

open Model.FetchSync in
/-- **no deadlock and no lost wake-up**: until `processQueue` returns some goroutine can always move —
    the dispatcher never sleeps in `Wait` with nobody left to signal, and a dispatcher blocked on the
    semaphore (while holding the mutex) always has a request in flight whose worker releases its slot
    before asking for the mutex -/
theorem sync_no_deadlock (conc q0 budget : Nat) (hc : 0 < conc) (as : List Act) (s : FS)
    (h : run (init conc q0 budget) as = some s) (hnd : s.pc ≠ .done) : ∃ a s', step s a = some s' :=
  FetchSync.progress (FetchSync.inv_run as (FetchSync.inv_init conc q0 budget hc) h) hnd

open Model.FetchSync in
/-- **bounded**: no run is longer than `10·(budget + q0) + 3` steps: together with the previous theorem,
    every maximal run ends with the dispatcher returning -/
theorem sync_bounded (conc q0 budget : Nat) (as : List Act) (s : FS)
    (h : run (init conc q0 budget) as = some s) : as.length ≤ 10 * (budget + q0) + 3 := by
  have := FetchSync.run_bounded as h
  have hp : FetchSync.potential (init conc q0 budget) = 10 * (budget + q0) + 3 := by
    simp [FetchSync.potential, init, FetchSync.rank]
  omega

open Model.FetchSync in
/-- **at the return** no worker is left behind, every slot is free again and — unless the dispatcher gave
    up after a cancellation — nothing is left in the queue -/
theorem sync_at_return (conc q0 budget : Nat) (hc : 0 < conc) (as : List Act) (s : FS)
    (h : run (init conc q0 budget) as = some s) (hd : s.pc = .done) :
    s.t = 0 ∧ s.nF = 0 ∧ s.nW = 0 ∧ s.sem = s.conc ∧ (s.gaveUp = false → s.q = 0) :=
  FetchSync.at_return (FetchSync.inv_run as (FetchSync.inv_init conc q0 budget hc) h) hd

open Model.FetchSync in
/-- a completion section never runs while the dispatcher holds the mutex -/
theorem sync_exclusion (conc q0 budget : Nat) (hc : 0 < conc) (as : List Act) (s s' : FS) (k : Nat)
    (h : run (init conc q0 budget) as = some s) (he : step s (.enter k) = some s') :
    s.pc = .waiting ∨ s.pc = .waitingF ∨ s.pc = .done :=
  FetchSync.exclusion (FetchSync.inv_run as (FetchSync.inv_init conc q0 budget hc) h) he

open Model.FetchSync in
/-- non-vacuity: one slot, two start hashes, the first completion queues a third: a full run -/
example : (run (init 1 2 1) [.dispatch, .loopBack, .complete, .dispatch, .wait, .enter 1, .wake, .loopBack, .complete,
    .dispatch, .wait, .enter 0, .wake, .wait, .complete, .enter 0, .wake, .loopBack, .toFinal, .finish]).map
      (fun s => (s.pc, s.q, s.t, s.sem)) = some (.done, 0, 0, 1) := by decide

open Model.FetchSync in
/-- … and the loop proper: the dispatcher parks in the inner `Wait`, a completion queues a hash and wakes it -/
example : (run (init 2 1 1) [.dispatch, .wait, .complete, .enter 1, .wake, .loopBack, .dispatch, .wait, .complete,
    .enter 0, .wake, .loopBack, .toFinal, .finish]).map (fun s => (s.pc, s.q, s.t, s.budget)) =
    some (.done, 0, 0, 0) := by decide

/-- the seeded change C11c (slot released inside the completion section) as a model variant: reachable
    deadlock — only a cancellation can still happen (`Proofs/FetchSync.lean`) -/
theorem slot_released_under_mutex_deadlocks :
    (∀ a, a ≠ Model.FetchSync.Act.cancel → Model.FetchSync.stepOld Model.FetchSync.stuck a = none) :=
  Model.FetchSync.old_variant_deadlocks

/-! ### the tie of `Model.FetchSync` to entry/fetcher.go: regenerated synchronisation shape

`Generated.syncShape` is the sequence of mutex / semaphore / condition-variable operations, hook points
and sends on the main path of `Fetch` and `processQueue`, the worker goroutine's body in place with the
prefix `go:` (`harness/cmd/extract/syncshape.go`).  The model's transitions are these operations: -/

def syncOf (f : String) : List String :=
  match Generated.syncShape.find? (·.1 == f) with
  | some p => p.2
  | none => []

/-- the dispatcher takes the mutex once, acquires a slot (holding the mutex) before each dispatch, spawns
    the worker, parks in `Wait` in the loop and after it, and releases the mutex at the end; the worker
    fetches, **releases its slot, then** takes the mutex, records the completion, signals and unlocks -/
theorem sync_shape_exact : syncOf "processQueue" =
    ["muProcess.Lock", "sem.Acquire", "hook:fetch.dispatch",
     "go:fetchEntry", "go:sem.Release", "go:muProcess.Lock", "go:hook:fetch.complete",
     "go:muClock.Lock", "go:muClock.Unlock", "go:send", "go:condProcess.Signal", "go:muProcess.Unlock",
     "condProcess.Wait", "condProcess.Wait", "muProcess.Unlock"] := by decide

/-- what `FetchSync.progress` rests on, read off the code: the slot is released before the worker asks for
    the mutex (`complete` before `enter`), and the signal is sent inside the completion section -/
theorem slot_released_before_mutex :
    (syncOf "processQueue").idxOf "go:sem.Release" < (syncOf "processQueue").idxOf "go:muProcess.Lock" ∧
    (syncOf "processQueue").idxOf "go:muProcess.Lock" < (syncOf "processQueue").idxOf "go:condProcess.Signal" ∧
    (syncOf "processQueue").idxOf "go:condProcess.Signal" < (syncOf "processQueue").idxOf "go:muProcess.Unlock" := by
  decide

/-- the timeout covers the whole load (one context for `processQueue`), not each block request -/
theorem timeout_wraps_the_load : syncOf "Fetch" = "WithTimeout" :: (syncOf "processQueue" ++ ["cancel"]) := by decide

end Model.C11
