import Generated.GenIterator
import Props.GenCommon
import Props.GenTraverse
import Model.Iterator
import Proofs.LoadersUnbounded
/-!
# Props.GenIterator — `IPFSLog.Iterator` and `sortedHeads` (log.go), translated, are the model's `iterator`

`Iterator` is translated as an *emitter*: the output channel is the list of what was sent (`close` adds nothing),
the only result is the error (`none`), the options are the five optional bounds, a loop that may leave the
function with an error is a fold in the `Option` monad, the continuations of the `if`s with exits are join points
(`Generated.Go.iterator_join1…4`), `l.traverse` is the translated traversal with the caller's fuel.
`iterator_eq_fuel` holds for every fuel; with the fuel the model gives the traversal (`iterFuel`) the translated
function is exactly `Model.iterator` — the function the C15 theorems are about.  Hypotheses: no entry of the log
and no lower bound has the empty hash (`""` stands for "no lower bound" in the code).
-/
namespace Model.SlicesGen
open Model Model.Go

/-- the LTE loop: every bound is looked up, an unknown one is the error -/
theorem lte_fold (E : List Entry) : ∀ (cs : List Hash) (init : List Entry),
    cs.foldlM (fun start c => if (!(get? E c).isSome) = true then none else some (start ++ [(get? E c).getD default])) init =
      (lookupAll E cs).map (fun r => init ++ r) := by
  intro cs
  induction cs with
  | nil => intro init; simp [lookupAll]
  | cons c cs ih =>
    intro init
    simp only [List.foldlM_cons, lookupAll]
    cases hg : get? E c with
    | none => simp
    | some e =>
      simp only [Option.isSome_some, Bool.not_true, Bool.false_eq_true, if_false, Option.getD_some, Option.bind_eq_bind,
        Option.bind_some]
      rw [ih]
      cases lookupAll E cs <;> simp

theorem lte_fold_nil (E : List Entry) (cs : List Hash) :
    cs.foldlM (fun start c => if (!(get? E c).isSome) = true then none else some (start ++ [(get? E c).getD default])) [] =
      lookupAll E cs := by
  rw [lte_fold]; cases lookupAll E cs <;> simp

/-- the LT loop: for every bound the start set is reset to its predecessors -/
theorem lt_fold (E : List Entry) : ∀ (cs : List Hash) (init : List Entry),
    cs.foldlM (fun (_ : List Entry) c =>
      if (!(get? E c).isSome) = true then none
      else match lookupAll E ((get? E c).getD default).next with
        | none => none
        | some start => some start) init =
      ltStart E cs init := by
  intro cs
  induction cs with
  | nil => intro init; simp [ltStart]
  | cons c cs ih =>
    intro init
    simp only [List.foldlM_cons, ltStart]
    cases hg : get? E c with
    | none => simp
    | some e =>
      simp only [Option.isSome_some, Bool.not_true, Bool.false_eq_true, if_false, Option.getD_some]
      cases hl : lookupAll E e.next with
      | none => simp
      | some s => simpa using ih s

theorem slice?_prefix {α : Type} (xs : List α) (b : Int) (h0 : 0 ≤ b) (h1 : b ≤ xs.length) :
    slice? xs 0 b = some (xs.take b.toNat) := by
  unfold slice?
  rw [if_pos ⟨Int.le_refl _, h0, h1⟩]
  simp

theorem join3_eq (fuel : Nat) (E : List Entry) (lt : Entry → Entry → Bool) (H : List Entry) (o : IterOpts)
    (output start em entries : List Entry) (eh : Hash) (count : Int) (xlte xlt : Option (List Hash)) :
    Generated.Go.iterator_join3 fuel E lt H o.amount xlte xlt o.gte o.gt output (iterAmount o) start eh count em entries =
      some (output ++ iterKeepLast o entries) := by
  unfold Generated.Go.iterator_join3 Generated.Go.iterator_join4 iterKeepLast
  by_cases hc : (o.gt.isSome ∨ o.gte.isSome) ∧ iterAmount o > -1 ∧ iterAmount o < (entries.length : Int)
  · obtain ⟨h1, h2, h3⟩ := hc
    have hb : ((o.gt.isSome || o.gte.isSome) && decide (iterAmount o > -1) && decide (iterAmount o < (entries.length : Int))) = true := by
      rcases h1 with h | h <;> simp [h, h2, h3]
    have hs := slice?_suffix entries ((entries.length : Int) - iterAmount o) (by omega) (by omega)
    have hd : ((entries.length : Int) - iterAmount o).toNat = entries.length - (iterAmount o).toNat := by omega
    rw [if_pos hb, hs, if_pos ⟨h1, h2, h3⟩, hd]
  · have hb : ((o.gt.isSome || o.gte.isSome) && decide (iterAmount o > -1) && decide (iterAmount o < (entries.length : Int))) = false := by
      cases h1 : o.gt.isSome <;> cases h2 : o.gte.isSome <;> simp_all
      all_goals omega
    rw [if_neg (by rw [hb]; decide), if_neg hc]

/-- the LT loop for ANY step function that meets the pointwise specification -/
theorem lt_fold_any (E : List Entry) (f : List Entry → Hash → Option (List Entry))
    (hf : ∀ s c, f s c = if (!(get? E c).isSome) = true then none else lookupAll E ((get? E c).getD default).next) :
    ∀ (cs : List Hash) (init : List Entry), cs.foldlM f init = ltStart E cs init := by
  intro cs init
  rw [← lt_fold E cs init]
  congr 1
  funext s c
  rw [hf]
  split
  · rfl
  · cases lookupAll E ((get? E c).getD default).next <;> rfl

/-- the model's iteration from a given start set, with explicit fuel -/
def iterFromF (fuel : Nat) (E : List Entry) (lt : Entry → Entry → Bool) (o : IterOpts) (start : List Entry) : List Entry :=
  iterTrim o (travLoop E lt (iterCount o) (iterEnd o) fuel (goSort lt (omFromList start)) [] [] 0)

theorem join2_eq (fuel : Nat) (E : List Entry) (lt : Entry → Entry → Bool) (H : List Entry) (o : IterOpts)
    (output start : List Entry)
    (hE : ∀ e ∈ E, e.hash ≠ []) (hS : ∀ e ∈ start, e.hash ≠ [])
    (hgte : ∀ h, o.gte = some h → h ≠ []) (hgt : ∀ h, o.gt = some h → h ≠ []) (xlte xlt : Option (List Hash)) :
    Generated.Go.iterator_join2 fuel E lt H o.amount xlte xlt o.gte o.gt output (iterAmount o) start =
      some (output ++ iterFromF fuel E lt o start) := by
  unfold Generated.Go.iterator_join2 iterFromF iterTrim
  -- the end hash as the code computes it ("" = none) and as the model does
  have hend : (if o.gte.isSome = true then o.gte.getD [] else if o.gt.isSome = true then o.gt.getD [] else ([] : Hash)) =
      (iterEnd o).getD [] := by
    unfold iterEnd
    cases o.gte <;> cases o.gt <;> rfl
  have hnone : ((iterEnd o).getD [] == ([] : Hash)) = (iterEnd o).isNone := by
    unfold iterEnd
    cases h1 : o.gte with
    | some h => simp [hgte h h1]
    | none =>
      cases h2 : o.gt with
      | some h => simp [hgt h h2]
      | none => rfl
  have hcount : (if ((iterEnd o).getD [] == ([] : Hash) && o.amount.isSome) = true then iterAmount o else -1) = iterCount o := by
    unfold iterCount
    rw [hnone]
    cases h1 : iterEnd o <;> cases h2 : o.amount <;> simp
  simp only [hend, hcount]
  rw [traverse_eq_some]
  -- `""` as end hash is `none` for the model
  have htrav : travLoop E lt (iterCount o) (some ((iterEnd o).getD [])) fuel (goSort lt (omFromList start)) [] [] 0 =
      travLoop E lt (iterCount o) (iterEnd o) fuel (goSort lt (omFromList start)) [] [] 0 := by
    cases h : iterEnd o with
    | some x => rfl
    | none =>
      apply travLoop_nil_none E lt _ hE
      intro e he
      have : e ∈ omFromList start := mem_goSort.mp he
      have hm : e ∈ start := by
        unfold omFromList at this
        rcases foldl_omSet_mem start [] e this with h | h
        · cases h
        · exact h
      exact hS e hm
  simp only [htrav]
  generalize travLoop E lt (iterCount o) (iterEnd o) fuel (goSort lt (omFromList start)) [] [] 0 = ents
  unfold iterDropGt
  by_cases hg : o.gt.isSome ∧ ents.length > 0
  · have hb : (o.gt.isSome && decide ((ents.length : Int) > 0)) = true := by
      obtain ⟨h1, h2⟩ := hg
      have : (ents.length : Int) > 0 := by omega
      simp [h1]; omega
    have hs := slice?_prefix ents ((ents.length : Int) - 1) (by omega) (by omega)
    have hd : ((ents.length : Int) - 1).toNat = ents.length - 1 := by omega
    rw [if_pos hb, hs, if_pos hg, hd]
    show Generated.Go.iterator_join3 _ _ _ _ _ _ _ _ _ _ _ _ _ _ _ _ = _
    rw [join3_eq, List.dropLast_eq_take]
  · have hb : (o.gt.isSome && decide ((ents.length : Int) > 0)) = false := by
      cases h1 : o.gt.isSome
      · rfl
      · have : ¬ ents.length > 0 := fun h => hg ⟨h1, h⟩
        have h0 : decide ((ents.length : Int) > 0) = false := by
          rw [decide_eq_false_iff_not]; omega
        rw [h0]; rfl
    rw [if_neg (by rw [hb]; decide), if_neg hg, join3_eq]

theorem lookupAll_mem (E : List Entry) : ∀ (cs : List Hash) (s : List Entry), lookupAll E cs = some s → ∀ e ∈ s, e ∈ E := by
  intro cs
  induction cs with
  | nil => intro s h e he; simp [lookupAll] at h; subst h; cases he
  | cons c cs ih =>
    intro s h e he
    simp only [lookupAll] at h
    cases hg : get? E c with
    | none => simp [hg] at h
    | some x =>
      cases hl : lookupAll E cs with
      | none => simp [hg, hl] at h
      | some r =>
        simp [hg, hl] at h
        subst h
        rcases List.mem_cons.mp he with h1 | h1
        · rw [h1]; exact List.mem_of_find?_eq_some hg
        · exact ih r hl e h1

theorem ltStart_mem (E : List Entry) : ∀ (cs : List Hash) (init s : List Entry), ltStart E cs init = some s →
    (∀ e ∈ init, e.hash ≠ []) → (∀ e ∈ E, e.hash ≠ []) → ∀ e ∈ s, e.hash ≠ [] := by
  intro cs
  induction cs with
  | nil => intro init s h hi _ e he; simp [ltStart] at h; subst h; exact hi e he
  | cons c cs ih =>
    intro init s h _ hE e he
    simp only [ltStart] at h
    cases hg : get? E c with
    | none => simp [hg] at h
    | some x =>
      cases hl : lookupAll E x.next with
      | none => simp [hg, hl] at h
      | some r =>
        simp [hg, hl] at h
        exact ih r s h (fun y hy => hE y (lookupAll_mem E _ r hl y hy)) hE e he

/-- the model's start set as an `Option` (`none` = an unknown bound) -/
def iterStartO (l : Log) (o : IterOpts) : Option (List Entry) :=
  match iterStart l o with
  | .ok s => some s
  | _ => none

theorem join1_eq (fuel : Nat) (l : Log) (o : IterOpts) (output : List Entry)
    (hE : ∀ e ∈ l.entries, e.hash ≠ []) (hH : ∀ e ∈ l.heads, e.hash ≠ [])
    (hgte : ∀ h, o.gte = some h → h ≠ []) (hgt : ∀ h, o.gt = some h → h ≠ []) :
    Generated.Go.iterator_join1 fuel l.entries (before l.sortFn) l.heads o.amount o.lte o.lt o.gte o.gt output (iterAmount o) =
      (iterStartO l o).map (fun start => output ++ iterFromF fuel l.entries (before l.sortFn) o start) := by
  unfold Generated.Go.iterator_join1 iterStartO iterStart
  have hsh : Generated.Go.sortedHeads l.entries (before l.sortFn) l.heads = sortedHeads l := rfl
  have hSH : ∀ e ∈ sortedHeads l, e.hash ≠ [] := by
    intro e he
    unfold sortedHeads omFromList at he
    rcases foldl_omSet_mem _ [] e he with h | h
    · cases h
    · exact hH e (mem_goSort.mp h)
  simp only [hsh]
  cases hlte : o.lte with
  | some cs =>
    simp only [Option.isSome_some, if_true, Option.getD_some, lte_fold_nil]
    cases hl : lookupAll l.entries cs with
    | none => rfl
    | some s =>
      simp only [Option.map_some]
      rw [join2_eq fuel l.entries (before l.sortFn) l.heads o output s hE
        (fun e he => hE e (lookupAll_mem _ _ s hl e he)) hgte hgt _ _]
  | none =>
    simp only [Option.isSome_none, Bool.false_eq_true, if_false]
    cases hlt : o.lt with
    | some cs =>
      simp only [Option.isSome_some, if_true, Option.getD_some, lte_fold_nil]
      rw [lt_fold_any l.entries]
      rotate_left
      · intro s c
        split
        · rfl
        · cases lookupAll l.entries ((get? l.entries c).getD default).next <;> rfl
      cases hs : ltStart l.entries cs (sortedHeads l) with
      | none => rfl
      | some s =>
        simp only [Option.map_some]
        rw [join2_eq fuel l.entries (before l.sortFn) l.heads o output s hE
          (ltStart_mem _ _ _ s hs hSH hE) hgte hgt _ _]
    | none =>
      simp only [Option.isSome_none, Bool.false_eq_true, if_false, Option.map_some]
      rw [join2_eq fuel l.entries (before l.sortFn) l.heads o output (sortedHeads l) hE hSH hgte hgt _ _]

/-- **`IPFSLog.Iterator`, translated, for every fuel**: nothing is sent when the amount is 0; an unknown upper
    bound is the error; otherwise what is sent is the model's trimmed traversal from the model's start set -/
theorem iterator_eq_fuel (fuel : Nat) (l : Log) (o : IterOpts)
    (hE : ∀ e ∈ l.entries, e.hash ≠ []) (hH : ∀ e ∈ l.heads, e.hash ≠ [])
    (hgte : ∀ h, o.gte = some h → h ≠ []) (hgt : ∀ h, o.gt = some h → h ≠ []) :
    Generated.Go.iterator fuel l.entries (before l.sortFn) l.heads o.amount o.lte o.lt o.gte o.gt =
      if o.amount = some 0 then some []
      else (iterStartO l o).map (fun start => iterFromF fuel l.entries (before l.sortFn) o start) := by
  unfold Generated.Go.iterator
  have hj := join1_eq fuel l o [] hE hH hgte hgt
  simp only [List.nil_append] at hj
  cases ha : o.amount with
  | none =>
    have hA : iterAmount o = -1 := by unfold iterAmount; rw [ha]; rfl
    rw [ha, hA] at hj
    simp only [Option.isSome_none, Bool.false_eq_true, if_false, reduceCtorEq]
    exact hj
  | some a =>
    have hA : iterAmount o = a := by unfold iterAmount; rw [ha]; rfl
    rw [ha, hA] at hj
    simp only [Option.isSome_some, if_true, Option.getD_some]
    by_cases h0 : a = 0
    · subst h0; simp
    · have hb : (a == 0) = false := by simpa using h0
      have hne : ¬ (some a = some (0 : Int)) := fun h => h0 (Option.some.inj h)
      rw [if_neg (by rw [hb]; decide), if_neg hne]
      exact hj

/-- the fuel the model gives the traversal -/
def iterFuel (l : Log) (o : IterOpts) : Nat :=
  match iterStart l o with
  | .ok s => traverseFuel l.entries (omFromList s)
  | _ => 0

/-- **… and with the model's fuel it is the model's `iterator`** (an error is `none`) -/
theorem iterator_eq (l : Log) (o : IterOpts)
    (hE : ∀ e ∈ l.entries, e.hash ≠ []) (hH : ∀ e ∈ l.heads, e.hash ≠ [])
    (hgte : ∀ h, o.gte = some h → h ≠ []) (hgt : ∀ h, o.gt = some h → h ≠ []) :
    Generated.Go.iterator (iterFuel l o) l.entries (before l.sortFn) l.heads o.amount o.lte o.lt o.gte o.gt =
      match iterator l o with
      | .ok out _ => some out
      | _ => none := by
  rw [iterator_eq_fuel _ l o hE hH hgte hgt]
  unfold iterator iterStartO iterFuel iterFromF
  by_cases h0 : o.amount = some 0
  · simp [h0]
  · simp only [h0, if_false]
    cases iterStart l o <;> rfl

end Model.SlicesGen
