import Proofs.System
/-!
# C02 — heads are exactly the entries nothing else in the log points to

For every replica of every reachable system (every prefix of every history of appends and unbounded
merges, including merges of overlapping, already-merged and diverged logs).
-/
namespace Model.C02

theorem heads_spec {s : Sys} (hr : Reachable s) {r : Nat} {l : Log} (hl : s.logs r = some l) (x : Entry) :
    x ∈ l.heads ↔ x ∈ l.entries ∧ ¬ namedBy l.entries x.hash := by
  have I := (reachable_inv hr).inv r l hl
  exact ⟨fun hx => ⟨I.headsIn x hx, I.headsUnref x hx⟩, fun ⟨hx, hn⟩ => I.headsSpec x hx hn⟩

/-- the same statement on the decidable predicate the harness evaluates on the implementation -/
theorem heads_spec_bool {s : Sys} (hr : Reachable s) {r : Nat} {l : Log} (hl : s.logs r = some l) (x : Entry) :
    x ∈ l.heads ↔ x ∈ l.entries ∧ referenced l.entries x.hash = false := by
  rw [heads_spec hr hl x, ← referenced_iff]
  simp

theorem heads_nonempty {s : Sys} (hr : Reachable s) {r : Nat} {l : Log} (hl : s.logs r = some l)
    (hne : l.entries ≠ []) : l.heads ≠ [] :=
  Model.heads_nonempty ((reachable_inv hr).inv r l hl) hne

theorem heads_subset {s : Sys} (hr : Reachable s) {r : Nat} {l : Log} (hl : s.logs r = some l) :
    ∀ x ∈ l.heads, x ∈ l.entries := ((reachable_inv hr).inv r l hl).headsIn

theorem heads_no_duplicates {s : Sys} (hr : Reachable s) {r : Nat} {l : Log} (hl : s.logs r = some l) :
    (hashes l.heads).Nodup := ((reachable_inv hr).inv r l hl).headsNodup

/-- the heads the API returns (`Heads()`: sorted) are the same set -/
theorem sorted_heads_same {s : Sys} (hr : Reachable s) {r : Nat} {l : Log} (hl : s.logs r = some l) (x : Entry) :
    x ∈ sortedHeads l ↔ x ∈ l.heads := mem_sortedHeads ((reachable_inv hr).inv r l hl).headsNodup

end Model.C02
