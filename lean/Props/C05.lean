import Proofs.System
/-!
# C05 — the log is append-only: entries never change or vanish

For every reachable system and every operation (append, unbounded merge, identity change, new
replica).  Model values are immutable, so "entries held by other log instances are not altered" is
here the statement that a step changes only the target replica; the pointer-aliasing half of that
claim is carried by the harness (deep snapshots), see DESIGN.md.
-/
namespace Model.C05

/-- once in a log, an entry stays there, retrievable by its hash with identical content -/
theorem entry_preserved {s s' : Sys} (hr : Reachable s) {op : Op} (hstep : s.step op = some s')
    {r : Nat} {l : Log} (hl : s.logs r = some l) :
    ∃ l', s'.logs r = some l' ∧ ∀ e ∈ l.entries, e ∈ l'.entries ∧ get? l'.entries e.hash = some e := by
  have I := reachable_inv hr
  obtain ⟨l', hl', hsub, _, _⟩ := step_mono I hstep r l hl
  have I' := (sysInv_step I hstep).inv r l' hl'
  exact ⟨l', hl', fun e he => ⟨hsub e he, get?_eq_of_mem I'.nodup (hsub e he)⟩⟩

/-- the entry count never decreases -/
theorem len_mono {s s' : Sys} (hr : Reachable s) {op : Op} (hstep : s.step op = some s')
    {r : Nat} {l : Log} (hl : s.logs r = some l) :
    ∃ l', s'.logs r = some l' ∧ l.entries.length ≤ l'.entries.length := by
  have I := reachable_inv hr
  obtain ⟨l', hl', hsub, _, _⟩ := step_mono I hstep r l hl
  refine ⟨l', hl', ?_⟩
  have hnd := nodup_of_hashes_nodup (I.inv r l hl).nodup
  exact hnd.length_le_of_subset hsub

/-- each new linearised view contains the previous one as a subsequence (strict total order on the
    entries of the NEW state; see `lww_tie_counterexample` for why the premise is needed) -/
theorem values_subsequence_partial {s s' : Sys} (hr : Reachable s) {op : Op} (hstep : s.step op = some s')
    {r : Nat} {l : Log} (hl : s.logs r = some l) :
    ∃ l', s'.logs r = some l' ∧ (OrderOk l'.sortFn l'.entries → (values l).Sublist (values l')) := by
  have I := reachable_inv hr
  obtain ⟨l', hl', hsub, hk, _⟩ := step_mono I hstep r l hl
  have I' := sysInv_step I hstep
  have huni : ∀ x ∈ s.uni, x ∈ s'.uni := by
    intro x hx
    cases op with
    | newLog id cid k => simp only [Sys.step, Option.some.injEq] at hstep; subst hstep; exact hx
    | append r0 pc h tag =>
      simp only [Sys.step] at hstep
      cases hl0 : s.logs r0 with
      | none => rw [hl0] at hstep; cases hstep
      | some l0 =>
        rw [hl0] at hstep
        simp only at hstep
        by_cases hc : (hashes s.uni).contains h = true
        · rw [if_pos hc] at hstep; cases hstep
        · rw [if_neg hc] at hstep
          simp only [Option.some.injEq] at hstep
          subst hstep
          exact List.mem_append_left _ hx
    | join r0 r2 =>
      simp only [Sys.step] at hstep
      cases ha : s.logs r0 with
      | none => rw [ha] at hstep; simp at hstep
      | some a =>
        cases hb : s.logs r2 with
        | none => rw [ha, hb] at hstep; simp at hstep
        | some b =>
          rw [ha, hb] at hstep
          simp only at hstep
          by_cases hrr : r0 = r2
          · simp only [hrr, if_true, Option.some.injEq] at hstep; subst hstep; exact hx
          · simp only [hrr, if_false] at hstep
            cases hj : join a b.id b.entries b.heads (-1) with
            | ok l2 => rw [hj] at hstep; simp only [Option.some.injEq] at hstep; subst hstep; exact hx
            | err => rw [hj] at hstep; simp only [Option.some.injEq] at hstep; subst hstep; exact hx
    | setIdentity r0 cid =>
      simp only [Sys.step] at hstep
      cases hl0 : s.logs r0 with
      | none => rw [hl0] at hstep; cases hstep
      | some l0 => rw [hl0] at hstep; simp only [Option.some.injEq] at hstep; subst hstep; exact hx
    | rebuild src cid ents wh =>
      obtain ⟨l0, _, _, rfl⟩ := rebuild_step hstep
      exact hx
  refine ⟨l', hl', fun ho' => ?_⟩
  exact values_sublist (inv_mono_universe huni (I.inv r l hl)) (I'.inv r l' hl') hk.symm ho' hsub

/-- appends and merges change only the replica they are applied to -/
theorem other_logs_untouched {s s' : Sys} {op : Op} (hstep : s.step op = some s') (r : Nat)
    (hr : match op with
      | .newLog _ _ _ => r ≠ s.n
      | .append r0 _ _ _ => r ≠ r0
      | .join r0 _ => r ≠ r0
      | .setIdentity r0 _ => r ≠ r0
      | .rebuild _ _ _ _ => r ≠ s.n) : s'.logs r = s.logs r := by
  cases op with
  | newLog id cid k =>
    simp only [Sys.step, Option.some.injEq] at hstep; subst hstep
    exact upd_other _ _ _ _ hr
  | append r0 pc h tag =>
    simp only [Sys.step] at hstep
    cases hl0 : s.logs r0 with
    | none => rw [hl0] at hstep; cases hstep
    | some l0 =>
      rw [hl0] at hstep
      simp only at hstep
      by_cases hc : (hashes s.uni).contains h = true
      · rw [if_pos hc] at hstep; cases hstep
      · rw [if_neg hc] at hstep
        simp only [Option.some.injEq] at hstep
        subst hstep
        exact upd_other _ _ _ _ hr
  | join r0 r2 =>
    simp only [Sys.step] at hstep
    cases ha : s.logs r0 with
    | none => rw [ha] at hstep; simp at hstep
    | some a =>
      cases hb : s.logs r2 with
      | none => rw [ha, hb] at hstep; simp at hstep
      | some b =>
        rw [ha, hb] at hstep
        simp only at hstep
        by_cases hrr : r0 = r2
        · simp only [hrr, if_true, Option.some.injEq] at hstep; subst hstep; rfl
        · simp only [hrr, if_false] at hstep
          cases hj : join a b.id b.entries b.heads (-1) with
          | ok l2 =>
            rw [hj] at hstep; simp only [Option.some.injEq] at hstep; subst hstep
            exact upd_other _ _ _ _ hr
          | err => rw [hj] at hstep; simp only [Option.some.injEq] at hstep; subst hstep; rfl
  | setIdentity r0 cid =>
    simp only [Sys.step] at hstep
    cases hl0 : s.logs r0 with
    | none => rw [hl0] at hstep; cases hstep
    | some l0 =>
      rw [hl0] at hstep; simp only [Option.some.injEq] at hstep; subst hstep
      exact upd_other _ _ _ _ hr
  | rebuild src cid ents wh =>
    obtain ⟨l0, _, _, rfl⟩ := rebuild_step hstep
    exact upd_other _ _ _ _ hr

/-! ### why the strict-total-order premise is needed (known finding `lww-tie-order`)

Under the default ordering two distinct entries of one writer with the same clock time compare as
"after" in BOTH directions, so their relative order depends on the order in which the sort meets
them.  The history below (one writer on two replicas) makes the linearisation of replica 0 go from
`[1, 2, 3]`-style order to one in which two tied entries have swapped: the previous view is NOT a
subsequence of the next.  The same history is replayed on the implementation by the harness. -/
def w : Bytes := [4, 1]
def tieOps : List Op :=
  [.newLog [88] w .lww, .newLog [88] w .lww, .append 0 0 [1] 0, .append 1 0 [2] 0, .join 0 1]
def tieOps2 : List Op := tieOps ++ [.append 1 0 [3] 0, .join 1 0, .append 1 0 [4] 0, .join 0 1]

def valuesAt (ops : List Op) (r : Nat) : List Hash :=
  match Sys.init.run ops with
  | some s => match s.logs r with
    | some l => (values l).map (·.hash)
    | none => []
  | none => []

/-- the witness: after one more append the two tied entries have swapped -/
example : valuesAt tieOps 0 = [[1], [2]] ∧ valuesAt (tieOps ++ [.append 0 0 [3] 0]) 0 = [[2], [1], [3]] := by decide

example : isSubseq (valuesAt tieOps 0) (valuesAt (tieOps ++ [.append 0 0 [3] 0]) 0) = false := by decide

end Model.C05
