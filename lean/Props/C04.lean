import Proofs.RefsBound
/-!
# C04 — every appended entry dominates the log it was appended to

For every replica of every reachable system (any history of appends and merges before the append,
any writer) and every pointer count (`pc : Int`, including 0 = default and negatives).
`(append l pc h tag).1` is the entry `Append` returns, `.2` the log afterwards.
-/
namespace Model.C04

/-- the predecessors are exactly the current heads (as a list: the sorted heads, reversed) -/
theorem next_is_heads {s : Sys} (hr : Reachable s) {r : Nat} {l : Log} (hl : s.logs r = some l)
    (pc : Int) (h : Hash) (tag : Nat) :
    (∀ n, n ∈ (append l pc h tag).1.next ↔ n ∈ hashes l.heads) ∧
    (append l pc h tag).1.next = (hashes (sortedHeads l)).reverse ∧
    ((append l pc h tag).1.next).Nodup := by
  have I := (reachable_inv hr).inv r l hl
  refine ⟨fun n => mem_appendPlan_next I.headsNodup pc, appendPlan_next_eq I.headsNodup pc, ?_⟩
  show ((appendPlan l pc).next).Nodup
  rw [appendPlan_next_eq I.headsNodup pc]
  exact (List.reverse_perm _).nodup_iff.mpr (sortedHeads_nodup I.headsNodup)

/-- the clock id is the log's clock id — the writer's public key (`NewLog`/`SetIdentity` set it) -/
theorem clock_id_is_writer (l : Log) (pc : Int) (h : Hash) (tag : Nat) :
    (append l pc h tag).1.clock.id = l.clock.id := rfl

theorem newLog_clock_id (id cid : Bytes) (k : SortKind) : (emptyLog id cid k).clock.id = cid := rfl
theorem setIdentity_clock_id (l : Log) (cid : Bytes) : (setIdentity l cid).clock.id = cid := rfl

/-- the clock time is strictly greater than that of every entry already in the log (including
    entries merged in from other writers) -/
theorem time_dominates {s : Sys} (hr : Reachable s) {r : Nat} {l : Log} (hl : s.logs r = some l)
    (pc : Int) (h : Hash) (tag : Nat) :
    ∀ x ∈ l.entries, x.clock.time < (append l pc h tag).1.clock.time :=
  fun x hx => appendPlan_time_gt ((reachable_inv hr).inv r l hl) pc x hx

/-- the new entry becomes the log's single head -/
theorem single_head (l : Log) (pc : Int) (h : Hash) (tag : Nat) :
    (append l pc h tag).2.heads = [(append l pc h tag).1] := by
  show omFromList [(append l pc h tag).1] = [(append l pc h tag).1]
  simp [omFromList, omSet]

/-- the skip references are entries of the log (hence of the new entry's causal past, which is the
    whole log), distinct from the predecessors, without duplicates -/
theorem refs_in_past {s : Sys} (hr : Reachable s) {r : Nat} {l : Log} (hl : s.logs r = some l)
    (pc : Int) (h : Hash) (tag : Nat) :
    (∀ x ∈ (append l pc h tag).1.refs, x ∈ hashes l.entries ∧ x ∉ (append l pc h tag).1.next) ∧
    ((append l pc h tag).1.refs).Nodup :=
  appendPlan_refs ((reachable_inv hr).inv r l hl) pc

/-- every entry of the log is in the causal past of the new entry: it lies below one of the heads
    the new entry names -/
theorem whole_log_in_past {s : Sys} (hr : Reachable s) {r : Nat} {l : Log} (hl : s.logs r = some l)
    (pc : Int) (h : Hash) (tag : Nat) (x : Entry) (hx : x ∈ l.entries) :
    ∃ hd ∈ l.heads, hd.hash ∈ (append l pc h tag).1.next ∧ Desc l.entries hd x := by
  have I := (reachable_inv hr).inv r l hl
  obtain ⟨hd, hhd, hdesc⟩ := every_entry_below_some_head I x hx
  exact ⟨hd, hhd, (mem_appendPlan_next I.headsNodup pc).mpr (List.mem_map.mpr ⟨hd, hhd, rfl⟩), hdesc⟩

/-- the skip references are at most logarithmic in the requested pointer count:
    `⌊log₂ (max pc 1)⌋ + 1` (0 = default pointer count 1; negative counts give no references) -/
theorem refs_logarithmic {s : Sys} (hr : Reachable s) {r : Nat} {l : Log} (hl : s.logs r = some l)
    (pc : Int) (h : Hash) (tag : Nat) :
    (append l pc h tag).1.refs.length ≤ Nat.log2 (max pc 1).toNat + 1 :=
  appendPlan_refs_length ((reachable_inv hr).inv r l hl) pc

end Model.C04
