import Proofs.Codec
/-!
# C18 — with a link key, stored blocks never reveal the log's structure

`storedView C cidStr (some k) e` is what `CreateEntryWithIO` stores for an entry created through a
codec with link key `k`: `PreSign` (seal the CBOR of the links under a nonce derived from the entry,
put ciphertext and nonce in the additional data), then `Write` (`Normalize`, `ToJsonableEntry`,
`cbornode.WrapObject`).  `LinkEntry e` collects what is assumed of the entry: version ≥ 2 (what
`CreateEntry` sets), at least one link, a clock, byte-valued fields, defined links that fit the heads.
`CryptoLaws C` are the ideal laws of secretbox/SHA3 for 32-byte keys (`keyOk`).

Proved: the clear-text part.  The stored value has empty `next`/`refs`, and its block contains no
IPLD link (tag 42) at all — `cborEntry` emits tag 42 only for elements of those two lists.  That the
ciphertext does not *reveal* the identifiers is the confidentiality of secretbox: assumed, and checked
on real bytes by the `codec` stream (binary and string forms of every link searched in the block).
-/
namespace Model.C18
open Model Model.Cbor Model.Codec

/-- the stored value has no predecessor and no reference -/
theorem stored_links_empty (C : Crypto) (cidStr : Bytes → Bytes) (k : Bytes) (e : PEntry) (h : LinkEntry e) :
    ∃ j, storedView C cidStr (some k) e = .ok (.v2 j) ∧ j.next = some [] ∧ j.refs = some [] := by
  obtain ⟨ref, _, hs⟩ := storedView_eq C cidStr k e h
  exact ⟨_, hs, rfl, rfl⟩

/-- the stored block contains no IPLD link: nothing a block store could traverse -/
theorem stored_no_tag42 (C : Crypto) (cidStr : Bytes → Bytes) (k : Bytes) (e : PEntry) (h : LinkEntry e) :
    ∃ j, storedView C cidStr (some k) e = .ok (.v2 j) ∧ hasTag42 (entryItem j) = false := by
  obtain ⟨ref, _, hs⟩ := storedView_eq C cidStr k e h
  refine ⟨_, hs, ?_⟩
  rw [hasTag42_entryItem]
  simp [storedJ, lenOpt]

/-- in general a block carries tag 42 exactly when it has a clear-text link -/
theorem tag42_iff_links (j : JEntry) :
    hasTag42 (entryItem j) = (decide (lenOpt j.next ≠ 0) || decide (lenOpt j.refs ≠ 0)) :=
  hasTag42_entryItem j

/-- a reader holding the same key recovers identical predecessor and reference lists -/
theorem same_key_recovers (C : Crypto) (L : CryptoLaws C) (cidStr : Bytes → Bytes) (k : Bytes) (hk : keyOk k)
    (e : PEntry) (h : LinkEntry e) :
    ∃ j j', storedView C cidStr (some k) e = .ok (.v2 j) ∧ decryptLinks C (some k) j = .ok j' ∧
      j'.next = uniqOpt e.next ∧ j'.refs = uniqOpt e.refs := by
  obtain ⟨ref, _, hs⟩ := storedView_eq C cidStr k e h
  exact ⟨_, _, hs, decryptLinks_same_key C L k ref e hk h.hwfN h.hwfR h.hbN h.hbR, rfl, rfl⟩

/-- `uniqueCIDs` only removes repetitions: on lists without repetition (what `Append` builds) the
    recovered lists are the original ones -/
theorem uniq_of_nodup (l : List Bytes) (h : l.Nodup) : uniq l = l := by
  induction l with
  | nil => rfl
  | cons a t ih =>
    obtain ⟨h1, h2⟩ := List.nodup_cons.mp h
    simp only [uniq, ih h2]
    congr 1
    apply List.filter_eq_self.mpr
    intro x hx
    simp only [bne_iff_ne, ne_eq]
    intro hxa
    exact h1 (hxa ▸ hx)

/-- a reader without key obtains no links from the block -/
theorem no_key_no_links (C : Crypto) (cidStr : Bytes → Bytes) (k : Bytes) (e : PEntry) (h : LinkEntry e) (hh : Bytes) :
    ∃ j e', storedView C cidStr (some k) e = .ok (.v2 j) ∧ decodeJEntry C none hh j = .ok e' ∧
      e'.next = some [] ∧ e'.refs = some [] := by
  obtain ⟨ref, _, hs⟩ := storedView_eq C cidStr k e h
  have := toPlain_storedJ_links C k ref e h.henc (some []) (some [])
  have e1 : ({ storedJ C k ref e with next := some [], refs := some [] } : JEntry) = storedJ C k ref e := rfl
  rw [e1] at this
  refine ⟨_, { e with next := some [], refs := some [], hash := some hh, add := [] }, hs, ?_, rfl, rfl⟩
  simp only [decodeJEntry, decryptLinks_no_key, Outcome.bind, this]

/-- a reader with a different key obtains an error (hence no entry, no links) -/
theorem other_key_error (C : Crypto) (L : CryptoLaws C) (cidStr : Bytes → Bytes) (k k' : Bytes) (hk : keyOk k)
    (hk' : keyOk k') (hne : k ≠ k') (e : PEntry) (h : LinkEntry e) (hh : Bytes) :
    ∃ j, storedView C cidStr (some k) e = .ok (.v2 j) ∧ decodeJEntry C (some k') hh j = .err .decrypt := by
  obtain ⟨ref, _, hs⟩ := storedView_eq C cidStr k e h
  refine ⟨_, hs, ?_⟩
  simp [decodeJEntry, decryptLinks_other_key C L k k' ref e hk hk' hne h.hwfN h.hwfR h.hbN h.hbR, Outcome.bind]

/-- the entry read back with the same key verifies exactly when the created entry does: `PreSign`
    reproduces the same additional data, so the signed bytes are the same (`sigOk` is the signature
    check on the hashable value; the entry carries no other additional data) -/
theorem verify_after_read (C : Crypto) (cidStr : Bytes → Bytes) (k : Bytes) (sigOk : Hashable → Bytes → Bytes → Bool)
    (e : PEntry) (hh : Bytes) (h : LinkEntry e) (hadd : e.add = []) :
    opVerify C cidStr (some k) sigOk (readBack e hh) = opVerify C cidStr (some k) sigOk e :=
  verify_readBack C cidStr k sigOk e hh h hadd

/-- caveat made explicit: the version-1 struct has no encrypted-link fields, so an entry written
    with `V = 1` through `ToMultihashWithIO` keeps its links in clear even under a link key
    (`CreateEntryWithIO` always sets `V = 2`, so the library itself never does this) -/
theorem v1_links_in_clear (cidStr : Bytes → Bytes) (e : PEntry) (hv : e.v = 1) (h : e.encodable) :
    ∃ j, jsonOf cidStr e = .ok (.v1 j) ∧ j.next = e.next :=
  ⟨_, jsonOf_v1 cidStr e hv h, rfl⟩

/-! ### the hypotheses are satisfiable -/

/-- a toy cipher that meets `CryptoLaws`: the ciphertext is key ++ message -/
def toyCrypto : Crypto :=
  { sealBox := fun k _ m => k ++ m
    openBox := fun k _ c => if c.take 32 = k then some (c.drop 32) else none
    deriveNonce := fun _ => [0] }

theorem toyCrypto_laws : CryptoLaws toyCrypto where
  open_seal := by
    intro k n m hk
    have h1 : (k ++ m).take 32 = k := by rw [← hk.1]; simp
    have h2 : (k ++ m).drop 32 = m := by rw [← hk.1]; simp
    simp [toyCrypto, h1, h2]
  wrong_key := by
    intro k k' n m hk _ hne
    have h1 : (k ++ m).take 32 = k := by rw [← hk.1]; simp
    simp [toyCrypto, h1, hne]
  seal_bytes := by
    intro k n m hk hm
    simp [toyCrypto, isBytes_append, hk.2, hm]
  seal_ne := by
    intro k n m hk
    have : k ≠ [] := by intro h; have := hk.1; simp [h] at this
    simp [toyCrypto, this]
  nonce_bytes := by intro x; simp [toyCrypto, isBytes]
  nonce_ne := by intro x; simp [toyCrypto]

def sampleEntry : PEntry :=
  { payload := [104, 255, 0], logId := [65], next := some [[1, 113, 18, 1, 7], [1, 113, 18, 1, 7], [1, 113, 18, 2]],
    refs := some [[1, 113, 18, 3]], v := 2, key := [4, 200], sig := [48, 1], clock := some { id := [4, 200], time := 5 } }

theorem sample_linkEntry : LinkEntry sampleEntry where
  hv := by decide
  hlinks := by decide
  henc := ⟨by decide, by decide, ⟨_, rfl, by decide⟩, fun i hi => by simp [sampleEntry] at hi⟩
  hdefN := by decide
  hdefR := by decide
  hwfN := ⟨by decide, by decide⟩
  hwfR := ⟨by decide, by decide⟩
  hbN := by intro c hc; simp at hc; rcases hc with rfl | rfl <;> decide
  hbR := by intro c hc; simp at hc; subst hc; decide

def sampleKey : Bytes := List.replicate 32 7

theorem sampleKey_ok : keyOk sampleKey := ⟨by decide, by decide⟩

example : ∃ j j', storedView toyCrypto id (some sampleKey) sampleEntry = .ok (.v2 j) ∧
    decryptLinks toyCrypto (some sampleKey) j = .ok j' ∧
    j'.next = some [[1, 113, 18, 1, 7], [1, 113, 18, 2]] ∧ j'.refs = some [[1, 113, 18, 3]] := by
  obtain ⟨j, j', a, b, c, d⟩ := same_key_recovers toyCrypto toyCrypto_laws id sampleKey sampleKey_ok sampleEntry sample_linkEntry
  exact ⟨j, j', a, b, c.trans (by decide), d.trans (by decide)⟩

end Model.C18
