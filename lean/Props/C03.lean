import Proofs.System
/-!
# C03 — `Values()` is a complete, duplicate-free, causally ordered linearisation

For every replica of every reachable system, whenever the configured ordering is a strict total
order on the entries present (`OrderOk`: always for the hash tie-break, for the default ordering when
no two distinct entries carry the same clock id and time).
-/
namespace Model.C03

/-- each entry exactly once -/
theorem values_complete {s : Sys} (hr : Reachable s) {r : Nat} {l : Log} (hl : s.logs r = some l)
    (ho : OrderOk l.sortFn l.entries) : (values l).Perm l.entries ∧ (values l).Nodup :=
  ⟨values_perm ((reachable_inv hr).inv r l hl) ho, values_nodup ((reachable_inv hr).inv r l hl) ho⟩

/-- every entry comes after all of its predecessors that are in the log -/
theorem values_causal {s : Sys} (hr : Reachable s) {r : Nat} {l : Log} (hl : s.logs r = some l)
    (ho : OrderOk l.sortFn l.entries) : (values l).Pairwise (fun a b => b.hash ∉ a.next) :=
  Model.values_causal ((reachable_inv hr).inv r l hl) ho

/-- sorted by the configured ordering -/
theorem values_sorted {s : Sys} (hr : Reachable s) {r : Nat} {l : Log} (hl : s.logs r = some l)
    (ho : OrderOk l.sortFn l.entries) : (values l).Pairwise (fun a b => before l.sortFn b a = true) :=
  Model.values_sorted ((reachable_inv hr).inv r l hl) ho

/-- hence it depends only on which entries the log holds, not on the order in which they arrived -/
theorem values_depend_on_set_only {s₁ s₂ : Sys} (h₁ : Reachable s₁) (h₂ : Reachable s₂) {U : List Entry}
    (hU₁ : ∀ x ∈ s₁.uni, x ∈ U) (hU₂ : ∀ x ∈ s₂.uni, x ∈ U)
    {r₁ r₂ : Nat} {a b : Log} (ha : s₁.logs r₁ = some a) (hb : s₂.logs r₂ = some b)
    (hk : a.sortFn = b.sortFn) (ho : OrderOk a.sortFn a.entries) (hE : a.entries.Perm b.entries) :
    values a = values b :=
  values_fn_of_set (inv_mono_universe hU₁ ((reachable_inv h₁).inv r₁ a ha))
    (inv_mono_universe hU₂ ((reachable_inv h₂).inv r₂ b hb)) hk ho hE

end Model.C03
