import Generated.GenTraverse
import Props.GenCommon
import Props.C19Gen
/-!
# Props.GenTraverse — `IPFSLog.traverse` (log.go) = `travLoop` / `traverseG` (the `for cond` loop is a recursion on fuel)

`Generated/GenTraverse.lean` is produced on every run by `harness/cmd/extract/translate2.go` from the Go source; the
theorems identify it with the hand-written model the property theorems are about.
-/
namespace Model.SlicesGen
open Model Model.Go Model.Codec

theorem inner_eq (E : List Entry) : ∀ (cs : List Hash) (stack : List Entry) (trav traversed : List Hash) (m : Bool),
    SameSet traversed trav →
    let g := cs.foldl (fun (x : List Entry × List Hash × Bool) c =>
      if (!(get? E c).isSome) = true then (x.1, x.2.1, x.2.2)
      else if x.2.1.contains ((get? E c).getD default).hash = true then (x.1, x.2.1, x.2.2)
      else ([(get? E c).getD default] ++ x.1, setInsert x.2.1 ((get? E c).getD default).hash, true)) (stack, traversed, m)
    let r := pushNexts E cs (stack, trav, m)
    g.2.2 = r.2.2 ∧ g.1 = r.1 ∧ SameSet g.2.1 r.2.1 := by
  intro cs
  induction cs with
  | nil => intro stack trav traversed m hs; exact ⟨rfl, rfl, hs⟩
  | cons c cs ih =>
    intro stack trav traversed m hs
    simp only [List.foldl_cons, pushNexts]
    cases hg : get? E c with
    | none => simpa using ih stack trav traversed m hs
    | some n =>
      simp only [Option.isSome_some, Bool.not_true, Bool.false_eq_true, if_false, Option.getD_some]
      rw [hs n.hash]
      by_cases hc : trav.contains n.hash = true
      · simp only [hc, if_true]; exact ih stack trav traversed m hs
      · simp only [hc, Bool.false_eq_true, if_false]
        exact ih (n :: stack) (n.hash :: trav) (setInsert traversed n.hash) true (sameSet_insert hs n.hash)

theorem loop_eq (E : List Entry) (lt : Entry → Entry → Bool) (roots : List Entry) (amount : Int) (ehs : Hash) :
    ∀ (fuel : Nat) (stack : List Entry) (trav traversed : List Hash) (res : List Entry) (count : Int),
      SameSet traversed trav →
      (Generated.Go.traverse_loop1 E lt roots amount ehs fuel (stack, traversed, res, count)).2.2.1 =
        travLoop E lt amount (some ehs) fuel stack trav res count := by
  intro fuel
  induction fuel with
  | zero => intro stack trav traversed res count _; cases stack <;> rfl
  | succ fuel ih =>
    intro stack trav traversed res count hs
    cases stack with
    | nil => simp [Generated.Go.traverse_loop1, travLoop]
    | cons e rest =>
      unfold Generated.Go.traverse_loop1 travLoop
      have hlen : decide (((e :: rest).length : Int) > 0) = true := by simp
      by_cases hc : amount < 0 ∨ count < amount
      · have hc' : (decide (amount < 0) || decide (count < amount)) = true := by
          rcases hc with h | h <;> simp [h]
        simp only [hlen, hc', Bool.and_self, if_true, hc]
        by_cases he : e.hash = ehs
        · simp [he]
        · have he' : (e.hash == ehs) = false := by simpa using he
          have he'' : ¬ (some ehs = some e.hash) := by intro h; exact he (Option.some.inj h).symm
          simp only [he', Bool.false_eq_true, if_false, he'']
          have hin := inner_eq E e.next rest (e.hash :: trav) (setInsert traversed e.hash) false (sameSet_insert hs e.hash)
          simp only at hin
          obtain ⟨h1, h2, h3⟩ := hin
          rw [h1, h2]
          exact ih _ _ _ _ _ h3
      · have hc' : (decide (amount < 0) || decide (count < amount)) = false := by
          have : ¬ amount < 0 ∧ ¬ count < amount := by
            constructor <;> (intro h; exact hc (by first | exact Or.inl h | exact Or.inr h))
          simp [this.1, this.2]
        simp [hlen, hc', hc]

theorem traverse_eq_some (fuel : Nat) (E : List Entry) (lt : Entry → Entry → Bool) (roots : List Entry) (amount : Int) (ehs : Hash) :
    Generated.Go.traverse fuel E lt roots amount ehs =
      some (travLoop E lt amount (some ehs) fuel (goSort lt roots) [] [] 0) := by
  unfold Generated.Go.traverse
  simp only [Bool.false_eq_true, if_false]
  rw [loop_eq E lt roots amount ehs fuel (goSort lt roots) [] [] [] 0 (fun _ => rfl)]

theorem pushNexts_mem (E : List Entry) : ∀ (cs : List Hash) (stack : List Entry) (trav : List Hash) (m : Bool) (x : Entry),
    x ∈ (pushNexts E cs (stack, trav, m)).1 → x ∈ stack ∨ x ∈ E := by
  intro cs
  induction cs with
  | nil => intro stack trav m x hx; exact Or.inl hx
  | cons c cs ih =>
    intro stack trav m x hx
    simp only [pushNexts] at hx
    cases hg : get? E c with
    | none => rw [hg] at hx; exact ih stack trav m x hx
    | some n =>
      rw [hg] at hx
      simp only at hx
      by_cases hc : trav.contains n.hash = true
      · rw [if_pos hc] at hx; exact ih stack trav m x hx
      · rw [if_neg hc] at hx
        rcases ih (n :: stack) (n.hash :: trav) true x hx with h | h
        · rcases List.mem_cons.mp h with h | h
          · right; rw [h]; exact List.mem_of_find?_eq_some hg
          · exact Or.inl h
        · exact Or.inr h

theorem travLoop_nil_none (E : List Entry) (lt : Entry → Entry → Bool) (amount : Int) (hE : ∀ e ∈ E, e.hash ≠ []) :
    ∀ (fuel : Nat) (stack : List Entry) (trav : List Hash) (res : List Entry) (count : Int),
      (∀ e ∈ stack, e.hash ≠ []) →
      travLoop E lt amount (some []) fuel stack trav res count = travLoop E lt amount none fuel stack trav res count := by
  intro fuel
  induction fuel with
  | zero => intro stack trav res count _; cases stack <;> rfl
  | succ fuel ih =>
    intro stack trav res count hst
    cases stack with
    | nil => rfl
    | cons e rest =>
      unfold travLoop
      have he : ¬ (some ([] : Hash) = some e.hash) := by
        intro h; exact hst e List.mem_cons_self (Option.some.inj h).symm
      simp only [he, if_false, reduceCtorEq]
      split
      · apply ih
        intro x hx
        have hx' : x ∈ (pushNexts E e.next (rest, e.hash :: trav, false)).1 := by
          split at hx
          · exact mem_goSort' hx
          · exact hx
        rcases pushNexts_mem E e.next rest (e.hash :: trav) false x hx' with h | h
        · exact hst x (List.mem_cons_of_mem _ h)
        · exact hE x h
      · rfl

/-- **`IPFSLog.traverse`, translated, is the model's traversal.**  `""` as end hash is the model's `none`
    when no entry has the empty hash (hashes are CIDs). -/
theorem traverse_eq (E : List Entry) (lt : Entry → Entry → Bool) (roots : List Entry) (amount : Int) (eh : Option Hash)
    (hne : eh = none → (∀ e ∈ E, e.hash ≠ []) ∧ (∀ e ∈ roots, e.hash ≠ [])) :
    Generated.Go.traverse (traverseFuel E roots) E lt roots amount (eh.getD []) =
      some (traverseG E lt roots amount eh) := by
  rw [traverse_eq_some]
  unfold traverseG
  cases eh with
  | some h => rfl
  | none =>
    obtain ⟨h1, h2⟩ := hne rfl
    show some (travLoop E lt amount (some []) _ _ [] [] 0) = _
    rw [travLoop_nil_none E lt amount h1]
    intro e he
    exact h2 e (mem_goSort.mp he)

end Model.SlicesGen
