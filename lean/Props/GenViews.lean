import Generated.GenViews
import Props.GenTraverse
/-!
# Props.GenViews — the view functions of the log, translated: `values`, `ToJSONLog`, `ToSnapshot`, `Heads` (log.go)

`Generated/GenViews.lean` is produced on every run by `harness/cmd/extract/translate2.go`; the theorems identify it
with what the model (and the correspondence driver, `Driver/Core.lean`) takes the three views to be:
`Model.values`, `Model.jsonHeads`, and the pair (hashes of the heads in map order, `Model.values`).
`none` stands for a run-time panic (`values` ignores the error of `traverse` and calls a method on its nil result):
the theorems show it does not happen.
-/
namespace Model.SlicesGen
open Model Model.Go

theorem hashes_fold (l : List Entry) : ∀ (acc : List Hash),
    l.foldl (fun hs e => hs ++ [e.hash]) acc = acc ++ hashes l := by
  unfold hashes
  induction l with
  | nil => intro acc; simp
  | cons e t ih => intro acc; simp [ih]

/-- **`IPFSLog.values`, translated, is the model's `values`** (hashes are CIDs: none is the empty string) -/
theorem values_eq (l : Log) (hE : ∀ e ∈ l.entries, e.hash ≠ []) (hH : ∀ e ∈ l.heads, e.hash ≠ []) :
    Generated.Go.values (traverseFuel l.entries l.heads) l.entries (before l.sortFn) l.heads = some (Model.values l) := by
  have htr := traverse_eq l.entries (before l.sortFn) l.heads (-1) none (fun _ => ⟨hE, hH⟩)
  simp only [Option.getD_none] at htr
  unfold Generated.Go.values
  simp only [htr]
  rfl

/-- **`ToJSONLog`, translated**: the hashes of the heads, sorted newest first -/
theorem toJSONLog_eq (l : Log) :
    Generated.Go.toJSONLog l.entries (before l.sortFn) l.heads = jsonHeads l := by
  unfold Generated.Go.toJSONLog jsonHeads
  simp only [gohelper, hashes_fold, List.nil_append]
  try rfl

/-- **`Heads()`, translated**: the heads sorted newest first (`Model.sortedHeads`) -/
theorem heads_eq (l : Log) : Generated.Go.heads l.entries (before l.sortFn) l.heads = sortedHeads l := rfl

/-- **`ToSnapshot`, translated**: the head hashes in map order and the linearisation -/
theorem toSnapshot_eq (l : Log) (hE : ∀ e ∈ l.entries, e.hash ≠ []) (hH : ∀ e ∈ l.heads, e.hash ≠ []) :
    Generated.Go.toSnapshot (traverseFuel l.entries l.heads) l.entries (before l.sortFn) l.heads =
      some (hashes l.heads, Model.values l) := by
  unfold Generated.Go.toSnapshot
  simp only [values_eq l hE hH, gohelper, hashes_fold, List.nil_append]

end Model.SlicesGen
