import Props.GenCapstoneJoin
import Props.GenCapstoneAppend
import Props.GenCapstoneViews
import Props.GenCapstoneRebuild
import Props.GenCapstoneIter
import Props.GenCapstoneBounded
import Proofs.System
/-!
# Props.GenCapstoneSystem — every history of the TRANSLATED operations

`TReach U L`: the replicas `L` (with the universe `U` of entries created so far) are what some finite history of
operations leaves, where each operation is performed **by the code as translated from the Go source**: an `Append`
is the translated plan followed by the translated tail (the created entry gets a fresh non-empty CID; lists
de-duplicated by the translated `uniqueCIDs`), a `Join` is the translated `difference` followed by the translated
tail of `Join`, a `SetIdentity` is the translated clock update, a load (`NewFromJSON` of a replica's entries as some complete fetch delivered them, any order) is the
translated glue of `fromJSON` followed by the translated core of `NewLog` and adds a replica.  The constructors only say "the translated function returned this"; nothing of the hand-written
model appears in them except the fuel and the ordering function the log is configured with.

`treach_inv`: after any such history every replica satisfies the structural invariant, all have one id, hashes are
distinct and non-empty.  `translated_system_snapshot`: hence the translated `ToSnapshot` of any replica of any
reachable state returns, without panicking, heads that are exactly the unreferenced entries and values that hold
every entry exactly once, causally ordered and sorted (C01 safety part, C02, C03, C05 on the generated code; the
hypothesis on the ordering is the one of C03: a strict total order on the entries present).
-/
namespace Model.Capstone
open Model Model.Go Model.SlicesGen

structure TInv (U : List Entry) (L : List Log) : Prop where
  uNodup : (hashes U).Nodup
  uNe : ∀ e ∈ U, e.hash ≠ []
  inv : ∀ l ∈ L, Inv U l
  sameId : ∀ a ∈ L, ∀ b ∈ L, a.id = b.id

inductive TReach : List Entry → List Log → Prop
  | init (L : List Log) (id : Bytes) (h : ∀ l ∈ L, ∃ cid k, l = emptyLog id cid k) : TReach [] L
  | append {U : List Entry} {L : List Log} (r : TReach U L) (i : Nat) (l : Log) (hl : L[i]? = some l)
      (ho : OrderOk l.sortFn l.entries) (pc : Int) (h : Hash) (tag : Nat) (hf : h ∉ hashes U) (hne : h ≠ [])
      (next refs : List Hash) (t : Int) (E' : List Entry) (N' : List Hash) (H' : List Entry)
      (hp : Generated.Go.appendPlan (traverseFuel l.entries (sortedHeads l)) l.entries (before l.sortFn) l.heads
              l.clock.id l.clock.time pc = some (next, refs, l.clock.id, t))
      (ht : Generated.Go.appendTail l.entries l.nextIdx l.heads (createdEntry l h tag next refs t) next = some (E', N', H')) :
      TReach (U ++ [createdEntry l h tag next refs t])
        (L.set i { l with entries := E', nextIdx := N', heads := H', clock := ⟨l.clock.id, t⟩ })
  | join {U : List Entry} {L : List Log} (r : TReach U L) (i j : Nat) (A B : Log) (hA : L[i]? = some A) (hB : L[j]? = some B)
      (cands E' : List Entry) (N' : List Hash) (H' : List Entry) (t : Int)
      (hd : Generated.Go.logDifference (diffFuel B.entries B.heads) B.entries B.heads A.entries A.id = some cands)
      (ht : Generated.Go.joinTail (fun E H => values { A with entries := E, heads := H })
              A.entries A.nextIdx A.heads A.clock.id A.clock.time cands B.heads (-1) = some (A.clock.id, t, E', N', H')) :
      TReach U (L.set i { A with entries := E', nextIdx := N', heads := H', clock := ⟨A.clock.id, t⟩ })

  | setIdentity {U : List Entry} {L : List Log} (r : TReach U L) (i : Nat) (l : Log) (hl : L[i]? = some l) (cid : Bytes)
      (cid' : Bytes) (t' : Int)
      (hs : Generated.Go.setIdentity l.heads l.clock.id l.clock.time cid = (cid', t')) :
      TReach U (L.set i { l with clock := ⟨cid', t'⟩ })
  | load {U : List Entry} {L : List Log} (r : TReach U L) (l : Log) (hl : l ∈ L) (fetched : List Entry)
      (hnd : (hashes fetched).Nodup) (hin : ∀ e ∈ fetched, e ∈ U)
      (hset : ∀ h, h ∈ hashes fetched ↔ h ∈ hashes l.entries) (cid : Bytes)
      (ents : List Entry) (t : Int) (H : List Entry) (N : List Hash)
      (hf : Generated.Go.fromJSONTail none fetched = some ents)
      (hn : Generated.Go.newLogCore none [] ents = (t, H, N)) :
      TReach U (L ++ [{ id := l.id, entries := ents, heads := H, nextIdx := N, clock := ⟨cid, t⟩, sortFn := l.sortFn }])

theorem mem_set_cases {α : Type} {L : List α} {i : Nat} {v x : α} (hx : x ∈ L.set i v) : x = v ∨ x ∈ L := by
  rcases List.mem_or_eq_of_mem_set hx with h | h
  · exact Or.inr h
  · exact Or.inl h

theorem treach_inv {U : List Entry} {L : List Log} (r : TReach U L) : TInv U L := by
  induction r with
  | init L id h =>
    refine ⟨List.nodup_nil, (fun _ he => by cases he), ?_, ?_⟩
    · intro l hl
      obtain ⟨cid, k, rfl⟩ := h l hl
      exact inv_emptyLog _ _ _ _
    · intro a ha b hb
      obtain ⟨c1, k1, rfl⟩ := h a ha
      obtain ⟨c2, k2, rfl⟩ := h b hb
      rfl
  | @append U L _ i l hl ho pc h tag hf hne next refs t E' N' H' hp ht ih =>
    have hlm : l ∈ L := List.mem_of_getElem? hl
    have I := ih.inv l hlm
    have hE : ∀ e ∈ l.entries, e.hash ≠ [] := fun e he => ih.uNe e (I.inU e he)
    obtain ⟨next', refs', t', E'', N'', H'', hp', ht', _, _, hinv⟩ := translated_append I ho hE pc h tag hf
    -- the translated functions are functions: what they returned is what the theorem speaks about
    rw [hp] at hp'
    have e1 : next = next' := by injection hp' with h1; exact (Prod.mk.inj h1).1
    have e2 : refs = refs' := by injection hp' with h1; exact (Prod.mk.inj (Prod.mk.inj h1).2).1
    have e3 : t = t' := by injection hp' with h1; exact (Prod.mk.inj (Prod.mk.inj (Prod.mk.inj h1).2).2).2
    subst e1 e2 e3
    rw [ht] at ht'
    have f1 : E' = E'' := by injection ht' with h1; exact (Prod.mk.inj h1).1
    have f2 : N' = N'' := by injection ht' with h1; exact (Prod.mk.inj (Prod.mk.inj h1).2).1
    have f3 : H' = H'' := by injection ht' with h1; exact (Prod.mk.inj (Prod.mk.inj h1).2).2
    subst f1 f2 f3
    have hhash : (createdEntry l h tag next refs t).hash = h := rfl
    refine ⟨?_, ?_, ?_, ?_⟩
    · unfold hashes
      rw [List.map_append]
      refine List.nodup_append.mpr ⟨ih.uNodup, List.nodup_cons.mpr ⟨List.not_mem_nil, List.nodup_nil⟩, ?_⟩
      intro a ha b hb
      rw [List.map_cons, List.map_nil, List.mem_singleton] at hb
      subst hb
      exact fun e => hf (e ▸ ha)
    · intro e he
      rcases List.mem_append.mp he with h1 | h1
      · exact ih.uNe e h1
      · rw [List.mem_singleton] at h1; subst h1; exact hne
    · intro x hx
      rcases mem_set_cases hx with h1 | h1
      · subst h1; exact hinv
      · exact inv_mono_universe (fun y hy => List.mem_append_left _ hy) (ih.inv x h1)
    · intro a ha b hb
      rcases mem_set_cases ha with h1 | h1 <;> rcases mem_set_cases hb with h2 | h2
      · subst h1 h2; rfl
      · subst h1; exact ih.sameId l hlm b h2
      · subst h2; exact ih.sameId a h1 l hlm
      · exact ih.sameId a h1 b h2
  | @join U L _ i j A B hA hB cands E' N' H' t hd ht ih =>
    have hAm : A ∈ L := List.mem_of_getElem? hA
    have hBm : B ∈ L := List.mem_of_getElem? hB
    obtain ⟨c', E'', N'', H'', t', hd', ht', hinv⟩ :=
      translated_join_preserves_inv ih.uNodup (ih.inv A hAm) (ih.inv B hBm) (ih.sameId A hAm B hBm)
    rw [hd] at hd'
    have e0 : cands = c' := Option.some.inj hd'
    subst e0
    rw [ht] at ht'
    have e1 : t = t' := by injection ht' with h1; exact (Prod.mk.inj (Prod.mk.inj h1).2).1
    have e2 : E' = E'' := by injection ht' with h1; exact (Prod.mk.inj (Prod.mk.inj (Prod.mk.inj h1).2).2).1
    have e3 : N' = N'' := by injection ht' with h1; exact (Prod.mk.inj (Prod.mk.inj (Prod.mk.inj (Prod.mk.inj h1).2).2).2).1
    have e4 : H' = H'' := by injection ht' with h1; exact (Prod.mk.inj (Prod.mk.inj (Prod.mk.inj (Prod.mk.inj h1).2).2).2).2
    subst e1 e2 e3 e4
    refine ⟨ih.uNodup, ih.uNe, ?_, ?_⟩
    · intro x hx
      rcases mem_set_cases hx with h1 | h1
      · subst h1; exact hinv
      · exact ih.inv x h1
    · intro a ha b hb
      rcases mem_set_cases ha with h1 | h1 <;> rcases mem_set_cases hb with h2 | h2
      · subst h1 h2; rfl
      · subst h1; exact ih.sameId A hAm b h2
      · subst h2; exact ih.sameId a h1 A hAm
      · exact ih.sameId a h1 b h2
  | @setIdentity U L _ i l hl cid cid' t' _ ih =>
    have hlm : l ∈ L := List.mem_of_getElem? hl
    have I := ih.inv l hlm
    -- the invariant does not mention the clock
    have I' : Inv U { l with clock := ⟨cid', t'⟩ } :=
      ⟨I.inU, I.nodup, I.closed, I.mono, I.headsIn, I.headsNodup, I.headsSpec, I.headsUnref, I.nextIdx, I.logId⟩
    refine ⟨ih.uNodup, ih.uNe, ?_, ?_⟩
    · intro x hx
      rcases mem_set_cases hx with h1 | h1
      · subst h1; exact I'
      · exact ih.inv x h1
    · intro a ha b hb
      rcases mem_set_cases ha with h1 | h1 <;> rcases mem_set_cases hb with h2 | h2
      · subst h1 h2; rfl
      · subst h1; exact ih.sameId l hlm b h2
      · subst h2; exact ih.sameId a h1 l hlm
      · exact ih.sameId a h1 b h2
  | @load U L _ l hl fetched hnd hin hset cid ents t H N hf hn ih =>
    obtain ⟨ents', t', H', N', hf', hn', _, _, hinv⟩ := translated_rebuild_json ih.uNodup (ih.inv l hl) fetched hnd hin hset cid
    rw [hf] at hf'
    have e0 : ents = ents' := Option.some.inj hf'
    subst e0
    rw [hn] at hn'
    have e1 : t = t' := (Prod.mk.inj hn').1
    have e2 : H = H' := (Prod.mk.inj (Prod.mk.inj hn').2).1
    have e3 : N = N' := (Prod.mk.inj (Prod.mk.inj hn').2).2
    subst e1 e2 e3
    refine ⟨ih.uNodup, ih.uNe, ?_, ?_⟩
    · intro x hx
      rcases List.mem_append.mp hx with h1 | h1
      · exact ih.inv x h1
      · rw [List.mem_singleton] at h1; subst h1; exact hinv
    · intro a ha b hb
      rcases List.mem_append.mp ha with h1 | h1 <;> rcases List.mem_append.mp hb with h2 | h2
      · exact ih.sameId a h1 b h2
      · rw [List.mem_singleton] at h2; subst h2; exact ih.sameId a h1 l hl
      · rw [List.mem_singleton] at h1; subst h1; exact ih.sameId l hl b h2
      · rw [List.mem_singleton] at h1 h2; subst h1 h2; rfl

/-- **C02 and C03 for every replica of every state reachable by the translated operations**, observed through the
    translated `ToSnapshot` -/
theorem translated_system_snapshot {U : List Entry} {L : List Log} (r : TReach U L) {l : Log} (hl : l ∈ L)
    (ho : OrderOk l.sortFn l.entries) :
    ∃ hs vs, Generated.Go.toSnapshot (traverseFuel l.entries l.heads) l.entries (before l.sortFn) l.heads = some (hs, vs) ∧
      (∀ h, h ∈ hs ↔ ∃ e ∈ l.entries, e.hash = h ∧ ¬ namedBy l.entries h) ∧ hs.Nodup ∧
      vs.Perm l.entries ∧ vs.Nodup ∧
      vs.Pairwise (fun a b => b.hash ∉ a.next) ∧
      vs.Pairwise (fun a b => before l.sortFn b a = true) := by
  have T := treach_inv r
  have I := T.inv l hl
  exact translated_snapshot I ho (fun e he => T.uNe e (I.inU e he))

/-- **C01 on the generated code**: two replicas of a state reachable by the translated operations that hold the same
    hashes — whatever the order, grouping or repetition of the merges that brought them there — show, through the
    translated `ToSnapshot`, the same set of heads and, under an ordering that is a strict total order on those
    entries, the identical sequence of values -/
theorem translated_convergence {U : List Entry} {L : List Log} (r : TReach U L) {a b : Log} (ha : a ∈ L) (hb : b ∈ L)
    (hH : ∀ h, h ∈ hashes a.entries ↔ h ∈ hashes b.entries) (hsf : a.sortFn = b.sortFn)
    (ho : OrderOk a.sortFn a.entries) :
    ∃ hs₁ hs₂ vs,
      Generated.Go.toSnapshot (traverseFuel a.entries a.heads) a.entries (before a.sortFn) a.heads = some (hs₁, vs) ∧
      Generated.Go.toSnapshot (traverseFuel b.entries b.heads) b.entries (before b.sortFn) b.heads = some (hs₂, vs) ∧
      (∀ h, h ∈ hs₁ ↔ h ∈ hs₂) := by
  have T := treach_inv r
  have Ia := T.inv a ha
  have Ib := T.inv b hb
  have hE : ∀ x, x ∈ a.entries ↔ x ∈ b.entries := by
    intro x
    constructor
    · intro hx
      have : x.hash ∈ hashes b.entries := (hH _).mp (List.mem_map.mpr ⟨x, hx, rfl⟩)
      obtain ⟨y, hy, hyh⟩ := List.mem_map.mp this
      have : y = x := eq_of_hash_eq T.uNodup (Ib.inU y hy) (Ia.inU x hx) hyh
      exact this ▸ hy
    · intro hx
      have : x.hash ∈ hashes a.entries := (hH _).mpr (List.mem_map.mpr ⟨x, hx, rfl⟩)
      obtain ⟨y, hy, hyh⟩ := List.mem_map.mp this
      have : y = x := eq_of_hash_eq T.uNodup (Ia.inU y hy) (Ib.inU x hx) hyh
      exact this ▸ hy
  have hperm : a.entries.Perm b.entries :=
    (List.perm_ext_iff_of_nodup (nodup_of_hashes_nodup Ia.nodup) (nodup_of_hashes_nodup Ib.nodup)).mpr hE
  have hv := values_fn_of_set Ia Ib hsf ho hperm
  have hheads := heads_fn_of_set Ia Ib hE
  have ea : ∀ e ∈ a.entries, e.hash ≠ [] := fun e he => T.uNe e (Ia.inU e he)
  have eb : ∀ e ∈ b.entries, e.hash ≠ [] := fun e he => T.uNe e (Ib.inU e he)
  refine ⟨hashes a.heads, hashes b.heads, values a,
    toSnapshot_eq a ea (fun e he => ea e (Ia.headsIn e he)), ?_, ?_⟩
  · rw [hv]; exact toSnapshot_eq b eb (fun e he => eb e (Ib.headsIn e he))
  · intro h
    unfold hashes
    simp only [List.mem_map]
    constructor
    · rintro ⟨x, hx, rfl⟩; exact ⟨x, (hheads x).mp hx, rfl⟩
    · rintro ⟨x, hx, rfl⟩; exact ⟨x, (hheads x).mpr hx, rfl⟩

/-- **C15 for every replica of every reachable state**: the translated `Iterator` without bounds sends exactly what
    the translated `ToSnapshot` lists as values, newest first; with any options, what it sends are entries of the
    log, at most `amount` of them -/
theorem translated_system_iterator {U : List Entry} {L : List Log} (r : TReach U L) {l : Log} (hl : l ∈ L)
    (ho : OrderOk l.sortFn l.entries) :
    (∃ hs vs, Generated.Go.toSnapshot (traverseFuel l.entries l.heads) l.entries (before l.sortFn) l.heads = some (hs, vs) ∧
      Generated.Go.iterator (iterFuel l {}) l.entries (before l.sortFn) l.heads none none none none none = some vs.reverse) ∧
    (∀ (o : IterOpts) (out : List Entry), (∀ h, o.gte = some h → h ≠ []) → (∀ h, o.gt = some h → h ≠ []) →
      Generated.Go.iterator (iterFuel l o) l.entries (before l.sortFn) l.heads o.amount o.lte o.lt o.gte o.gt = some out →
      (∀ x ∈ out, x ∈ l.entries) ∧ (∀ a, o.amount = some a → 0 ≤ a → out.length ≤ a.toNat)) := by
  have T := treach_inv r
  have I := T.inv l hl
  have hE : ∀ e ∈ l.entries, e.hash ≠ [] := fun e he => T.uNe e (I.inU e he)
  refine ⟨⟨hashes l.heads, values l, toSnapshot_eq l hE (fun e he => hE e (I.headsIn e he)),
    translated_iterator_default I ho hE⟩, ?_⟩
  intro o out hgte hgt h
  exact translated_iterator_sound I o hE hgte hgt out h

/-- **C04 for every replica of every reachable state**: the translated plan of `Append` returns predecessors that are
    exactly the hashes of the heads (each once), the writer's clock id and a clock time above that of every entry
    the log holds — its own and those merged in from other writers -/
theorem translated_system_append_dominates {U : List Entry} {L : List Log} (r : TReach U L) {l : Log} (hl : l ∈ L)
    (ho : OrderOk l.sortFn l.entries) (pcOpt : Int) :
    ∃ (next refs : List Hash) (t : Int),
      Generated.Go.appendPlan (traverseFuel l.entries (sortedHeads l)) l.entries (before l.sortFn) l.heads
        l.clock.id l.clock.time pcOpt = some (next, refs, l.clock.id, t) ∧
      next.Nodup ∧ (∀ n, n ∈ next ↔ n ∈ hashes l.heads) ∧ (∀ x ∈ l.entries, x.clock.time < t) := by
  have T := treach_inv r
  have I := T.inv l hl
  exact translated_append_plan I ho (fun e he => T.uNe e (I.inU e he)) pcOpt

/-- **C16 for any two replicas of any reachable state**, entirely on generated code: the translated `Join` with a bound
    `n ≥ 0` leaves exactly the last `min n total` of the values that the translated `values` lists for the result of
    the translated unbounded `Join`, with the unreferenced ones among them as heads -/
theorem translated_system_join_bounded {U : List Entry} {L : List Log} (r : TReach U L) {A B : Log}
    (hA : A ∈ L) (hB : B ∈ L) (ho : OrderOk A.sortFn (joinU A B).entries) (n : Int) (hn : 0 ≤ n) :
    ∃ (cands Eu : List Entry) (Nu : List Hash) (Hu : List Entry) (tu : Int) (vs E' : List Entry) (N' : List Hash)
      (H' : List Entry) (t : Int),
      Generated.Go.logDifference (diffFuel B.entries B.heads) B.entries B.heads A.entries A.id = some cands ∧
      Generated.Go.joinTail (fun E H => values { A with entries := E, heads := H })
        A.entries A.nextIdx A.heads A.clock.id A.clock.time cands B.heads (-1) = some (A.clock.id, tu, Eu, Nu, Hu) ∧
      Generated.Go.values (traverseFuel Eu Hu) Eu (before A.sortFn) Hu = some vs ∧
      Generated.Go.joinTail (fun E H => values { A with entries := E, heads := H })
        A.entries A.nextIdx A.heads A.clock.id A.clock.time cands B.heads n = some (A.clock.id, t, E', N', H') ∧
      E' = vs.drop (vs.length - n.toNat) ∧
      (∀ x, x ∈ H' ↔ x ∈ E' ∧ ¬ namedBy E' x.hash) := by
  have T := treach_inv r
  have IA := T.inv A hA
  have IB := T.inv B hB
  have hid := T.sameId A hA B hB
  obtain ⟨cands, E', N', H', t, hd, hb, hE', hH'⟩ := translated_join_bounded T.uNodup IA IB hid ho n hn
  obtain ⟨c2, Eu, Nu, Hu, tu, hd2, hu, hinv⟩ := translated_join_preserves_inv T.uNodup IA IB hid
  rw [hd] at hd2
  have ec : cands = c2 := Option.some.inj hd2
  subst ec
  -- the candidates are the model's difference, the unbounded result the model's joinU
  have hc : cands = difference B.entries B.heads A := by
    have := logDifference_eq B.entries B.heads A
    rw [hd] at this
    exact Option.some.inj this
  have IJ : Inv U (joinU A B) := inv_join T.uNodup IA IB hid
  have hne : ∀ e ∈ (joinU A B).entries, e.hash ≠ [] := fun e he => T.uNe e (IJ.inU e he)
  have hv := values_eq (joinU A B) hne (fun e he => hne e (IJ.headsIn e he))
  have hEu : Eu = (joinU A B).entries ∧ Hu = (joinU A B).heads := by
    have h1 : Generated.Go.joinTail (fun E H => values { A with entries := E, heads := H })
        A.entries A.nextIdx A.heads A.clock.id A.clock.time cands B.heads (-1) =
        some (A.clock.id, (joinU A B).clock.time, (joinU A B).entries, (joinU A B).nextIdx, (joinU A B).heads) := by
      rw [hc, joinTail_eq A B.entries B.heads (-1), joinTrim_unbounded]; rfl
    rw [hu] at h1
    injection h1 with h2
    exact ⟨(Prod.mk.inj (Prod.mk.inj (Prod.mk.inj h2).2).2).1, (Prod.mk.inj (Prod.mk.inj (Prod.mk.inj (Prod.mk.inj h2).2).2).2).2⟩
  refine ⟨cands, Eu, Nu, Hu, tu, values (joinU A B), E', N', H', t, hd, hu, ?_, hb, hE', hH'⟩
  rw [hEu.1, hEu.2]
  exact hv

/-- **C09 over histories**: a replica of a reachable state rebuilt through the translated `fromJSON` glue and the
    translated `NewLog` core from any complete fetch of its entries (each once, any arrival order) has the same
    entries, the same heads and — under an ordering that is a strict total order on them — the translated
    `ToSnapshot` lists the same values for both -/
theorem translated_system_load {U : List Entry} {L : List Log} (r : TReach U L) {l : Log} (hl : l ∈ L)
    (fetched : List Entry) (hnd : (hashes fetched).Nodup) (hin : ∀ e ∈ fetched, e ∈ U)
    (hset : ∀ h, h ∈ hashes fetched ↔ h ∈ hashes l.entries) (cid : Bytes) (ho : OrderOk l.sortFn l.entries) :
    ∃ (ents : List Entry) (t : Int) (H : List Entry) (N : List Hash) (hs₁ hs₂ vs : List _),
      Generated.Go.fromJSONTail none fetched = some ents ∧
      Generated.Go.newLogCore none [] ents = (t, H, N) ∧
      (∀ x, x ∈ ents ↔ x ∈ l.entries) ∧ (∀ x, x ∈ H ↔ x ∈ l.heads) ∧
      Generated.Go.toSnapshot (traverseFuel l.entries l.heads) l.entries (before l.sortFn) l.heads = some (hs₁, vs) ∧
      Generated.Go.toSnapshot (traverseFuel ents H) ents (before l.sortFn) H = some (hs₂, vs) := by
  have T := treach_inv r
  have I := T.inv l hl
  obtain ⟨ents, t, H, N, hf, hn, hE, hH, hinv⟩ := translated_rebuild_json T.uNodup I fetched hnd hin hset cid
  have hne : ∀ e ∈ l.entries, e.hash ≠ [] := fun e he => T.uNe e (I.inU e he)
  have hne' : ∀ e ∈ ents, e.hash ≠ [] := fun e he => hne e ((hE e).mp he)
  have s1 := toSnapshot_eq l hne (fun e he => hne e (I.headsIn e he))
  have s2 := toSnapshot_eq { id := l.id, entries := ents, heads := H, nextIdx := N, clock := ⟨cid, t⟩, sortFn := l.sortFn }
    hne' (fun e he => hne' e (hinv.headsIn e he))
  have hperm : l.entries.Perm ents :=
    (List.perm_ext_iff_of_nodup (nodup_of_hashes_nodup I.nodup) (nodup_of_hashes_nodup hinv.nodup)).mpr
      (fun x => (hE x).symm)
  have hv := values_fn_of_set I hinv rfl ho hperm
  refine ⟨ents, t, H, N, hashes l.heads, hashes H, values l, hf, hn, hE, hH, s1, ?_⟩
  rw [hv]
  exact s2

/-- progress: in a reachable state the translated `Append` of any replica (ordering a strict total order on its
    entries, any pointer count, a fresh non-empty CID) returns, and its result is reachable -/
theorem treach_can_append {U : List Entry} {L : List Log} (r : TReach U L) {i : Nat} {l : Log} (hl : L[i]? = some l)
    (ho : OrderOk l.sortFn l.entries) (pc : Int) (h : Hash) (tag : Nat) (hf : h ∉ hashes U) (hne : h ≠ []) :
    ∃ (next refs : List Hash) (t : Int) (E' : List Entry) (N' : List Hash) (H' : List Entry),
      TReach (U ++ [createdEntry l h tag next refs t])
        (L.set i { l with entries := E', nextIdx := N', heads := H', clock := ⟨l.clock.id, t⟩ }) := by
  have T := treach_inv r
  have I := T.inv l (List.mem_of_getElem? hl)
  obtain ⟨next, refs, t, E', N', H', hp, ht, _, _, _⟩ :=
    translated_append I ho (fun e he => T.uNe e (I.inU e he)) pc h tag hf
  exact ⟨next, refs, t, E', N', H', TReach.append r i l hl ho pc h tag hf hne next refs t E' N' H' hp ht⟩

/-- progress: in a reachable state the translated `Join` of any two replicas returns, and its result is reachable -/
theorem treach_can_join {U : List Entry} {L : List Log} (r : TReach U L) {i j : Nat} {A B : Log}
    (hA : L[i]? = some A) (hB : L[j]? = some B) :
    ∃ (E' : List Entry) (N' : List Hash) (H' : List Entry) (t : Int),
      TReach U (L.set i { A with entries := E', nextIdx := N', heads := H', clock := ⟨A.clock.id, t⟩ }) := by
  have T := treach_inv r
  have hAm := List.mem_of_getElem? hA
  have hBm := List.mem_of_getElem? hB
  obtain ⟨c, E', N', H', t, hd, ht, _⟩ :=
    translated_join_preserves_inv T.uNodup (T.inv A hAm) (T.inv B hBm) (T.sameId A hAm B hBm)
  exact ⟨E', N', H', t, TReach.join r i j A B hA hB c E' N' H' t hd ht⟩

/-- non-vacuity: the initial states are reachable (and by `translated_append` / `translated_join_preserves_inv` every
    operation on a reachable state has a successor: the translated functions do return) -/
example : TReach [] [emptyLog [1] [2] .lww, emptyLog [1] [3] .lww] :=
  TReach.init _ [1] (fun l hl => by
    rcases List.mem_cons.mp hl with h | h
    · exact ⟨[2], .lww, h⟩
    · rw [List.mem_singleton] at h; exact ⟨[3], .lww, h⟩)

end Model.Capstone
