/-! Regenerated from /repo by `harness/cmd/extract` on every run (placeholder until the first run). -/
namespace Generated
end Generated
