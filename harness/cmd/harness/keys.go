package main

// keys stream (C20): 1-4 real keystores over ONE in-memory datastore, up to 400 ids (beyond the LRU
// size 128), operations create / get / has / has-never-created / alias probes / createIdentity /
// entry signing through another keystore / restart, in PRNG order.
//
// Lines (ids, keys, messages as lower-case hex; "-" is the empty byte string):
//   H <case> <caseSeed> nks=<n> wf=<0|1> ids=<planned number of ids>
//   N <id> <datastore.NewKey(id).String()>          once per id, before its first use
//   P <key> <compressed pub> <uncompressed pub>     public key oracle for every key that appears
//   S <key> <msg> <sig>                             signature oracle, computed by the harness itself
//   K <ks> <id> <key|err>                           Keystore.CreateKey (key = raw private key)
//   G <ks> <id> <key|err>                           Keystore.GetKey
//   A <ks> <id> <true|false|err>                    Keystore.HasKey
//   R <ks>                                          NewKeystore on the same datastore
//   I <ks> <uid> <ku> <ki> <id> <pub> <sigId> <sigPub> <v1> <v2> <v3>   CreateIdentity; ku / ki = raw
//        keys the datastore holds for uid / id afterwards; v1 = Signatures.ID verifies over []byte(id)
//        under the identity's public key, v2 = Signatures.PublicKey verifies over hex(pub++sigId) under
//        the public key the id denotes (hex-decoded id), v3 = the same under the key GetKey(uid) returns
//   E <ks> <uid> <data> <sig|err> <v>               entry created with uid's identity, signing through
//        keystore ks; data = the exact signed bytes; v = Entry.Verify passes, the signature verifies under
//        the published key bytes and entry.Key = identity.PublicKey
//   X <what>                                        a panic (an outcome, never expected)
//
// crypto.GenerateSecp256k1Key ignores its reader, so the key BYTES differ from run to run; the operation
// sequence and everything derived from the PRNG replays exactly.

import (
	"bufio"
	"bytes"
	"context"
	"encoding/hex"
	"fmt"
	"hash/fnv"
	"math/rand"

	"github.com/decred/dcrd/dcrec/secp256k1/v4"
	ds "github.com/ipfs/go-datastore"
	dssync "github.com/ipfs/go-datastore/sync"
	"github.com/libp2p/go-libp2p/core/crypto"

	"berty.tech/go-ipfs-log/entry"
	idp "berty.tech/go-ipfs-log/identityprovider"
	"berty.tech/go-ipfs-log/keystore"

	"verifharness/mockstore"
)

type keysStats struct {
	Cases, DistinctNontrivial int
	WfCases, RecreateCases    int
	BigCases                  int // cases with more ids than the cache holds
	Outages                   int // creations refused by a datastore outage
	LRUProbes                 int // cases ending with the re-create-all / read-back probe of the LRU state
	OpHist                    map[string]int
	KeystoresHist             map[int]int
	IdsHist                   map[string]int
	CrossReads                int // reads of a created id through another keystore, or after restart
	EvictedReads              int // reads of an id through its creator, >= 128 creations later (evicted unless re-read meanwhile)
	IdentityRecreations       int
	Panics                    int
	sigs                      map[uint64]bool
}

func hx0(b []byte) string {
	if len(b) == 0 {
		return "-"
	}
	return hex.EncodeToString(b)
}

type keysWorld struct {
	ctx     context.Context
	r       *rand.Rand
	out     *bufio.Writer
	st      *keysStats
	store   ds.Datastore
	failPut bool
	ks      []*keystore.Keystore
	api     *mockstore.API

	named    map[string]bool // N line written
	pubSeen  map[string]bool // P line written
	created  []string        // ids created directly (in order)
	creator  map[string]int  // id -> keystore that created it
	createNo map[string]int  // id -> creation counter on the creating keystore
	perKS    []int           // creations per keystore since its last restart
	uids     []string        // user ids with an identity
	idents   map[string]*idp.Identity
	nextID   int
	nextUser int
	nextNo   int
	sig      []byte // op signature of the case
	cross    int
}

func (w *keysWorld) name(id string) string {
	if !w.named[id] {
		w.named[id] = true
		fmt.Fprintf(w.out, "N %s %s\n", hx0([]byte(id)), hx0([]byte(ds.NewKey(id).String())))
	}
	return hx0([]byte(id))
}

// pub writes the public key oracle line of a raw private key.
func (w *keysWorld) pub(raw []byte) crypto.PrivKey {
	k, err := crypto.UnmarshalSecp256k1PrivateKey(raw)
	if err != nil {
		return nil
	}
	if !w.pubSeen[string(raw)] {
		w.pubSeen[string(raw)] = true
		pc, _ := k.GetPublic().Raw()
		pu, err := compUncomp(pc)
		if err != nil {
			pu = nil
		}
		fmt.Fprintf(w.out, "P %s %s %s\n", hx0(raw), hx0(pc), hx0(pu))
	}
	return k
}

// compUncomp: uncompressed serialisation of a compressed secp256k1 public key, computed with the decred
// parser (the library goes through btcec).
func compUncomp(pc []byte) ([]byte, error) {
	k, err := secp256k1.ParsePubKey(pc)
	if err != nil {
		return nil, err
	}
	return k.SerializeUncompressed(), nil
}

func (w *keysWorld) signOracle(raw []byte, msg []byte) {
	k := w.pub(raw)
	if k == nil {
		return
	}
	s, err := k.Sign(msg)
	if err != nil {
		return
	}
	fmt.Fprintf(w.out, "S %s %s %s\n", hx0(raw), hx0(msg), hx0(s))
}

func (w *keysWorld) guard(what string, f func()) {
	defer func() {
		if p := recover(); p != nil {
			w.st.Panics++
			fmt.Fprintf(w.out, "X %s\n", what)
		}
	}()
	f()
}

func (w *keysWorld) op(kind string, ks int, id string) {
	w.st.OpHist[kind]++
	w.sig = append(w.sig, []byte(fmt.Sprintf("%s/%d/%s;", kind, ks, id))...)
}

// failDS refuses writes while *fail is set (a datastore outage); everything else goes through
type failDS struct {
	ds.Datastore
	fail *bool
}

func (f *failDS) Put(ctx context.Context, k ds.Key, v []byte) error {
	if *f.fail {
		return fmt.Errorf("verif datastore: write refused")
	}
	return f.Datastore.Put(ctx, k, v)
}

// doCreateFail: CreateKey of a fresh id during a datastore outage.  It must fail and the id must stay "never
// created" for every keystore, this one included: it is read back at once through the same keystore.
func (w *keysWorld) doCreateFail(ks int, id string) {
	w.op("create-outage", ks, id)
	idh := w.name(id)
	failed := false
	w.guard("create-outage", func() {
		w.failPut = true
		_, err := w.ks[ks].CreateKey(w.ctx, id)
		w.failPut = false
		if err != nil {
			failed = true
			fmt.Fprintf(w.out, "KF %d %s\n", ks, idh)
			return
		}
		// acknowledged although nothing could be written: reported as a creation the store does not hold
		fmt.Fprintf(w.out, "KF %d %s acknowledged\n", ks, idh)
	})
	w.failPut = false
	if failed {
		w.st.Outages++
	}
	w.doHas(ks, id, "has-never")
	w.doGet(ks, id, "get-never")
}

func (w *keysWorld) doCreate(ks int, id string, kind string) {
	w.op(kind, ks, id)
	idh := w.name(id)
	w.guard("create", func() {
		priv, err := w.ks[ks].CreateKey(w.ctx, id)
		if err != nil {
			fmt.Fprintf(w.out, "K %d %s err\n", ks, idh)
			return
		}
		raw, _ := priv.Raw()
		w.pub(raw)
		fmt.Fprintf(w.out, "K %d %s %s\n", ks, idh, hx0(raw))
		if _, ok := w.creator[id]; !ok {
			w.created = append(w.created, id)
		}
		w.creator[id] = ks
		w.perKS[ks]++
		w.createNo[id] = w.perKS[ks]
	})
}

func (w *keysWorld) noteRead(ks int, id string) {
	if c, ok := w.creator[id]; ok {
		if c != ks {
			w.st.CrossReads++
			w.cross++
		} else if w.perKS[ks]-w.createNo[id] >= 128 {
			w.st.EvictedReads++
			w.cross++
		}
	}
}

func (w *keysWorld) doGet(ks int, id string, kind string) {
	w.op(kind, ks, id)
	idh := w.name(id)
	w.noteRead(ks, id)
	w.guard("get", func() {
		priv, err := w.ks[ks].GetKey(w.ctx, id)
		if err != nil || priv == nil {
			fmt.Fprintf(w.out, "G %d %s err\n", ks, idh)
			return
		}
		raw, _ := priv.Raw()
		fmt.Fprintf(w.out, "G %d %s %s\n", ks, idh, hx0(raw))
	})
}

func (w *keysWorld) doHas(ks int, id string, kind string) {
	w.op(kind, ks, id)
	idh := w.name(id)
	w.noteRead(ks, id)
	w.guard("has", func() {
		ok, err := w.ks[ks].HasKey(w.ctx, id)
		res := "false"
		if err != nil {
			res = "err"
			if ok {
				res = "true+err"
			}
		} else if ok {
			res = "true"
		}
		fmt.Fprintf(w.out, "A %d %s %s\n", ks, idh, res)
	})
}

func (w *keysWorld) doRestart(ks int) {
	w.op("restart", ks, "")
	k, err := keystore.NewKeystore(w.store)
	if err != nil {
		panic(err)
	}
	w.ks[ks] = k
	w.perKS[ks] = 0
	for id, c := range w.creator {
		if c == ks {
			w.creator[id] = -1 // any later read is a read after restart
		}
	}
	fmt.Fprintf(w.out, "R %d\n", ks)
}

func verifyUnder(pub []byte, msg, sig []byte) bool {
	pk, err := crypto.UnmarshalSecp256k1PublicKey(pub)
	if err != nil {
		return false
	}
	ok, err := pk.Verify(msg, sig)
	return err == nil && ok
}

func b2i(b bool) int {
	if b {
		return 1
	}
	return 0
}

func (w *keysWorld) doIdentity(ks int, uid string) {
	w.op("identity", ks, uid)
	uh := w.name(uid)
	w.guard("identity", func() {
		if _, ok := w.idents[uid]; ok {
			w.st.IdentityRecreations++
		}
		ident, err := idp.CreateIdentity(w.ctx, &idp.CreateIdentityOptions{Keystore: w.ks[ks], ID: uid, Type: "orbitdb"})
		if err != nil || ident == nil || ident.Signatures == nil {
			fmt.Fprintf(w.out, "I %d %s err\n", ks, uh)
			return
		}
		w.name(ident.ID)
		ku, _ := w.store.Get(w.ctx, ds.NewKey(uid))
		ki, _ := w.store.Get(w.ctx, ds.NewKey(ident.ID))
		w.pub(ku)
		w.pub(ki)
		// the harness's own idea of the two signed messages
		w.signOracle(ki, []byte(ident.ID))
		msg2 := []byte(hex.EncodeToString(append(append([]byte{}, ident.PublicKey...), ident.Signatures.ID...)))
		w.signOracle(ku, msg2)
		v1 := verifyUnder(ident.PublicKey, []byte(ident.ID), ident.Signatures.ID)
		denoted, derr := hex.DecodeString(ident.ID)
		v2 := derr == nil && verifyUnder(denoted, msg2, ident.Signatures.PublicKey)
		v3 := false
		if uk, err := w.ks[ks].GetKey(w.ctx, uid); err == nil && uk != nil {
			ok, err := uk.GetPublic().Verify(msg2, ident.Signatures.PublicKey)
			v3 = err == nil && ok
		}
		fmt.Fprintf(w.out, "I %d %s %s %s %s %s %s %s %d %d %d\n", ks, uh, hx0(ku), hx0(ki), hx0([]byte(ident.ID)),
			hx0(ident.PublicKey), hx0(ident.Signatures.ID), hx0(ident.Signatures.PublicKey), b2i(v1), b2i(v2), b2i(v3))
		if _, ok := w.idents[uid]; !ok {
			w.uids = append(w.uids, uid)
		}
		w.idents[uid] = ident
		if _, ok := w.creator[uid]; !ok {
			w.creator[uid] = ks
			w.createNo[uid] = w.perKS[ks]
		}
	})
}

func (w *keysWorld) doEntry(ks int, uid string) {
	w.op("entry", ks, uid)
	uh := w.name(uid)
	ident := w.idents[uid]
	w.noteRead(ks, uid)
	w.guard("entry", func() {
		// the same identity, signing through keystore ks
		id2 := *ident
		id2.Provider = idp.NewOrbitDBIdentityProvider(&idp.CreateIdentityOptions{Keystore: w.ks[ks], ID: uid, Type: "orbitdb"})
		payload := make([]byte, 1+w.r.Intn(12))
		for i := range payload {
			payload[i] = byte('a' + w.r.Intn(26))
		}
		e, err := entry.CreateEntry(w.ctx, w.api, &id2, &entry.Entry{LogID: "L", Payload: payload}, nil)
		if err != nil {
			fmt.Fprintf(w.out, "E %d %s - err 0\n", ks, uh)
			return
		}
		data, err := entry.VerifToBuffer(e)
		if err != nil {
			fmt.Fprintf(w.out, "E %d %s - err 0\n", ks, uh)
			return
		}
		ki, _ := w.store.Get(w.ctx, ds.NewKey(ident.ID))
		w.signOracle(ki, data)
		v := e.Verify(id2.Provider, mustIO()) == nil &&
			verifyUnder(ident.PublicKey, data, e.GetSig()) && bytes.Equal(e.GetKey(), ident.PublicKey)
		fmt.Fprintf(w.out, "E %d %s %s %s %d\n", ks, uh, hx0(data), hx0(e.GetSig()), b2i(v))
	})
}

var aliasForms = []func(string) string{
	func(s string) string { return "/" + s },
	func(s string) string { return s + "/" },
	func(s string) string { return "//" + s },
	func(s string) string { return "./" + s },
	func(s string) string { return "x/../" + s },
	func(s string) string { return "../" + s },
	func(s string) string { return s + "/." },
	func(s string) string { return "/" + s + "//" },
}

var oddIDs = []string{"", "/", ".", "..", "a/b", "a//b", "a/./b", "a/b/..", "\xff\x00z", "é", " ", "a b", "A", "a"}

func (w *keysWorld) freshID() string {
	for {
		var id string
		if w.r.Intn(12) == 0 {
			id = oddIDs[w.r.Intn(len(oddIDs))]
		} else {
			id = fmt.Sprintf("id%d", w.nextID)
			w.nextID++
		}
		// fresh = nothing stored under its datastore key
		if ok, _ := w.store.Has(w.ctx, ds.NewKey(id)); !ok {
			return id
		}
	}
}

func (w *keysWorld) neverID() string {
	for {
		var id string
		switch w.r.Intn(4) {
		case 0:
			id = oddIDs[w.r.Intn(len(oddIDs))]
		case 1:
			id = fmt.Sprintf("id%d", w.nextID+1000+w.r.Intn(50))
		default:
			id = fmt.Sprintf("never%d", w.nextNo)
			w.nextNo++
		}
		if ok, _ := w.store.Has(w.ctx, ds.NewKey(id)); !ok {
			return id
		}
	}
}

func (w *keysWorld) existingID() (string, bool) {
	n := len(w.created) + len(w.uids)
	if n == 0 {
		return "", false
	}
	// bias towards old ids (evicted ones) and very recent ones
	var k int
	switch w.r.Intn(3) {
	case 0:
		k = w.r.Intn(minI(n, 8))
	case 1:
		k = n - 1 - w.r.Intn(minI(n, 8))
	default:
		k = w.r.Intn(n)
	}
	if k < len(w.created) {
		return w.created[k], true
	}
	uid := w.uids[k-len(w.created)]
	if w.r.Intn(2) == 0 {
		return w.idents[uid].ID, true
	}
	return uid, true
}

func runKeys(seed int64, n int, nOps int, out *bufio.Writer, thorough bool) *keysStats {
	st := &keysStats{OpHist: map[string]int{}, KeystoresHist: map[int]int{}, IdsHist: map[string]int{}, sigs: map[uint64]bool{}}
	for h := 0; h < n; h++ {
		if skipCase(h) {
			continue
		}
		hs := seed*1000003 + int64(h)
		r := rand.New(rand.NewSource(hs))
		nks := 1 + r.Intn(4)
		wf := r.Intn(5) != 0
		// planned number of directly created ids: small, around the cache size, or far beyond it
		var nIDs int
		switch c := r.Intn(8); {
		case c < 5:
			nIDs = 1 + r.Intn(20)
			st.IdsHist["1-20"]++
		case c < 7:
			nIDs = 120 + r.Intn(20)
			st.IdsHist["120-139"]++
		default:
			nIDs = 140 + r.Intn(261)
			st.IdsHist["140-400"]++
		}
		if thorough && r.Intn(3) == 0 {
			nIDs = 129 + r.Intn(272)
		}
		if h%8 == 5 {
			// every run has LRU probe cases (see below)
			wf, nks, nIDs = false, 2+r.Intn(3), 129+r.Intn(150)
		}
		ops := nOps
		if nIDs > 20 {
			ops = nIDs * 3
		}
		w := &keysWorld{ctx: context.Background(), r: r, out: out, st: st,
			api:   mockstore.New(),
			named: map[string]bool{}, pubSeen: map[string]bool{}, creator: map[string]int{}, createNo: map[string]int{},
			perKS: make([]int, nks), idents: map[string]*idp.Identity{}}
		w.store = &failDS{Datastore: dssync.MutexWrap(ds.NewMapDatastore()), fail: &w.failPut}
		for i := 0; i < nks; i++ {
			k, err := keystore.NewKeystore(w.store)
			if err != nil {
				panic(err)
			}
			w.ks = append(w.ks, k)
		}
		fmt.Fprintf(out, "H %d %d nks=%d wf=%d ids=%d\n", h, hs, nks, b2i(wf), nIDs)
		st.Cases++
		st.KeystoresHist[nks]++
		if wf {
			st.WfCases++
		} else {
			st.RecreateCases++
		}
		if nIDs > 128 {
			st.BigCases++
		}
		// big cases: most creations go through one keystore so that its cache overflows
		mainKS := r.Intn(nks)
		pickKS := func() int {
			if nIDs > 20 && r.Intn(4) != 0 {
				return mainKS
			}
			return r.Intn(nks)
		}
		for k := 0; k < ops; k++ {
			c := r.Intn(100)
			switch {
			case c < 34 && len(w.created) < nIDs:
				w.doCreate(pickKS(), w.freshID(), "create")
			case c < 50:
				if id, ok := w.existingID(); ok {
					w.doGet(r.Intn(nks), id, "get")
				}
			case c < 64:
				if id, ok := w.existingID(); ok {
					w.doHas(r.Intn(nks), id, "has")
				}
			case c < 66:
				// a creation that meets a datastore outage
				w.doCreateFail(r.Intn(nks), w.neverID())
			case c < 70:
				w.doHas(r.Intn(nks), w.neverID(), "has-never")
			case c < 74:
				w.doGet(r.Intn(nks), w.neverID(), "get-never")
			case c < 80:
				// an alias of an existing id: another id, the same datastore key
				if id, ok := w.existingID(); ok {
					al := aliasForms[r.Intn(len(aliasForms))](id)
					if r.Intn(2) == 0 {
						w.doHas(r.Intn(nks), al, "has-alias")
					} else {
						w.doGet(r.Intn(nks), al, "get-alias")
					}
				}
			case c < 86:
				if !wf {
					// re-creation of an existing id (replaces the key by design; outside hypothesis H)
					if id, ok := w.existingID(); ok {
						w.doCreate(r.Intn(nks), id, "recreate")
					}
					continue
				}
				var uid string
				if len(w.uids) > 0 && r.Intn(2) == 0 {
					uid = w.uids[r.Intn(len(w.uids))]
				} else if len(w.created) > 0 && r.Intn(6) == 0 {
					uid = w.created[r.Intn(len(w.created))] // a user id that already has a key
				} else {
					uid = fmt.Sprintf("user%d", w.nextUser)
					w.nextUser++
				}
				w.doIdentity(r.Intn(nks), uid)
			case c < 92:
				if wf && len(w.uids) > 0 {
					w.doEntry(r.Intn(nks), w.uids[r.Intn(len(w.uids))])
				}
			case c < 96:
				// big cases restart rarely so that caches really overflow between restarts
				if nIDs <= 20 || r.Intn(16) == 0 {
					w.doRestart(r.Intn(nks))
				}
			default:
				// burst: read a created id through every keystore
				if id, ok := w.existingID(); ok {
					for i := 0; i < nks; i++ {
						if r.Intn(2) == 0 {
							w.doHas(i, id, "has")
						} else {
							w.doGet(i, id, "get")
						}
					}
				}
			}
		}
		// LRU probe (wf=0, big cases): every id is re-created through another keystore, then read back
		// through the main keystore in random order — an old key means "still cached there", a new key
		// means "evicted"; every read changes the cache again.  Capacity, recency order, Peek vs Get
		// become visible.
		if !wf && nks >= 2 && nIDs > 20 {
			st.LRUProbes++
			other := (mainKS + 1 + r.Intn(nks-1)) % nks
			for _, id := range append([]string{}, w.created...) {
				w.doCreate(other, id, "recreate")
			}
			perm := r.Perm(len(w.created))
			for _, k := range perm {
				if r.Intn(5) == 0 {
					w.doHas(mainKS, w.created[k], "has")
				} else {
					w.doGet(mainKS, w.created[k], "get")
				}
			}
			for _, k := range r.Perm(len(w.created)) {
				w.doGet(mainKS, w.created[k], "get")
			}
		}
		// non-trivial: at least one key created and at least one read of a created id through a keystore
		// that did not create it, after a restart of the creator, or after > 128 later creations
		if len(w.created)+len(w.uids) > 0 && w.cross > 0 {
			f := fnv.New64a()
			f.Write(w.sig)
			if !st.sigs[f.Sum64()] {
				st.sigs[f.Sum64()] = true
				st.DistinctNontrivial++
			}
		}
	}
	return st
}
