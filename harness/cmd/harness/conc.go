package main

// conc stream (C13, C14): controlled schedules of concurrent API calls on shared logs.
//
// Every operation runs in its own goroutine and PARKS at every hook point (the harness' own
// "op.start" and the library's ipfslog.SetVerifHook points).  A controller releases one parked
// goroutine at a time, chosen by the PRNG among the goroutines that the mirrored lock table says can
// move (or, for a Lock() that only has to wait for readers, can announce itself and wait).  The
// mirror runs the same straight-line programs and the same RWMutex semantics as lean/Model/Conc.lean;
// what the real goroutines do is OBSERVED (which point they reach next) and a watchdog turns a
// goroutine that neither parks nor finishes within 2 s into the outcome `deadlock`.
//
// Line protocol (one case):
//
//	H <case> <seed> kind=<scenario> logs=<n> threads=<n>
//	N <log> <id> <clockIdHex> <sort>
//	OP <tid> <kind> <log> <src|-> <arg>            kind: append join setid values entries len snapshot iter heads rawheads json mh
//	E <alias> <cid> <logId> <clockIdHex> <time> <next> <refs>
//	R <tid> <kind> <result...>                      append: alias|!err|!panic|!none   join: ok|err|panic|none   readers: lists
//	S <tid> <from> <to>                             to: a hook point | done | blocked
//	D <tid,...>                                     watchdog: these goroutines never arrived
//	UX <tid> <point>                                a goroutine the mirror holds for blocked moved
//	O <log> <entries> <rawheads> <values>           after the run
//	X
//
// Non-trivial case (DistinctNontrivial): a distinct (scenario, schedule) in which at least one
// operation was preempted between its first and its last step by a step of another operation.

import (
	"bufio"
	"bytes"
	"context"
	"fmt"
	"math/rand"
	"runtime"
	"sort"
	"strconv"
	"strings"
	"sync"
	"time"

	ipfslog "berty.tech/go-ipfs-log"
	idp "berty.tech/go-ipfs-log/identityprovider"
	"berty.tech/go-ipfs-log/iface"
	"github.com/ipfs/go-cid"

	"verifharness/hx"
	"verifharness/mockstore"
)

type concStats struct {
	Cases, DistinctNontrivial, Deadlocks, Unexpected, Panics int
	Steps, Preemptions, Announces, Probes                    int
	Enumerated                                               int
	EnumByScenario                                           map[string]int
	Scenarios                                                map[string]int
	OpKinds                                                  map[string]int
	PreemptHist                                              map[string]int
	ThreadsHist                                              map[string]int
	seen                                                     map[string]bool
}

// ---- the mirrored programs (must agree with lean/Model/Conc.lean) -------------------------------

const (
	iHook = iota
	iRLock
	iRUnlock
	iLock
	iUnlock
	iAccess
)

type cinstr struct {
	k    int
	l    int
	hook string
}

func hk(n string) cinstr { return cinstr{k: iHook, hook: n} }

func progOf(kind string, l, src int, noop bool) []cinstr {
	acc := cinstr{k: iAccess}
	switch kind {
	case "append":
		return []cinstr{hk("op.start"), hk("append.enter"), {k: iLock, l: l}, hk("append.locked"), hk("append.publish"), acc, {k: iUnlock, l: l}}
	case "join":
		if noop {
			return []cinstr{hk("op.start")}
		}
		return []cinstr{hk("op.start"), hk("join.enter"),
			{k: iRLock, l: src}, acc, {k: iRUnlock, l: src}, hk("join.heads-read"),
			{k: iRLock, l: src}, acc, {k: iRUnlock, l: src}, hk("join.entries-read"),
			{k: iLock, l: l}, hk("join.locked"), hk("join.publish"), acc, {k: iUnlock, l: l}}
	case "joinr": // a merge that is refused: the error return comes before the publish point
		return []cinstr{hk("op.start"), hk("join.enter"),
			{k: iRLock, l: src}, acc, {k: iRUnlock, l: src}, hk("join.heads-read"),
			{k: iRLock, l: src}, acc, {k: iRUnlock, l: src}, hk("join.entries-read"),
			{k: iLock, l: l}, hk("join.locked"), acc, {k: iUnlock, l: l}}
	case "setid":
		return []cinstr{hk("op.start"), {k: iLock, l: l}, acc, {k: iUnlock, l: l}}
	case "iter", "iterb":
		return []cinstr{hk("op.start"), {k: iRLock, l: l}, hk("iterator.locked"), acc, {k: iRUnlock, l: l}}
	case "mh":
		return []cinstr{hk("op.start"), {k: iRLock, l: l}, acc, {k: iRUnlock, l: l}, {k: iRLock, l: l}, acc, {k: iRUnlock, l: l}}
	case "mh-empty": // ToMultihash on an empty log returns after the first bracket
		return []cinstr{hk("op.start"), {k: iRLock, l: l}, acc, {k: iRUnlock, l: l}}
	default: // values entries len snapshot heads rawheads json
		return []cinstr{hk("op.start"), {k: iRLock, l: l}, acc, {k: iRUnlock, l: l}}
	}
}

type mlock struct {
	writer  int
	pending int
	readers []int
}

type cop struct {
	tid     int
	kind    string
	log     int
	src     int
	arg     int
	prelude bool
	writer  string // setid
	// runtime
	prog    []cinstr
	pc      int
	point   string // where the goroutine is parked ("" = not parked)
	blocked bool   // the mirror says: inside a lock call
	done    bool
	started bool
	rel     chan struct{}
	result  string
	// for statistics
	firstStep, lastStep int
}

// cworld is the per-case state of the conc stream (the alias table etc. of the core stream's world,
// plus what the operation goroutines report)
type cworld struct {
	*world
	cstats      *concStats
	concMu      sync.Mutex
	concEntries map[int]iface.IPFSLogEntry
	concObs     map[int][2][]iface.IPFSLogEntry
	concHasObs  map[int]bool
	concCids    map[int][]cid.Cid
	concHasCids map[int]bool
	concNote    map[int]string
	concBound   map[int]iface.IPFSLogEntry
	concPreempt int
}

type cevent struct {
	tid   int
	point string
}

type cctl struct {
	w      *cworld
	logs   []*ipfslog.IPFSLog
	ops    []*cop
	locks  []mlock
	events chan cevent
	abort  chan struct{}
	gids   sync.Map
	sched  []string // S / D / U lines
	stepNo int
	fatal  bool
	// exhaustive exploration: choices are scripted, then non-preemptive
	enum      bool
	script    []int
	decisions []decision
}

func goid() int64 {
	var buf [64]byte
	n := runtime.Stack(buf[:], false)
	f := bytes.Fields(buf[:n])
	if len(f) < 2 {
		return -1
	}
	id, _ := strconv.ParseInt(string(f[1]), 10, 64)
	return id
}

func (c *cctl) park(tid int, point string) {
	select {
	case <-c.abort:
		return
	default:
	}
	c.events <- cevent{tid, point}
	select {
	case <-c.ops[tid].rel:
	case <-c.abort:
	}
}

func (c *cctl) hook(point string, _ interface{}) {
	v, ok := c.gids.Load(goid())
	if !ok {
		return
	}
	c.park(v.(int), point)
}

// mstep is Model.Conc.step restricted to the lock table: false = cannot move
func (c *cctl) mstep(o *cop) bool {
	if o.pc >= len(o.prog) {
		return false
	}
	in := o.prog[o.pc]
	switch in.k {
	case iRLock:
		k := &c.locks[in.l]
		if k.writer < 0 && k.pending < 0 {
			k.readers = append(k.readers, o.tid)
			o.pc++
			return true
		}
		return false
	case iRUnlock:
		k := &c.locks[in.l]
		for i, r := range k.readers {
			if r == o.tid {
				k.readers = append(k.readers[:i:i], k.readers[i+1:]...)
				o.pc++
				return true
			}
		}
		return false
	case iLock:
		k := &c.locks[in.l]
		if k.writer < 0 && len(k.readers) == 0 && (k.pending < 0 || k.pending == o.tid) {
			k.writer, k.pending = o.tid, -1
			o.pc++
			return true
		}
		if k.writer < 0 && k.pending < 0 {
			k.pending = o.tid // announce
			return true
		}
		return false
	case iUnlock:
		k := &c.locks[in.l]
		if k.writer == o.tid {
			k.writer = -1
			o.pc++
			return true
		}
		return false
	default:
		o.pc++
		return true
	}
}

// advance runs o in the mirror until it is at a hook, finished or blocked; fromHook = execute the
// hook it is parked at first.  Returns what it reached and whether it moved at all.
func (c *cctl) advance(o *cop, fromHook bool) (string, bool) {
	moved := false
	if fromHook {
		o.pc++
		moved = true
	}
	for {
		if o.pc >= len(o.prog) {
			return "done", moved
		}
		if o.prog[o.pc].k == iHook {
			return o.prog[o.pc].hook, moved
		}
		if !c.mstep(o) {
			return "blocked", moved
		}
		moved = true
	}
}

// canRelease: after its hook the goroutine can take (or, for Lock against readers only, announce
// for) the first lock it needs
func (c *cctl) canRelease(o *cop) bool {
	for pc := o.pc + 1; pc < len(o.prog); pc++ {
		in := o.prog[pc]
		switch in.k {
		case iHook:
			return true
		case iRLock:
			k := c.locks[in.l]
			return k.writer < 0 && k.pending < 0
		case iLock:
			k := c.locks[in.l]
			return k.writer < 0 && k.pending < 0
		case iRUnlock, iUnlock:
			return true
		}
	}
	return true
}

// canProbe: the first lock the goroutine needs is held for writing by a goroutine that is parked,
// and nobody waits for that lock yet.  Releasing it anyway must leave it blocked inside the lock
// call (a goroutine that arrives somewhere nevertheless shows a missing lock).
func (c *cctl) canProbe(o *cop) bool {
	for pc := o.pc + 1; pc < len(o.prog); pc++ {
		in := o.prog[pc]
		switch in.k {
		case iHook, iRUnlock, iUnlock:
			return false
		case iRLock, iLock:
			k := c.locks[in.l]
			if k.writer < 0 || k.pending >= 0 {
				return false
			}
			for _, b := range c.ops {
				if b.blocked && !b.done && b.pc < len(b.prog) && (b.prog[b.pc].k == iLock || b.prog[b.pc].k == iRLock) && b.prog[b.pc].l == in.l {
					return false
				}
			}
			return true
		}
	}
	return false
}

// wait collects the events of the goroutines in want (tid -> true); false = watchdog
func (c *cctl) wait(want map[int]bool, got map[int]string) bool {
	timer := time.NewTimer(2 * time.Second)
	defer timer.Stop()
	for len(want) > 0 {
		select {
		case ev := <-c.events:
			if !want[ev.tid] {
				c.sched = append(c.sched, fmt.Sprintf("UX %d %s", ev.tid, ev.point))
				c.w.cstats.Unexpected++
				c.fatal = true
				return false
			}
			delete(want, ev.tid)
			got[ev.tid] = ev.point
		case <-timer.C:
			var missing []string
			for t := range want {
				missing = append(missing, strconv.Itoa(t))
			}
			sort.Strings(missing)
			c.sched = append(c.sched, "D "+strings.Join(missing, ","))
			c.w.cstats.Deadlocks++
			c.fatal = true
			return false
		}
	}
	return true
}

func (c *cctl) runOp(o *cop) {
	w := c.w
	defer func() {
		if r := recover(); r != nil {
			o.result = "R " + strconv.Itoa(o.tid) + " " + o.kind + " !panic"
			w.cstats.Panics++
		}
		c.events <- cevent{o.tid, "done"}
	}()
	l := c.logs[o.log]
	pre := fmt.Sprintf("R %d %s ", o.tid, o.kind)
	o.result = pre + "!none"
	switch o.kind {
	case "append":
		e, err := l.Append(w.ctx, []byte(fmt.Sprintf("p%d", o.tid)), &iface.AppendOptions{PointerCount: o.arg})
		if err != nil {
			o.result = pre + "!err"
		} else {
			o.result = pre + "@" + e.GetHash().String()
		}
		// the alias is assigned later, on the controller's goroutine (the alias table is not shared)
		if err == nil {
			w.concMu.Lock()
			w.concEntries[o.tid] = e
			if o.prelude {
				w.concBound[o.log] = e // an upper bound for the bounded iterations of this log
			}
			w.concMu.Unlock()
		}
	case "join", "joinr":
		_, err := l.Join(c.logs[o.src], o.arg)
		if err != nil {
			o.result = pre + "err"
		} else {
			o.result = pre + "ok"
		}
	case "setid":
		ident := w.ids.Identity(o.writer)
		l.SetIdentity(ident)
		o.result = pre + "ok " + hexs(ident.PublicKey)
	case "values":
		w.setObs(o, l.Values().Slice(), nil)
	case "entries":
		w.setObs(o, l.GetEntries().Slice(), nil)
	case "len":
		o.result = pre + strconv.Itoa(l.Len())
	case "snapshot":
		s := l.ToSnapshot()
		var hs []iface.IPFSLogEntry
		for _, h := range s.Heads {
			for _, v := range s.Values {
				if v.GetHash().Equals(h) {
					hs = append(hs, v)
				}
			}
		}
		w.setObs(o, s.Values, hs)
		if len(hs) != len(s.Heads) {
			w.concMu.Lock()
			w.concNote[o.tid] = "head-not-in-values"
			w.concMu.Unlock()
		}
	case "iter":
		ch := make(chan iface.IPFSLogEntry, 4096)
		err := l.Iterator(&ipfslog.IteratorOptions{}, ch)
		var es []iface.IPFSLogEntry
		if err == nil {
			for e := range ch {
				es = append(es, e)
			}
		}
		w.setObs(o, es, nil)
	case "iterb":
		// iteration below an inclusive upper bound (an entry appended in the prelude): the bound is looked up
		// while the read lock is held
		w.concMu.Lock()
		b := w.concBound[o.log]
		w.concMu.Unlock()
		opts := &ipfslog.IteratorOptions{}
		if b != nil {
			opts.LTE = []cid.Cid{b.GetHash()}
			if o.arg == 1 {
				opts.LTE, opts.LT = nil, []cid.Cid{b.GetHash()}
			}
		}
		ch := make(chan iface.IPFSLogEntry, 4096)
		err := l.Iterator(opts, ch)
		var es []iface.IPFSLogEntry
		if err == nil {
			for e := range ch {
				es = append(es, e)
			}
		}
		var bs []iface.IPFSLogEntry
		if b != nil {
			bs = append(bs, b)
		}
		w.setObs(o, es, bs)
		if err != nil {
			w.concMu.Lock()
			w.concNote[o.tid] = "err"
			w.concMu.Unlock()
		}
	case "heads":
		w.setObs(o, l.Heads().Slice(), nil)
	case "rawheads":
		w.setObs(o, l.RawHeads().Slice(), nil)
	case "json":
		j := l.ToJSONLog()
		w.concMu.Lock()
		w.concCids[o.tid] = j.Heads
		w.concHasCids[o.tid] = true
		w.concMu.Unlock()
	case "mh":
		_, err := l.ToMultihash(w.ctx)
		if err != nil {
			o.result = pre + "err"
		} else {
			o.result = pre + "ok"
		}
	}
}

func (w *cworld) setObs(o *cop, a, b []iface.IPFSLogEntry) {
	w.concMu.Lock()
	w.concObs[o.tid] = [2][]iface.IPFSLogEntry{a, b}
	w.concHasObs[o.tid] = true
	w.concMu.Unlock()
}

// chooser: mostly keep running the same goroutine, otherwise a uniformly random enabled one
func (c *cctl) choose(enabled []*cop, last int) *cop {
	if c.enum {
		def, lastEn := 0, false
		for i, o := range enabled {
			if o.tid == last {
				def, lastEn = i, true
			}
		}
		ch := def
		if k := len(c.decisions); k < len(c.script) && c.script[k] < len(enabled) {
			ch = c.script[k]
		}
		c.decisions = append(c.decisions, decision{len(enabled), def, ch, lastEn})
		return enabled[ch]
	}
	r := c.w.r
	if last >= 0 && r.Intn(100) < 55 {
		for _, o := range enabled {
			if o.tid == last {
				return o
			}
		}
	}
	return enabled[r.Intn(len(enabled))]
}

func (c *cctl) run() {
	ipfslog.SetVerifHook(c.hook)
	defer ipfslog.SetVerifHook(nil)
	for _, o := range c.ops {
		o := o
		go func() {
			c.gids.Store(goid(), o.tid)
			c.park(o.tid, "op.start")
			select {
			case <-c.abort:
				return
			default:
			}
			c.runOp(o)
		}()
	}
	want := map[int]bool{}
	for _, o := range c.ops {
		want[o.tid] = true
	}
	got := map[int]string{}
	if !c.wait(want, got) {
		close(c.abort)
		return
	}
	for _, o := range c.ops {
		o.point = got[o.tid]
	}
	last := -1
	for {
		var enabled, probes []*cop
		unfinished := false
		for _, o := range c.ops {
			if o.done {
				continue
			}
			unfinished = true
			if o.point != "" && !o.blocked && c.canRelease(o) {
				enabled = append(enabled, o)
			} else if o.point != "" && !o.blocked && !o.prelude && c.canProbe(o) {
				probes = append(probes, o)
			}
		}
		if !unfinished {
			break
		}
		if len(enabled) == 0 {
			// the mirror itself is stuck: report it like a watchdog deadlock
			var missing []string
			for _, o := range c.ops {
				if !o.done {
					missing = append(missing, strconv.Itoa(o.tid))
				}
			}
			c.sched = append(c.sched, "D "+strings.Join(missing, ","))
			c.w.cstats.Deadlocks++
			c.fatal = true
			break
		}
		// prelude operations run first, one after the other, to completion
		var pick *cop
		for _, o := range enabled {
			if o.prelude {
				pick = o
				break
			}
		}
		probing := false
		if pick == nil && !c.enum && len(probes) > 0 && c.w.r.Intn(100) < 12 {
			pick = probes[c.w.r.Intn(len(probes))]
			probing = true
			c.w.cstats.Probes++
		}
		if pick == nil {
			pick = c.choose(enabled, last)
		}
		if last >= 0 && last != pick.tid && c.ops[last].started && !c.ops[last].done && !pick.prelude {
			c.w.cstats.Preemptions++
			c.w.concPreempt++
		}
		last = pick.tid
		c.stepNo++
		// mirror: the released goroutine, then everything that this unblocks
		type exp struct {
			o        *cop
			from, to string
		}
		var order []exp
		to, _ := c.advance(pick, true)
		order = append(order, exp{pick, pick.point, to})
		pick.started = true
		pick.point = ""
		if to == "blocked" {
			pick.blocked = true
			if !probing {
				c.w.cstats.Announces++
			}
		}
		for progress := true; progress; {
			progress = false
			for _, b := range c.ops {
				if b.blocked && !b.done {
					if to2, moved := c.advance(b, false); moved {
						order = append(order, exp{b, "blocked", to2})
						progress = true
						b.blocked = to2 == "blocked"
					}
				}
			}
		}
		// the last segment of a goroutine decides what we expect to observe from it
		final := map[int]string{}
		lastIdx := map[int]int{}
		for i, e := range order {
			final[e.o.tid] = e.to
			lastIdx[e.o.tid] = i
		}
		want := map[int]bool{}
		for tid, t := range final {
			if t != "blocked" {
				want[tid] = true
			}
		}
		pick.rel <- struct{}{}
		got := map[int]string{}
		ok := c.wait(want, got)
		if ok && probing {
			// the probed goroutine must stay inside the lock call
			select {
			case ev := <-c.events:
				c.sched = append(c.sched, fmt.Sprintf("UX %d %s", ev.tid, ev.point))
				c.w.cstats.Unexpected++
				c.fatal = true
				ok = false
			case <-time.After(3 * time.Millisecond):
			}
		}
		for i, e := range order {
			toS := e.to
			if lastIdx[e.o.tid] == i && e.to != "blocked" {
				if g, have := got[e.o.tid]; have {
					toS = g
				} else {
					toS = "?"
				}
			}
			c.sched = append(c.sched, fmt.Sprintf("S %d %s %s", e.o.tid, e.from, toS))
			c.w.cstats.Steps++
		}
		// D / U lines were appended by wait before the S lines of this step: move them behind
		if !ok {
			for k, ln := range c.sched {
				if (strings.HasPrefix(ln, "D ") || strings.HasPrefix(ln, "UX ")) && k < len(c.sched)-1 {
					c.sched = append(append(c.sched[:k:k], c.sched[k+1:]...), ln)
					break
				}
			}
			break
		}
		for tid, t := range final {
			o := c.ops[tid]
			if t == "blocked" {
				continue
			}
			if got[tid] == "done" {
				o.done, o.blocked, o.point = true, false, ""
			} else {
				o.blocked = false
				o.point = got[tid]
			}
			if got[tid] != t {
				// the real goroutine is somewhere else than the mirror: stop this case
				c.fatal = true
			}
		}
		if c.fatal {
			break
		}
	}
	if c.fatal {
		close(c.abort)
		// let goroutines that are parked run on freely; give them a moment
		time.Sleep(20 * time.Millisecond)
	}
}

// ---- scenarios --------------------------------------------------------------------------------

var readerKinds = []string{"values", "entries", "len", "snapshot", "iter", "heads", "rawheads", "json", "mh"}

// decision records one scheduling choice of an enumerated case: how many goroutines could move, which
// one the non-preemptive default would have taken, which one was taken
type decision struct {
	n, def, chosen int
	lastEnabled    bool
}

func (w *cworld) concCase(h int, kind string, thorough bool, enum bool, script []int) []decision {
	r := w.r
	nLogs := map[string]int{"aar": 1, "ja": 2, "cross": 2, "cycle3": 3, "jtrim": 3, "jdeny": 2, "jlag": 3}[strings.TrimPrefix(kind, "e-")]
	var logs []*ipfslog.IPFSLog
	for i := 0; i < nLogs; i++ {
		ident := w.ids.Identity(fmt.Sprintf("w%d", i))
		lo := &ipfslog.LogOptions{ID: "X"}
		if kind == "jdeny" && i == 0 {
			// log 0 refuses everything the writer of log 1 signed; few verification slots
			lo.AccessController = &denyAC{denied: map[string]bool{hexs(w.ids.Identity("w1").PublicKey): true}}
			lo.Concurrency = []uint{0, 1, 2, 3, 16}[r.Intn(5)]
		}
		l, err := ipfslog.NewLog(w.api, ident, lo)
		if err != nil {
			panic(err)
		}
		logs = append(logs, l)
		fmt.Fprintf(w.out, "N %d X %s lww\n", i, hexs(ident.PublicKey))
	}
	var ops []*cop
	add := func(kind string, log, src, arg int, prelude bool) *cop {
		o := &cop{tid: len(ops), kind: kind, log: log, src: src, arg: arg, prelude: prelude, rel: make(chan struct{}, 1)}
		ops = append(ops, o)
		return o
	}
	pcs := []int{0, 1, 1, 2, 4, 8}
	// prelude: a few sequential appends and merges so that the logs are not empty
	for i := 0; i < nLogs && !enum; i++ {
		for k := r.Intn(4); k > 0; k-- {
			add("append", i, -1, pcs[r.Intn(len(pcs))], true)
		}
	}
	if kind == "jdeny" {
		// the refused log holds more entries than there are verification slots
		for k := 17 + r.Intn(6); k > 0; k-- {
			add("append", 1, -1, 1, true)
		}
		add("append", 0, -1, 1, true)
	}
	if kind == "jtrim" {
		// the source of the observed merge (log 1) and the log it is about to be trimmed against (log 2)
		// both hold something
		for i := 1; i < 3; i++ {
			add("append", i, -1, pcs[r.Intn(len(pcs))], true)
		}
	}
	if kind == "jlag" {
		// log 2 follows log 0 and then falls behind by several entries: its head is an old ancestor
		add("append", 0, -1, 1, true)
		add("join", 2, 0, -1, true)
		for k := 2 + r.Intn(3); k > 0; k-- {
			add("append", 0, -1, pcs[r.Intn(len(pcs))], true)
		}
	}
	if enum {
		// fixed small scenarios for the exhaustive (bounded preemption) exploration
		for i := 0; i < nLogs; i++ {
			add("append", i, -1, 1, true)
		}
	} else if nLogs > 1 && kind != "jdeny" && r.Intn(2) == 0 {
		a := r.Intn(nLogs)
		add("join", a, (a+1)%nLogs, -1, true)
		if r.Intn(2) == 0 {
			add("append", a, -1, 1, true)
		}
	}
	extraReaders := func(n int) {
		for k := 0; k < n; k++ {
			add(readerKinds[r.Intn(len(readerKinds))], r.Intn(nLogs), -1, 0, false)
		}
	}
	switch kind {
	case "e-aar":
		add("append", 0, -1, 1, false)
		add("append", 0, -1, 2, false)
		add("iterb", 0, -1, 0, false)
	case "e-ja":
		add("join", 0, 1, -1, false)
		add("append", 1, -1, 1, false)
		add("snapshot", 0, -1, 0, false)
	case "e-cross":
		add("join", 0, 1, -1, false)
		add("join", 1, 0, -1, false)
		add("append", 0, -1, 1, false)
	case "e-cycle3":
		add("join", 0, 1, -1, false)
		add("join", 1, 2, -1, false)
		add("join", 2, 0, -1, false)
	case "aar":
		for k := 2 + r.Intn(2); k > 0; k-- {
			add("append", 0, -1, pcs[r.Intn(len(pcs))], false)
		}
		extraReaders(2 + r.Intn(3))
		add("iter", 0, -1, 0, false)
		if r.Intn(2) == 0 {
			add("iterb", 0, -1, r.Intn(2), false)
		}
		if r.Intn(3) == 0 {
			o := add("setid", 0, -1, 0, false)
			o.writer = "wx"
		}
	case "ja":
		add("join", 0, 1, -1, false)
		for k := 1 + r.Intn(2); k > 0; k-- {
			add("append", 1, -1, pcs[r.Intn(len(pcs))], false)
		}
		if r.Intn(2) == 0 {
			add("append", 0, -1, 1, false)
		}
		if r.Intn(3) == 0 {
			add("join", 1, 0, -1, false)
		}
		if r.Intn(3) == 0 {
			// an identity change on the destination racing the merge, then an append there
			o := add("setid", 0, -1, 0, false)
			o.writer = "wx"
			add("append", 0, -1, 1, false)
		}
		if r.Intn(2) == 0 {
			add("iter", 1, -1, 0, false)
		}
		if r.Intn(2) == 0 {
			add("iterb", r.Intn(2), -1, r.Intn(2), false)
		}
		extraReaders(r.Intn(3))
	case "cross":
		add("join", 0, 1, -1, false)
		add("join", 1, 0, -1, false)
		for k := 1 + r.Intn(3); k > 0; k-- {
			add("append", r.Intn(2), -1, pcs[r.Intn(len(pcs))], false)
		}
		if r.Intn(3) == 0 {
			// an identity change racing the merges; the appends that follow must carry the identity in force
			o := add("setid", r.Intn(2), -1, 0, false)
			o.writer = "wx"
			add("append", o.log, -1, 1, false)
		}
		extraReaders(r.Intn(2))
	case "jdeny":
		// a refused merge holds the lock only as long as the refusal takes: readers and writers of the
		// destination go on, the merge returns its error
		add("joinr", 0, 1, -1, false)
		add("append", 0, -1, 1, false)
		if r.Intn(2) == 0 {
			add("joinr", 0, 1, -1, false)
		}
		extraReaders(2 + r.Intn(2))
	case "jlag":
		// one log merges, at the same time, an up-to-date log (several chained entries admitted at once) and
		// a lagging one whose head it then already holds; both sources may be appended to meanwhile
		add("join", 1, 0, -1, false)
		add("join", 1, 2, -1, false)
		if r.Intn(2) == 0 {
			add("append", 0, -1, 1, false)
		}
		if r.Intn(3) == 0 {
			add("append", 2, -1, 1, false)
		}
		if r.Intn(3) == 0 {
			add("join", 1, 2, -1, false)
		}
		extraReaders(1 + r.Intn(2))
	case "jtrim":
		// a merge from a log that is being size-bounded (trimmed) by another merge at the same time:
		// between the two reads of the source its head may vanish from its entries
		add("join", 0, 1, -1, false)
		add("join", 1, 2, r.Intn(3), false)
		if r.Intn(2) == 0 {
			add("append", 1, -1, 1, false)
		}
		if r.Intn(2) == 0 {
			add("join", 1, 2, 1+r.Intn(2), false)
		}
		if r.Intn(3) == 0 {
			add("append", 0, -1, 1, false)
		}
		extraReaders(r.Intn(3))
	case "cycle3":
		add("join", 0, 1, -1, false)
		add("join", 1, 2, -1, false)
		add("join", 2, 0, -1, false)
		for k := 1 + r.Intn(3); k > 0; k-- {
			add("append", r.Intn(3), -1, pcs[r.Intn(len(pcs))], false)
		}
		extraReaders(r.Intn(2))
	}
	if thorough && !enum {
		extraReaders(1 + r.Intn(2))
	}
	// the shape of ToMultihash depends on whether the log is empty when it starts; avoid the
	// ambiguity: run it only on logs that got a prelude append (otherwise replace it)
	hasPrelude := map[int]bool{}
	for _, o := range ops {
		if o.prelude && o.kind == "append" {
			hasPrelude[o.log] = true
		}
	}
	for _, o := range ops {
		// (a merge bounded by 0 empties its log again: no ToMultihash in the trimming scenario)
		if o.kind == "mh" && (!hasPrelude[o.log] || kind == "jtrim") {
			o.kind = "json"
		}
	}
	c := &cctl{w: w, logs: logs, ops: ops, locks: make([]mlock, nLogs), events: make(chan cevent, 4*len(ops)+8), abort: make(chan struct{}),
		enum: enum, script: script}
	for i := range c.locks {
		c.locks[i] = mlock{writer: -1, pending: -1}
	}
	for _, o := range ops {
		if o.kind == "setid" {
			w.ids.Identity(o.writer) // create the keys now: no PRNG use from the operation goroutines
		}
		o.prog = progOf(o.kind, o.log, o.src, false)
		src := "-"
		if o.src >= 0 {
			src = strconv.Itoa(o.src)
		}
		fmt.Fprintf(w.out, "OP %d %s %d %s %d\n", o.tid, o.kind, o.log, src, o.arg)
		w.cstats.OpKinds[o.kind]++
	}
	w.concEntries = map[int]iface.IPFSLogEntry{}
	w.concObs = map[int][2][]iface.IPFSLogEntry{}
	w.concHasObs = map[int]bool{}
	w.concCids = map[int][]cid.Cid{}
	w.concHasCids = map[int]bool{}
	w.concNote = map[int]string{}
	w.concBound = map[int]iface.IPFSLogEntry{}
	w.concPreempt = 0
	c.run()

	// results (entries first, so that aliases are defined)
	w.concMu.Lock()
	defer w.concMu.Unlock()
	if !c.fatal {
		// define every entry of every log in a canonical order (values of each log)
		for _, l := range logs {
			for _, e := range l.Values().Slice() {
				w.al(e)
			}
		}
	}
	for _, o := range ops {
		pre := fmt.Sprintf("R %d %s ", o.tid, o.kind)
		switch {
		case strings.Contains(o.result, "@"):
			fmt.Fprintf(w.out, "%s%s\n", pre, w.al(w.concEntries[o.tid]))
		case w.concHasObs[o.tid]:
			ob := w.concObs[o.tid]
			fmt.Fprintf(w.out, "%s%s %s %s\n", pre, lst(w.als(ob[0])), lst(w.als(ob[1])), noteOr(w.concNote[o.tid]))
		case w.concHasCids[o.tid]:
			var hs []string
			for _, cc := range w.concCids[o.tid] {
				hs = append(hs, w.alCid(cc))
			}
			fmt.Fprintf(w.out, "%s%s - -\n", pre, lst(hs))
		default:
			if o.result == "" {
				o.result = pre + "!none"
			}
			fmt.Fprintln(w.out, o.result)
		}
	}
	for _, s := range c.sched {
		fmt.Fprintln(w.out, s)
	}
	if !c.fatal {
		for i, l := range logs {
			ents := w.als(l.GetEntries().Slice())
			sort.Strings(ents)
			raw := w.als(l.RawHeads().Slice())
			sort.Strings(raw)
			vals := w.als(l.Values().Slice())
			fmt.Fprintf(w.out, "O %d %s %s %s\n", i, lst(ents), lst(raw), lst(vals))
		}
	}
	fmt.Fprintln(w.out, "X")
	st := w.cstats
	st.Cases++
	st.Scenarios[kind]++
	st.ThreadsHist[strconv.Itoa(len(ops))]++
	pb := w.concPreempt
	if pb > 9 {
		pb = 9
	}
	st.PreemptHist[strconv.Itoa(pb)]++
	if w.concPreempt > 0 {
		key := kind + "|" + strings.Join(c.sched, ";")
		if !st.seen[key] {
			st.seen[key] = true
			st.DistinctNontrivial++
		}
	}
	return c.decisions
}

func noteOr(s string) string {
	if s == "" {
		return "-"
	}
	return s
}

func runConc(seed int64, n int, out *bufio.Writer, thorough bool) *concStats {
	st := &concStats{Scenarios: map[string]int{}, OpKinds: map[string]int{}, PreemptHist: map[string]int{},
		ThreadsHist: map[string]int{}, seen: map[string]bool{}, EnumByScenario: map[string]int{}}
	kinds := []string{"aar", "ja", "cross", "cycle3", "jtrim", "jdeny", "jlag"}
	for h := 0; h < n; h++ {
		if skipCase(h) {
			continue
		}
		hs := seed*1000003 + int64(h)
		r := rand.New(rand.NewSource(hs))
		w := &cworld{world: &world{api: mockstore.New(), ids: hx.NewIdents(r), alias: map[string]string{}, byAl: map[string]iface.IPFSLogEntry{},
			out: out, r: r, ctx: context.Background(), stats: &coreStats{OpHist: map[string]int{}, shapes: map[string]bool{}}}, cstats: st}
		kind := kinds[h%len(kinds)]
		fmt.Fprintf(out, "H %d %d kind=%s\n", h, hs, kind)
		w.concCase(h, kind, thorough, false, nil)
		out.Flush()
	}
	if !thorough {
		return st
	}
	// exhaustive part: every schedule of four fixed small scenarios with at most `bound` preemptions
	// (depth-first over choice scripts; the case index continues after the PRNG cases)
	const bound = 3
	h := n
	limit := 6 * n
	for _, kind := range []string{"e-aar", "e-ja", "e-cross", "e-cycle3"} {
		stack := [][]int{{}}
		count := 0
		for len(stack) > 0 && count < limit {
			script := stack[len(stack)-1]
			stack = stack[:len(stack)-1]
			hs := seed*1000003 + 7777
			r := rand.New(rand.NewSource(hs))
			w := &cworld{world: &world{api: mockstore.New(), ids: hx.NewIdents(r), alias: map[string]string{}, byAl: map[string]iface.IPFSLogEntry{},
				out: out, r: r, ctx: context.Background(), stats: &coreStats{OpHist: map[string]int{}, shapes: map[string]bool{}}}, cstats: st}
			var sink bytes.Buffer
			skip := skipCase(h)
			if skip {
				// still has to run: its decisions generate the following scripts
				w.out = bufio.NewWriter(&sink)
			} else {
				fmt.Fprintf(out, "H %d %d kind=%s script=%s\n", h, hs, kind, strings.Trim(strings.Join(strings.Fields(fmt.Sprint(script)), ","), "[]"))
			}
			ds := w.concCase(h, kind, thorough, true, script)
			if skip {
				st.Cases--
			}
			out.Flush()
			h++
			count++
			st.Enumerated++
			// children: change one choice behind the script, within the preemption bound
			pre := 0
			for i, d := range ds {
				if i >= len(script) {
					for alt := d.n - 1; alt >= 0; alt-- {
						if alt == d.def {
							continue
						}
						cost := 0
						if d.lastEnabled {
							cost = 1
						}
						if pre+cost <= bound {
							child := make([]int, 0, i+1)
							for _, dd := range ds[:i] {
								child = append(child, dd.chosen)
							}
							stack = append(stack, append(child, alt))
						}
					}
				}
				if d.lastEnabled && d.chosen != d.def {
					pre++
				}
			}
		}
		st.EnumByScenario[kind] = count
	}
	return st
}

// stressOps hammers one log with every accessor, appends, merges, identity changes and manifest
// publication from free-running goroutines for the given duration (run it under `go run -race`;
// it is not part of the conc stream because a controlled schedule hides races from the detector).
// It returns the number of operations performed.
func stressOps(seed int64, d time.Duration) int {
	r := rand.New(rand.NewSource(seed))
	api := mockstore.New()
	ids := hx.NewIdents(r)
	idA, idB, idC := ids.Identity("sa"), ids.Identity("sb"), ids.Identity("sc")
	a, err := ipfslog.NewLog(api, idA, &ipfslog.LogOptions{ID: "S"})
	if err != nil {
		panic(err)
	}
	b, err := ipfslog.NewLog(api, idB, &ipfslog.LogOptions{ID: "S"})
	if err != nil {
		panic(err)
	}
	ctx := context.Background()
	stop := make(chan struct{})
	var wg sync.WaitGroup
	var mu sync.Mutex
	total := 0
	worker := func(f func(i int)) {
		wg.Add(1)
		go func() {
			defer wg.Done()
			n := 0
			for {
				select {
				case <-stop:
					mu.Lock()
					total += n
					mu.Unlock()
					return
				default:
				}
				f(n)
				n++
			}
		}()
	}
	worker(func(i int) { _, _ = a.Append(ctx, []byte(fmt.Sprintf("a%d", i)), nil) })
	worker(func(i int) {
		_, _ = a.Append(ctx, []byte(fmt.Sprintf("x%d", i)), &iface.AppendOptions{PointerCount: 4})
	})
	worker(func(i int) { _, _ = b.Append(ctx, []byte(fmt.Sprintf("b%d", i)), nil) })
	worker(func(i int) { _, _ = a.Join(b, -1) })
	worker(func(i int) { _, _ = b.Join(a, -1) })
	// semantic checks on what the free-running readers observe (printed as SEMANTIC VIOLATION, at most a few)
	var vmu sync.Mutex
	violations := 0
	violate := func(format string, args ...interface{}) {
		vmu.Lock()
		defer vmu.Unlock()
		violations++
		if violations <= 5 {
			fmt.Printf("SEMANTIC VIOLATION: "+format+"\n", args...)
		}
	}
	// heads = the values nothing among the values points to; every predecessor of a value is a value
	checkView := func(what string, heads []cid.Cid, values []iface.IPFSLogEntry) {
		in := map[string]bool{}
		named := map[string]bool{}
		for _, v := range values {
			in[v.GetHash().String()] = true
		}
		for _, v := range values {
			for _, n := range v.GetNext() {
				named[n.String()] = true
				if !in[n.String()] {
					violate("%s: a value's predecessor is not among the values (%d values)", what, len(values))
					return
				}
			}
		}
		hs := map[string]bool{}
		for _, h := range heads {
			hs[h.String()] = true
			if !in[h.String()] || named[h.String()] {
				violate("%s: a head is not an unreferenced value (%d heads, %d values)", what, len(heads), len(values))
				return
			}
		}
		for _, v := range values {
			if !named[v.GetHash().String()] && !hs[v.GetHash().String()] {
				violate("%s: an unreferenced value is not a head (%d heads, %d values)", what, len(heads), len(values))
				return
			}
		}
	}
	worker(func(i int) {
		vs := a.Values().Slice()
		in := map[string]bool{}
		for _, v := range vs {
			in[v.GetHash().String()] = true
		}
		for _, v := range vs {
			for _, n := range v.GetNext() {
				if !in[n.String()] {
					violate("Values(): a value's predecessor is missing (%d values)", len(vs))
					return
				}
			}
		}
	})
	worker(func(i int) { _ = a.Heads().Len(); _ = a.RawHeads().Len() })
	worker(func(i int) { _ = a.Len(); _ = a.GetEntries().Len() })
	worker(func(i int) {
		for _, e := range a.Heads().Slice() {
			_, _ = a.Get(e.GetHash())
			_ = a.Has(e.GetHash())
		}
	})
	worker(func(i int) {
		sn := a.ToSnapshot()
		checkView("ToSnapshot()", sn.Heads, sn.Values)
		_ = a.ToJSONLog()
	})
	worker(func(i int) { _, _ = a.ToMultihash(ctx) })
	worker(func(i int) {
		ch := make(chan iface.IPFSLogEntry, 1<<16)
		amount := 16
		_ = a.Iterator(&ipfslog.IteratorOptions{Amount: &amount}, ch)
	})
	worker(func(i int) {
		if i%2 == 0 {
			a.SetIdentity(idC)
		} else {
			a.SetIdentity(idA)
		}
		time.Sleep(time.Millisecond)
	})
	time.Sleep(d)
	close(stop)
	wg.Wait()
	// quiescent: the final state of both logs is consistent
	for name, l := range map[string]*ipfslog.IPFSLog{"a": a, "b": b} {
		var hs []cid.Cid
		for _, h := range l.Heads().Slice() {
			hs = append(hs, h.GetHash())
		}
		vs := l.Values().Slice()
		checkView("final state of "+name, hs, vs)
		if len(vs) != l.Len() {
			violate("final state of %s: %d values but %d entries", name, len(vs), l.Len())
		}
	}
	return total
}

var _ = idp.IsSupported
