package main

// sign stream (C07): entries are created through the real entry.CreateEntryWithIO (default CBOR io)
// over payload / log id / additional-data strings of every escaping class, 0-8 predecessors and
// references, extreme clock times.  For every entry the fields and the exact signed bytes
// (entry.VerifToBuffer) are written; then every single-field mutation is applied to a Copy and the
// real Verify is run on it.  The Lean driver recomputes the signed bytes from the fields (byte for
// byte), predicts the outcome of every Verify (passes iff model bytes equal and key / signature
// untouched) and evaluates the tamper-evidence specification on the implementation's answers.
//
// Line formats (all byte strings hex, "-" = empty list, "." = empty string):
//   H <case> <seed> class=<payload class> ...
//   E <alias> <id> <payload> <next,..> <refs,..> <v> <clockId> <time> <k:v,..> <buf> <verify>
//   T <alias> <kind> <id> <payload> <next,..> <refs,..> <v> <clockId> <time> <k:v,..> <buf> <keyChanged> <sigChanged> <verify>
//   B <id> <payload> <next,..> <refs,..> <v> <clockId> <time> <k:v,..> <buf>      (signed bytes only, unsigned entry)
//   X <case> <outcome>            (creation failed / panicked)
// <verify> is ok | fail | keyfmt | err | panic.

import (
	"bufio"
	"context"
	"encoding/hex"
	"fmt"
	"math"
	"math/rand"
	"sort"
	"strings"

	"github.com/ipfs/go-cid"
	"github.com/multiformats/go-multibase"
	mh "github.com/multiformats/go-multihash"

	"berty.tech/go-ipfs-log/enc"
	"berty.tech/go-ipfs-log/entry"
	"berty.tech/go-ipfs-log/errmsg"
	idp "berty.tech/go-ipfs-log/identityprovider"
	"berty.tech/go-ipfs-log/iface"
	"berty.tech/go-ipfs-log/io/cbor"

	"verifharness/hx"
	"verifharness/mockstore"
)

type signStats struct {
	Cases, DistinctNontrivial             int
	Entries, Mutations, BufferOnly        int
	VerifyOK, VerifyFail, VerifyOKChanged int
	CreateErrors, Panics                  int
	KeyedEntries, KeyedMutations          int
	LegacyEntries                         int
	PayloadClasses                        map[string]int
	IDClasses                             map[string]int
	TimeClasses                           map[string]int
	NextCounts                            map[int]int
	RefCounts                             map[int]int
	AdditionalCounts                      map[int]int
	MutationKinds                         map[string]int
	seen                                  map[string]bool
}

var signPayloadClasses = []string{
	"ascii", "utf8-2", "utf8-3", "utf8-4", "utf8-mixed", "control", "html", "quotes", "linesep",
	"bad-cont", "bad-trunc", "bad-overlong", "bad-surrogate", "bad-high", "bad-mixed", "fffd", "empty", "big", "random",
}

func randASCII(r *rand.Rand, n int) []byte {
	b := make([]byte, n)
	for i := range b {
		b[i] = byte(0x20 + r.Intn(0x5f))
	}
	return b
}

func pick(r *rand.Rand, xs [][]byte) []byte { return xs[r.Intn(len(xs))] }

// interleave builds a string of n pieces, each either a special piece or a short ASCII run.
func interleave(r *rand.Rand, n int, special [][]byte) []byte {
	var out []byte
	for i := 0; i < n; i++ {
		if r.Intn(2) == 0 {
			out = append(out, randASCII(r, 1+r.Intn(3))...)
		} else {
			out = append(out, pick(r, special)...)
		}
	}
	if len(out) == 0 {
		out = append(out, pick(r, special)...)
	}
	return out
}

var (
	sp2        = [][]byte{{0xc2, 0x80}, {0xc3, 0xa9}, {0xdf, 0xbf}, {0xd0, 0x96}}
	sp3        = [][]byte{{0xe0, 0xa0, 0x80}, {0xe2, 0x82, 0xac}, {0xed, 0x9f, 0xbf}, {0xee, 0x80, 0x80}, {0xef, 0xbf, 0xbf}, {0xe4, 0xb8, 0xad}}
	sp4        = [][]byte{{0xf0, 0x90, 0x80, 0x80}, {0xf0, 0x9f, 0x98, 0x80}, {0xf4, 0x8f, 0xbf, 0xbf}, {0xf1, 0x80, 0x80, 0x80}}
	spControl  = [][]byte{{0x00}, {0x01}, {0x08}, {0x09}, {0x0a}, {0x0c}, {0x0d}, {0x0b}, {0x1f}, {0x7f}, {0x1b}}
	spHTML     = [][]byte{{'<'}, {'>'}, {'&'}, []byte("</script>"), []byte("&amp;")}
	spQuotes   = [][]byte{{'"'}, {'\\'}, []byte(`\"`), []byte(`\\u0041`), []byte{0x5c, 'u', 'f', 'f', 'f', 'd'}, {'/'}, {'\''}}
	spLineSep  = [][]byte{{0xe2, 0x80, 0xa8}, {0xe2, 0x80, 0xa9}, {0xe2, 0x80, 0xa7}, {0xe2, 0x80, 0xaa}}
	spBadCont  = [][]byte{{0x80}, {0xbf}, {0x80, 0x80}, {0xa0}}
	spBadTrunc = [][]byte{{0xc3}, {0xe2, 0x82}, {0xf0, 0x9f, 0x98}, {0xe2}, {0xf0}, {0xf0, 0x9f}}
	spBadOver  = [][]byte{{0xc0, 0xaf}, {0xc1, 0xbf}, {0xe0, 0x80, 0xaf}, {0xe0, 0x9f, 0xbf}, {0xf0, 0x80, 0x80, 0xaf}, {0xf0, 0x8f, 0xbf, 0xbf}}
	spBadSurr  = [][]byte{{0xed, 0xa0, 0x80}, {0xed, 0xbf, 0xbf}, {0xed, 0xa0, 0xbd, 0xed, 0xb8, 0x80}}
	spBadHigh  = [][]byte{{0xf4, 0x90, 0x80, 0x80}, {0xf5, 0x80, 0x80, 0x80}, {0xff}, {0xfe}, {0xf8, 0x88, 0x80, 0x80, 0x80}}
	spFFFD     = [][]byte{{0xef, 0xbf, 0xbd}, {0xff}, {0xef, 0xbf, 0xbd, 0xff}}
)

func allSpecials() [][]byte {
	var all [][]byte
	for _, s := range [][][]byte{sp2, sp3, sp4, spControl, spHTML, spQuotes, spLineSep, spBadCont, spBadTrunc, spBadOver, spBadSurr, spBadHigh, spFFFD} {
		all = append(all, s...)
	}
	return all
}

func genString(r *rand.Rand, class string) []byte {
	n := 1 + r.Intn(6)
	switch class {
	case "ascii":
		return randASCII(r, 1+r.Intn(24))
	case "utf8-2":
		return interleave(r, n, sp2)
	case "utf8-3":
		return interleave(r, n, sp3)
	case "utf8-4":
		return interleave(r, n, sp4)
	case "utf8-mixed":
		return interleave(r, n, append(append(append([][]byte{}, sp2...), sp3...), sp4...))
	case "control":
		return interleave(r, n, spControl)
	case "html":
		return interleave(r, n, spHTML)
	case "quotes":
		return interleave(r, n, spQuotes)
	case "linesep":
		return interleave(r, n, spLineSep)
	case "bad-cont":
		return interleave(r, n, spBadCont)
	case "bad-trunc":
		return interleave(r, n, spBadTrunc)
	case "bad-overlong":
		return interleave(r, n, spBadOver)
	case "bad-surrogate":
		return interleave(r, n, spBadSurr)
	case "bad-high":
		return interleave(r, n, spBadHigh)
	case "bad-mixed":
		return interleave(r, n+2, append(append(append(append(append([][]byte{}, spBadCont...), spBadTrunc...), spBadOver...), spBadSurr...), spBadHigh...))
	case "fffd":
		return interleave(r, n, spFFFD)
	case "empty":
		return []byte{}
	case "big":
		b := interleave(r, 900, allSpecials())
		for len(b) < 4096 {
			b = append(b, interleave(r, 50, allSpecials())...)
		}
		return b[:4096]
	default: // random bytes
		b := make([]byte, 1+r.Intn(40))
		for i := range b {
			b[i] = byte(r.Intn(256))
		}
		return b
	}
}

func randCid(r *rand.Rand) cid.Cid {
	b := make([]byte, 16)
	for i := range b {
		b[i] = byte(r.Intn(256))
	}
	if r.Intn(4) == 0 { // CIDv0 (Qm...)
		h, err := mh.Sum(b, mh.SHA2_256, -1)
		if err != nil {
			panic(err)
		}
		return cid.NewCidV0(h)
	}
	c, err := cid.V1Builder{Codec: cid.DagCBOR, MhType: mh.SHA2_256}.Sum(b)
	if err != nil {
		panic(err)
	}
	return c
}

func hexOrDot(b []byte) string {
	if len(b) == 0 {
		return "."
	}
	return hex.EncodeToString(b)
}

// cidStr is the base58btc text form of a CID, computed independently of entry.cidB58.
func cidStr(c cid.Cid) string {
	s, err := c.StringOfBase(multibase.Base58BTC)
	if err != nil {
		panic(err)
	}
	return s
}

func cidList(cs []cid.Cid) string {
	if len(cs) == 0 {
		return "-"
	}
	xs := make([]string, len(cs))
	for i, c := range cs {
		xs[i] = hex.EncodeToString([]byte(cidStr(c)))
	}
	return strings.Join(xs, ",")
}

// addList writes the map in a PRNG-chosen order (the model sorts it).
func addList(r *rand.Rand, m map[string]string) string {
	if len(m) == 0 {
		return "-"
	}
	ks := make([]string, 0, len(m))
	for k := range m {
		ks = append(ks, k)
	}
	sort.Strings(ks)
	r.Shuffle(len(ks), func(i, j int) { ks[i], ks[j] = ks[j], ks[i] })
	xs := make([]string, len(ks))
	for i, k := range ks {
		xs[i] = hexOrDot([]byte(k)) + ":" + hexOrDot([]byte(m[k]))
	}
	return strings.Join(xs, ",")
}

func verifyClass(err error) string {
	switch {
	case err == nil:
		return "ok"
	case strings.Contains(err.Error(), errmsg.ErrInvalidPubKeyFormat.Error()):
		return "keyfmt"
	case strings.Contains(err.Error(), errmsg.ErrSigNotVerified.Error()):
		return "fail"
	}
	return "err"
}

func safeVerify(e iface.IPFSLogEntry, p idp.Interface, io iface.IO) (res string) {
	defer func() {
		if x := recover(); x != nil {
			res = "panic"
		}
	}()
	return verifyClass(e.Verify(p, io))
}

func safeBuf(e iface.IPFSLogEntry) (res string) {
	defer func() {
		if x := recover(); x != nil {
			res = "panic"
		}
	}()
	b, err := entry.VerifToBuffer(e)
	if err != nil {
		return "err"
	}
	return hex.EncodeToString(b)
}

func fieldsOf(r *rand.Rand, e iface.IPFSLogEntry) string {
	return fmt.Sprintf("%s %s %s %s %d %s %d %s", hexOrDot([]byte(e.GetLogID())), hexOrDot(e.GetPayload()),
		cidList(e.GetNext()), cidList(e.GetRefs()), e.GetV(), hexOrDot(e.GetClock().GetID()), e.GetClock().GetTime(),
		addList(r, e.GetAdditionalData()))
}

func cloneBytes(b []byte) []byte { return append([]byte{}, b...) }

// posClass classifies every byte position of s: 'a' ASCII, 'l' lead byte of a valid multi-byte
// sequence, 'c' continuation byte of a valid sequence, 'x' invalid byte (Go's own decoder).
func posClass(s []byte) []byte {
	cls := make([]byte, len(s))
	str := string(s)
	for i, rn := range str {
		switch {
		case s[i] < 0x80:
			cls[i] = 'a'
		case rn == 0xfffd && !strings.HasPrefix(str[i:], "\xef\xbf\xbd"):
			cls[i] = 'x'
		default:
			cls[i] = 'l'
		}
	}
	for i := range cls {
		if cls[i] == 0 {
			cls[i] = 'c'
		}
	}
	return cls
}

func runSign(seed int64, n int, out *bufio.Writer, thorough bool) *signStats {
	st := &signStats{PayloadClasses: map[string]int{}, IDClasses: map[string]int{}, TimeClasses: map[string]int{},
		NextCounts: map[int]int{}, RefCounts: map[int]int{}, AdditionalCounts: map[int]int{}, MutationKinds: map[string]int{},
		seen: map[string]bool{}}
	ctx := context.Background()
	io := mustIO()
	times := []int{0, 1, 2, 9, 10, 1 << 31, math.MaxInt64, -1, -10, math.MinInt64, 123456789012}
	timeNames := []string{"0", "1", "2", "9", "10", "2^31", "maxint", "-1", "-10", "minint", "12digits"}
	idClasses := []string{"ascii", "ascii", "ascii", "utf8-mixed", "quotes", "html", "control", "linesep", "bad-mixed", "fffd"}
	for h := 0; h < n; h++ {
		if skipCase(h) {
			continue
		}
		hs := seed*1000003 + int64(h)
		r := rand.New(rand.NewSource(hs))
		ids := hx.NewIdents(r)
		identA, identB := ids.Identity("userA"), ids.Identity("userB")
		api := mockstore.New()
		st.Cases++

		pclass := signPayloadClasses[(h+int(seed))%len(signPayloadClasses)]
		if pclass == "big" && !thorough && h%(3*len(signPayloadClasses)) >= len(signPayloadClasses) {
			pclass = "bad-mixed"
		}
		payload := genString(r, pclass)
		iclass := idClasses[r.Intn(len(idClasses))]
		logID := genString(r, iclass)
		if len(logID) == 0 {
			logID = []byte("X")
		}
		nNext, nRefs := r.Intn(9), r.Intn(9)
		if r.Intn(3) == 0 {
			nNext = r.Intn(2)
		}
		if r.Intn(3) == 0 {
			nRefs = 0
		}
		var next, refs []cid.Cid
		for i := 0; i < nNext; i++ {
			next = append(next, randCid(r))
		}
		for i := 0; i < nRefs; i++ {
			refs = append(refs, randCid(r))
		}
		ti := r.Intn(len(times))
		var clockID []byte
		switch r.Intn(8) {
		case 0, 1:
			clockID = identA.PublicKey
		case 2:
			clockID = []byte{} // an undefined clock: the library substitutes (public key, 0)
		case 3:
			clockID = []byte{0x00, 0xff, 0x0a, 0xa0}
		default:
			clockID = make([]byte, 1+r.Intn(40))
			for i := range clockID {
				clockID[i] = byte(r.Intn(256))
			}
		}
		var add map[string]string
		nAdd := 0
		if r.Intn(3) == 0 {
			nAdd = 1 + r.Intn(3)
			add = map[string]string{}
			for len(add) < nAdd {
				kc := []string{"ascii", "ascii", "quotes", "utf8-mixed", "html", "control", "empty", "bad-mixed"}[r.Intn(8)]
				vc := signPayloadClasses[r.Intn(len(signPayloadClasses)-3)]
				k := genString(r, kc)
				if len(k) > 12 {
					k = k[:12]
				}
				add[string(k)] = string(genString(r, vc))
			}
		}
		fmt.Fprintf(out, "H %d %d class=%s id=%s next=%d refs=%d time=%s add=%d\n", h, hs, pclass, iclass, nNext, nRefs, timeNames[ti], nAdd)
		st.PayloadClasses[pclass]++
		st.IDClasses[iclass]++
		st.NextCounts[nNext]++
		st.RefCounts[nRefs]++
		st.AdditionalCounts[nAdd]++

		// NB: CreateEntryWithIO replaces a clock whose id is empty (LamportClock.Defined is false) by
		// (identity public key, 0); the emitted fields are read back from the created entry.
		var clk iface.IPFSLogLamportClock = entry.NewLamportClock(clockID, times[ti])
		mk := func(ident *idp.Identity, payload []byte) (e iface.IPFSLogEntry, outcome string) {
			defer func() {
				if x := recover(); x != nil {
					e, outcome = nil, "panic"
				}
			}()
			data := &entry.Entry{Payload: payload, LogID: string(logID), Next: next, Refs: refs,
				Clock: entry.CopyLamportClock(clk), AdditionalData: add}
			e, err := entry.CreateEntryWithIO(ctx, api, ident, data, &iface.CreateEntryOptions{}, io)
			if err != nil {
				return nil, "err"
			}
			return e, "ok"
		}
		e, outcome := mk(identA, payload)
		if e == nil {
			fmt.Fprintf(out, "X %d %s\n", h, outcome)
			if outcome == "panic" {
				st.Panics++
			} else {
				st.CreateErrors++
			}
			continue
		}
		// a LEGACY entry (one case in five): the same content as an older peer wrote it (version 0 or 1), signed over
		// its own bytes with the writer's key — every field of it, the references included, must be as
		// tamper-evident as in a version-2 entry.  The companions (second entry, other writer) are legacy too.
		legacyV := -1
		toLegacy := func(x iface.IPFSLogEntry, ident *idp.Identity) iface.IPFSLogEntry {
			if x == nil || legacyV < 0 {
				return x
			}
			var res iface.IPFSLogEntry = x
			func() {
				defer func() { recover() }()
				c := x.Copy().(*entry.Entry)
				c.SetV(uint64(legacyV))
				buf, err := entry.VerifToBuffer(c)
				if err != nil {
					return
				}
				sig, err := ident.Provider.Sign(ctx, ident, buf)
				if err != nil {
					return
				}
				c.SetSig(sig)
				res = c
			}()
			return res
		}
		if h%5 == 3 {
			legacyV = r.Intn(2)
			e = toLegacy(e, identA)
			st.LegacyEntries++
		}
		st.Entries++
		if len(clockID) == 0 {
			st.TimeClasses["undefined-clock"]++
		} else {
			st.TimeClasses[timeNames[ti]]++
		}
		al := fmt.Sprintf("e%d", h)
		eLine := fieldsOf(r, e)
		fmt.Fprintf(out, "E %s %s %s %s\n", al, eLine, safeBuf(e), safeVerify(e, identA.Provider, io))
		nontrivial := len(next)+len(refs)+nAdd > 0 || pclass != "ascii"
		if key := eLine[:minI(len(eLine), 400)]; nontrivial && !st.seen[key] {
			st.seen[key] = true
			st.DistinctNontrivial++
		}
		// a second entry of the same writer, and the same content signed by another writer
		clk = e.GetClock()
		other, _ := mk(identA, append(cloneBytes(payload), '!'))
		sameByB, _ := mk(identB, payload)
		other, sameByB = toLegacy(other, identA), toLegacy(sameByB, identB)

		// the same content created through the link-encrypting codec (PreSign seals next/refs into two
		// additional-data values, which are signed too); the created entry still carries them, as every
		// entry produced in this process does.  Every field mutation below is replayed on a copy of it
		// and verified with the keyed codec: the verdict must be the one of the plain codec (`TK` line).
		var ek *entry.Entry
		var ioK iface.IO
		if h%2 == 0 && legacyV < 0 {
			func() {
				defer func() { recover() }()
				kb := make([]byte, 32)
				for i := range kb {
					kb[i] = byte(r.Intn(256))
				}
				lk, _ := enc.NewSecretbox(kb)
				for i := range kb {
					kb[i] = 0 // the key buffer is wiped after construction: the SharedKey must own its bytes
				}
				ioK = io.ApplyOptions(&cbor.Options{LinkKey: lk})
				data := &entry.Entry{Payload: cloneBytes(e.GetPayload()), LogID: string(logID), Next: next, Refs: refs,
					Clock: entry.CopyLamportClock(e.GetClock()), AdditionalData: add}
				if x, err := entry.CreateEntryWithIO(ctx, api, identA, data, &iface.CreateEntryOptions{}, ioK); err == nil {
					ek = x.(*entry.Entry)
					st.KeyedEntries++
				}
			}()
		}
		// keyF / sigF: 0 untouched, 1 replaced by a value foreign to these bytes / this key,
		// 2 replaced by the other writer's key / signature over the same content
		emit := func(kind string, m iface.IPFSLogEntry, keyF, sigF int) {
			res := safeVerify(m, identA.Provider, io)
			fmt.Fprintf(out, "T %s %s %s %s %d %d %s\n", al, kind, fieldsOf(r, m), safeBuf(m), keyF, sigF, res)
			st.Mutations++
			st.MutationKinds[kind]++
			switch res {
			case "ok":
				st.VerifyOK++
				if kind != "nop" && kind != "nop-restored" && kind != "nop-end" && kind != "hash" && kind != "identity" && kind != "sig-and-key-other-writer" {
					st.VerifyOKChanged++
				}
			case "panic":
				st.Panics++
			default:
				st.VerifyFail++
			}
			if ek != nil && keyF == 0 && sigF == 0 {
				mk := ek.Copy().(*entry.Entry)
				mk.SetPayload(m.GetPayload())
				mk.SetLogID(m.GetLogID())
				mk.SetNext(m.GetNext())
				mk.SetRefs(m.GetRefs())
				mk.SetV(m.GetV())
				mk.SetClock(m.GetClock())
				ad := map[string]string{}
				for k, v := range m.GetAdditionalData() {
					ad[k] = v
				}
				for _, k := range []string{iface.KeyEncryptedLinks, iface.KeyEncryptedLinksNonce} {
					if v, ok := ek.AdditionalData[k]; ok {
						ad[k] = v
					}
				}
				mk.AdditionalData = ad
				fmt.Fprintf(out, "TK %s %s %s\n", al, kind, safeVerify(mk, identA.Provider, ioK))
				st.KeyedMutations++
			}
		}
		// signed bytes only (no signature involved): many more field combinations through the real
		// ToHashable + toBuffer
		bufOnly := func(x *entry.Entry) {
			fmt.Fprintf(out, "B %s %s\n", fieldsOf(r, x), safeBuf(x))
			st.BufferOnly++
		}
		for k := 0; k < 24; k++ {
			x := &entry.Entry{Payload: genString(r, signPayloadClasses[r.Intn(len(signPayloadClasses)-3)]), LogID: string(genString(r, idClasses[r.Intn(len(idClasses))])),
				V:     []uint64{0, 1, 2, 2, 2, 9, 10, 99, 100, 1 << 32, math.MaxUint64, uint64(r.Int63())}[r.Intn(12)],
				Clock: entry.NewLamportClock(genString(r, "random"), []int{times[r.Intn(len(times))], int(r.Uint64()), r.Intn(100000), -r.Intn(100000)}[r.Intn(4)])}
			for i := r.Intn(3); i > 0; i-- {
				x.Next = append(x.Next, randCid(r))
			}
			for i := r.Intn(3); i > 0; i-- {
				x.Refs = append(x.Refs, randCid(r))
			}
			if r.Intn(4) == 0 {
				for i := 1 + r.Intn(4); i > 0; i-- {
					x.SetAdditionalDataValue(string(genString(r, signPayloadClasses[r.Intn(len(signPayloadClasses)-3)])), string(genString(r, signPayloadClasses[r.Intn(len(signPayloadClasses)-3)])))
				}
			}
			bufOnly(x)
		}
		if h == 0 {
			// every single byte, and the boundary grid of lead / second / third / fourth bytes
			for b := 0; b < 256; b++ {
				bufOnly(&entry.Entry{Payload: []byte{byte(b)}, LogID: "X", V: 2, Clock: entry.NewLamportClock([]byte{byte(b)}, b)})
			}
			for _, b0 := range []byte{0xc1, 0xc2, 0xdf, 0xe0, 0xe2, 0xed, 0xee, 0xef, 0xf0, 0xf1, 0xf4, 0xf5} {
				for _, b1 := range []byte{0x7f, 0x80, 0x8f, 0x90, 0x9f, 0xa0, 0xbf, 0xc0} {
					for _, b2 := range []byte{0x7f, 0x80, 0xa8, 0xa9, 0xbf, 0xc0} {
						for _, b3 := range []byte{0x41, 0x80, 0xbf} {
							bufOnly(&entry.Entry{Payload: []byte{b0, b1, b2, b3}, LogID: string([]byte{b0, b1, b2}), V: 2, Clock: entry.NewLamportClock([]byte{1}, 1)})
						}
					}
				}
			}
		}
		mutP := func(kind string, p []byte) {
			m := e.Copy()
			m.SetPayload(p)
			emit(kind, m, 0, 0)
		}
		// controls: untouched copy, and fields that are not signed
		emit("nop", e.Copy(), 0, 0)
		// tampering IN PLACE: the genuine entry has been verified above; overwrite one payload byte in the
		// buffer the entry (and every Copy of it) shares, verify the entry object itself, restore
		if pl := e.GetPayload(); len(pl) > 0 {
			i := r.Intn(len(pl))
			pl[i] ^= 0x01
			emit("payload-inplace", e, 0, 0)
			emit("payload-inplace-copy", e.Copy(), 0, 0)
			pl[i] ^= 0x01
			emit("nop-restored", e, 0, 0)
		}
		{
			m := e.Copy()
			m.SetHash(randCid(r))
			emit("hash", m, 0, 0)
			m = e.Copy()
			m.SetIdentity(identB.Filtered())
			emit("identity", m, 0, 0)
		}
		// payload: one byte changed at a position of every class
		cls := posClass(payload)
		for _, c := range []byte{'a', 'l', 'c', 'x'} {
			var pos []int
			for i := range cls {
				if cls[i] == c {
					pos = append(pos, i)
				}
			}
			if len(pos) == 0 {
				continue
			}
			i := pos[r.Intn(len(pos))]
			for _, v := range []struct {
				k string
				b byte
			}{{"xor1", payload[i] ^ 0x01}, {"xor80", payload[i] ^ 0x80}, {"rnd", byte(r.Intn(256))}, {"ff", 0xff}, {"fe", 0xfe}, {"cont", 0x80 + byte(r.Intn(0x40))}} {
				if v.b == payload[i] {
					continue
				}
				p := cloneBytes(payload)
				p[i] = v.b
				mutP(fmt.Sprintf("payload-%c-%s", c, v.k), p)
			}
			if c == 'x' {
				// the genuine U+FFFD in place of the invalid byte
				p := append(append(cloneBytes(payload[:i]), 0xef, 0xbf, 0xbd), payload[i+1:]...)
				mutP("payload-x-fffd", p)
				// the escape written out as text
				p = append(append(cloneBytes(payload[:i]), []byte{0x5c, 'u', 'f', 'f', 'f', 'd'}...), payload[i+1:]...)
				mutP("payload-x-escapetext", p)
			}
		}
		// payload: insertion / deletion
		for _, b := range []byte{'A', '"', 0xff, 0x80, 0x0a} {
			i := r.Intn(len(payload) + 1)
			p := append(append(cloneBytes(payload[:i]), b), payload[i:]...)
			mutP(fmt.Sprintf("payload-ins-%02x", b), p)
		}
		if len(payload) > 0 {
			i := r.Intn(len(payload))
			mutP("payload-del", append(cloneBytes(payload[:i]), payload[i+1:]...))
			mutP("payload-trunc", cloneBytes(payload[:len(payload)-1]))
		}
		mutP("payload-append0", append(cloneBytes(payload), 0))
		// log id
		{
			m := e.Copy()
			m.SetLogID(string(logID) + "x")
			emit("id-append", m, 0, 0)
			idb := cloneBytes(logID)
			i := r.Intn(len(idb))
			idb[i] ^= 0x01
			m = e.Copy()
			m.SetLogID(string(idb))
			emit("id-xor1", m, 0, 0)
			icls := posClass(logID)
			for j := range icls {
				if icls[j] == 'x' {
					idb = cloneBytes(logID)
					if idb[j] == 0xff {
						idb[j] = 0xfe
					} else {
						idb[j] = 0xff
					}
					m = e.Copy()
					m.SetLogID(string(idb))
					emit("id-x-ff", m, 0, 0)
					break
				}
			}
		}
		// predecessor and reference lists: membership and order
		mutList := func(name string, get func(iface.IPFSLogEntry) []cid.Cid, set func(iface.IPFSLogEntry, []cid.Cid)) {
			cur := get(e)
			cp := func() []cid.Cid { return append([]cid.Cid{}, cur...) }
			m := e.Copy()
			set(m, append(cp(), randCid(r)))
			emit(name+"-add", m, 0, 0)
			if len(cur) > 0 {
				i := r.Intn(len(cur))
				m = e.Copy()
				set(m, append(cp()[:i], cur[i+1:]...))
				emit(name+"-drop", m, 0, 0)
				l := cp()
				l[i] = randCid(r)
				m = e.Copy()
				set(m, l)
				emit(name+"-replace", m, 0, 0)
				m = e.Copy()
				set(m, append(cp(), cur[i]))
				emit(name+"-dup", m, 0, 0)
				m = e.Copy()
				set(m, nil)
				emit(name+"-clear", m, 0, 0)
			}
			if len(cur) > 1 {
				i := r.Intn(len(cur) - 1)
				l := cp()
				l[i], l[i+1] = l[i+1], l[i]
				m = e.Copy()
				set(m, l)
				emit(name+"-swap", m, 0, 0)
				l = cp()
				for a, b := 0, len(l)-1; a < b; a, b = a+1, b-1 {
					l[a], l[b] = l[b], l[a]
				}
				m = e.Copy()
				set(m, l)
				emit(name+"-reverse", m, 0, 0)
			}
		}
		mutList("next", func(x iface.IPFSLogEntry) []cid.Cid { return x.GetNext() }, func(x iface.IPFSLogEntry, l []cid.Cid) { x.SetNext(l) })
		mutList("refs", func(x iface.IPFSLogEntry) []cid.Cid { return x.GetRefs() }, func(x iface.IPFSLogEntry, l []cid.Cid) { x.SetRefs(l) })
		if len(e.GetNext()) > 0 {
			// move a predecessor into the references
			m := e.Copy()
			nx := e.GetNext()
			m.SetNext(append([]cid.Cid{}, nx[1:]...))
			m.SetRefs(append(append([]cid.Cid{}, e.GetRefs()...), nx[0]))
			emit("next-to-refs", m, 0, 0)
		}
		// version
		for _, v := range []uint64{0, 1, 3, 20, math.MaxUint64} {
			m := e.Copy()
			m.SetV(v)
			emit(fmt.Sprintf("v-%d", v), m, 0, 0)
		}
		// clock
		{
			t := e.GetClock().GetTime()
			for _, c := range []struct {
				k string
				t int
			}{{"time+1", t + 1}, {"time-1", t - 1}, {"time-neg", -t}, {"time-0", 0}, {"time-x10", t * 10}} {
				if c.t == t {
					continue
				}
				m := e.Copy()
				m.SetClock(entry.NewLamportClock(e.GetClock().GetID(), c.t))
				emit(c.k, m, 0, 0)
			}
			cidb := cloneBytes(e.GetClock().GetID())
			m := e.Copy()
			m.SetClock(entry.NewLamportClock(append(cloneBytes(cidb), 0x00), t))
			emit("clockid-append", m, 0, 0)
			if len(cidb) > 0 {
				m = e.Copy()
				m.SetClock(entry.NewLamportClock(cloneBytes(cidb[:len(cidb)-1]), t))
				emit("clockid-trunc", m, 0, 0)
				i := r.Intn(len(cidb))
				x := cloneBytes(cidb)
				x[i] ^= 0x10
				m = e.Copy()
				m.SetClock(entry.NewLamportClock(x, t))
				emit("clockid-xor", m, 0, 0)
			}
			m = e.Copy()
			m.SetClock(entry.NewLamportClock(identB.PublicKey, t))
			emit("clockid-other", m, 0, 0)
		}
		// additional data
		{
			m := e.Copy()
			m.SetAdditionalDataValue("zz-extra", "1")
			emit("add-insert", m, 0, 0)
			if len(add) > 0 {
				ks := make([]string, 0, len(add))
				for k := range add {
					ks = append(ks, k)
				}
				sort.Strings(ks)
				k := ks[r.Intn(len(ks))]
				m = e.Copy()
				m.SetAdditionalDataValue(k, add[k]+"~")
				emit("add-value", m, 0, 0)
				mm := e.Copy().(*entry.Entry)
				delete(mm.AdditionalData, k)
				emit("add-delete", mm, 0, 0)
				mm = e.Copy().(*entry.Entry)
				delete(mm.AdditionalData, k)
				mm.AdditionalData[k+"'"] = add[k]
				emit("add-key", mm, 0, 0)
				if vb := []byte(add[k]); len(vb) > 0 {
					vc := posClass(vb)
					for j := range vc {
						if vc[j] == 'x' {
							if vb[j] == 0xff {
								vb[j] = 0xfe
							} else {
								vb[j] = 0xff
							}
							m = e.Copy()
							m.SetAdditionalDataValue(k, string(vb))
							emit("add-x-ff", m, 0, 0)
							break
						}
					}
				}
			}
		}
		// key
		{
			m := e.Copy()
			m.SetKey(identB.PublicKey)
			emit("key-other", m, 2, 0)
			k := cloneBytes(e.GetKey())
			k[len(k)-1] ^= 0x01
			m = e.Copy()
			m.SetKey(k)
			emit("key-bitflip", m, 1, 0)
			m = e.Copy()
			m.SetKey(k[:len(k)-1])
			emit("key-trunc", m, 1, 0)
		}
		// signature
		{
			if other != nil {
				m := e.Copy()
				m.SetSig(other.GetSig())
				emit("sig-other-entry", m, 0, 1)
			}
			if sameByB != nil {
				m := e.Copy()
				m.SetSig(sameByB.GetSig())
				emit("sig-other-writer", m, 0, 2)
				m = e.Copy()
				m.SetSig(sameByB.GetSig())
				m.SetKey(sameByB.GetKey())
				emit("sig-and-key-other-writer", m, 2, 2) // a consistent re-signing by B: verifies (key is not bound to identity here)
			}
			s := cloneBytes(e.GetSig())
			i := r.Intn(len(s))
			s[i] ^= 1 << uint(r.Intn(8))
			m := e.Copy()
			m.SetSig(s)
			emit("sig-bitflip", m, 0, 1)
			m = e.Copy()
			m.SetSig(e.GetSig()[:len(e.GetSig())-1])
			emit("sig-trunc", m, 0, 1)
		}
		// control: the original is still intact after all the copies were mutated
		emit("nop-end", e, 0, 0)
	}
	return st
}
