package main

// order stream (C19): the real comparators and sorting.Sort on generated entries, including extreme
// clock times, equal ids/times/hashes, prefix-related ids; compared with the model's comparators and
// insertion sort.

import (
	"bufio"
	"fmt"
	"math"
	"math/rand"
	"strconv"

	"berty.tech/go-ipfs-log/entry"
	"berty.tech/go-ipfs-log/entry/sorting"
	"berty.tech/go-ipfs-log/iface"
	"github.com/ipfs/go-cid"
	mh "github.com/multiformats/go-multihash"
)

type orderStats struct {
	Pairs, Triples, Sorts, TieSorts, BigSorts, Cases, DistinctNontrivial int
	TimeClasses                              map[string]int
}

var gridTimes = []int{math.MinInt64, math.MinInt64 + 1, -(1 << 31), -1, 0, 1, 2, 1 << 31, math.MaxInt64 - 1, math.MaxInt64}
var gridIDs = [][]byte{{}, {0x04}, {0x04, 0x00}, {0x04, 0x01}, {0x04, 0xff}, {0x05}, {0xff}}

func sign(x int) int {
	if x < 0 {
		return -1
	}
	if x > 0 {
		return 1
	}
	return 0
}

func cmpTok(f func(a, b iface.IPFSLogEntry) (int, error), a, b iface.IPFSLogEntry) string {
	v, err := f(a, b)
	if err != nil {
		return "e"
	}
	return strconv.Itoa(sign(v))
}

func runOrder(seed int64, n int, out *bufio.Writer, thorough bool) *orderStats {
	st := &orderStats{TimeClasses: map[string]int{}}
	r := rand.New(rand.NewSource(seed))
	nAl := 0
	// hashes: mostly CIDv1 dag-cbor (what the library writes); a third are other forms of a small set of
	// multihashes — CIDv0, CIDv1 dag-pb, CIDv1 raw — so that different versions and codecs of one digest
	// meet in one comparison
	var digests [][]byte
	for i := 0; i < 5; i++ {
		d := make([]byte, 12)
		for j := range d {
			d[j] = byte(r.Intn(256))
		}
		digests = append(digests, d)
	}
	orderCid := func() cid.Cid {
		if r.Intn(3) != 0 {
			return unknownCid(r)
		}
		d := digests[r.Intn(len(digests))]
		sum, err := mh.Sum(d, mh.SHA2_256, -1)
		if err != nil {
			panic(err)
		}
		switch r.Intn(3) {
		case 0:
			return cid.NewCidV0(sum)
		case 1:
			return cid.NewCidV1(cid.DagProtobuf, sum)
		default:
			return cid.NewCidV1(cid.Raw, sum)
		}
	}
	mk := func(t int, id []byte, hsel int, pool []iface.IPFSLogEntry) iface.IPFSLogEntry {
		var c = orderCid()
		if hsel >= 0 && hsel < len(pool) {
			c = pool[hsel].GetHash()
		}
		e := &entry.Entry{Hash: c, Clock: entry.NewLamportClock(id, t), LogID: "X", V: 2}
		// a third of the entries name an entry of the pool as predecessor (whatever its clock: the
		// orderings are functions of clock and hash only)
		if len(pool) > 0 && r.Intn(3) == 0 {
			e.Next = []cid.Cid{pool[r.Intn(len(pool))].GetHash()}
		}
		return e
	}
	alias := map[iface.IPFSLogEntry]string{}
	al := func(e iface.IPFSLogEntry) string {
		if a, ok := alias[e]; ok {
			return a
		}
		a := "o" + strconv.Itoa(nAl)
		nAl++
		alias[e] = a
		fmt.Fprintf(out, "E %s %s %s %d\n", a, e.GetHash().String(), hexs(e.GetClock().GetID()), e.GetClock().GetTime())
		return a
	}
	distinctPairClasses := 0
	pairClasses := map[string]bool{}
	pair := func(a, b iface.IPFSLogEntry) {
		cls := fmt.Sprintf("%d/%x|%d/%x|%v", a.GetClock().GetTime(), a.GetClock().GetID(), b.GetClock().GetTime(), b.GetClock().GetID(), a.GetHash().Equals(b.GetHash()))
		if !pairClasses[cls] {
			pairClasses[cls] = true
			distinctPairClasses++
		}
		fmt.Fprintf(out, "C %s %s %s %s %s %s %d\n", al(a), al(b),
			cmpTok(sorting.NoZeroes(sorting.LastWriteWins), a, b), cmpTok(sorting.NoZeroes(sorting.FirstWriteWins), a, b),
			cmpTok(sorting.NoZeroes(sorting.SortByEntryHash), a, b), cmpTok(sorting.Compare, a, b),
			sign(a.GetClock().Compare(b.GetClock())))
		st.Pairs++
	}
	// full grid of pairs over times × ids × {same hash, different hash}
	var pool []iface.IPFSLogEntry
	for _, t := range gridTimes {
		for _, id := range gridIDs {
			pool = append(pool, mk(t, id, -1, nil))
		}
	}
	// parent links inside the grid: every third entry names another grid entry (often one with the same
	// clock time and another id) as its predecessor
	for i, e := range pool {
		if i%3 == 1 {
			e.(*entry.Entry).Next = []cid.Cid{pool[(i*7+len(gridIDs)+3)%len(pool)].GetHash(), pool[(i+1)%len(pool)].GetHash()}
		}
	}
	for i, a := range pool {
		for j, b := range pool {
			if thorough || (i+j*7+int(seed))%5 == 0 || i == j {
				pair(a, b)
			}
		}
		// same content, same hash (a distinct object)
		pair(a, mk(a.GetClock().GetTime(), a.GetClock().GetID(), i, pool))
	}
	// random sorts
	for k := 0; k < n; k++ {
		ln := 1 + r.Intn(12)
		ties := r.Intn(3) == 0
		big := !ties && r.Intn(4) == 0
		if big {
			ln = 21 + r.Intn(60)
			st.BigSorts++
		}
		if ties {
			st.TieSorts++
		}
		var xs []iface.IPFSLogEntry
		used := map[string]bool{}
		for len(xs) < ln {
			var t int
			if r.Intn(3) == 0 {
				t = gridTimes[r.Intn(len(gridTimes))]
			} else {
				t = r.Intn(8)
			}
			id := gridIDs[r.Intn(len(gridIDs))]
			key := fmt.Sprintf("%d/%x", t, id)
			if !ties && used[key] {
				continue
			}
			used[key] = true
			xs = append(xs, mk(t, id, -1, xs))
		}
		kind := []string{"lww", "fww", "hash", "clock"}[r.Intn(4)]
		rev := r.Intn(2)
		in := make([]string, len(xs))
		for i, e := range xs {
			in[i] = al(e)
		}
		var f func(a, b iface.IPFSLogEntry) (int, error)
		switch kind {
		case "lww":
			f = sorting.NoZeroes(sorting.LastWriteWins)
		case "fww":
			f = sorting.NoZeroes(sorting.FirstWriteWins)
		case "hash":
			f = sorting.NoZeroes(sorting.SortByEntryHash)
		default:
			f = sorting.Compare
		}
		sorting.Sort(f, xs, rev == 1)
		outA := make([]string, len(xs))
		for i, e := range xs {
			outA[i] = al(e)
		}
		fmt.Fprintf(out, "S %s %d %s %s\n", kind, rev, lst(in), lst(outA))
		st.Sorts++
		if len(xs) >= 2 {
			st.DistinctNontrivial++ // every generated list has fresh hashes: distinct by construction
		}
	}
	st.Cases = st.Pairs + st.Sorts
	st.DistinctNontrivial += distinctPairClasses
	return st
}
