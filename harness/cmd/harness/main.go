// Command harness drives the real go-ipfs-log code (in-process, in-memory block store) and writes
// operation/observation traces for the Lean model driver.
package main

import (
	"bufio"
	"encoding/json"
	"flag"
	"fmt"
	"os"
	"strconv"
	"strings"
	"time"

	"berty.tech/go-ipfs-log/entry"
	"berty.tech/go-ipfs-log/io/cbor"
)

var startCase, onlyCase, maxOps = 0, -1, -1

// dropOps: operation indices of a core history that are left out (delta debugging)
var dropOps = map[int]bool{}

// skipCase says whether case index h is excluded by -start / -only.
func skipCase(h int) bool {
	if onlyCase >= 0 {
		return h != onlyCase
	}
	return h < startCase
}

func mustIO() *cbor.IOCbor {
	io, err := cbor.IO(&entry.Entry{}, &entry.LamportClock{})
	if err != nil {
		panic(err)
	}
	return io
}

func main() {
	if len(os.Args) < 2 {
		fmt.Fprintln(os.Stderr, "usage: harness <stream> [flags]")
		os.Exit(2)
	}
	stream := os.Args[1]
	fs := flag.NewFlagSet(stream, flag.ExitOnError)
	seed := fs.Int64("seed", 1, "PRNG seed")
	n := fs.Int("n", 100, "number of cases")
	ops := fs.Int("ops", 40, "operations per case")
	outPath := fs.String("out", "-", "trace output")
	statsPath := fs.String("stats", "", "stats json output")
	thorough := fs.Bool("thorough", false, "wider generators")
	fs.BoolVar(&codecChild, "nochild", false, "codec: do not spawn the cross-process check")
	fs.IntVar(&startCase, "start", 0, "first case index to run")
	fs.IntVar(&onlyCase, "only", -1, "run only this case index")
	fs.IntVar(&maxOps, "maxops", -1, "core: truncate every history after this many operations (shrinking)")
	drop := fs.String("dropops", "", "core: comma-separated operation indices to leave out (shrinking, with -only)")
	_ = fs.Parse(os.Args[2:])
	for _, t := range strings.Split(*drop, ",") {
		if k, err := strconv.Atoi(strings.TrimSpace(t)); err == nil {
			dropOps[k] = true
		}
	}

	var f *os.File = os.Stdout
	if *outPath != "-" {
		var err error
		f, err = os.Create(*outPath)
		if err != nil {
			panic(err)
		}
		defer f.Close()
	}
	out := bufio.NewWriterSize(f, 1<<20)
	defer out.Flush()

	var stats interface{}
	switch stream {
	case "core":
		stats = runCore(*seed, *n, *ops, out, *thorough)
	case "keys":
		stats = runKeys(*seed, *n, *ops, out, *thorough)
	case "sign":
		stats = runSign(*seed, *n, out, *thorough)
	case "fetch":
		stats = runFetch(*seed, *n, out, *thorough)
	case "codec":
		stats = runCodec(*seed, *n, out, *thorough)
	case "conc":
		stats = runConc(*seed, *n, out, *thorough)
	case "conc-stress":
		// free-running accessors against appends, merges, identity changes (use with `go run -race`)
		stats = map[string]int{"Ops": stressOps(*seed, time.Duration(*n)*time.Millisecond)}
	case "crash":
		stats = runCrash(*seed, *n, out, *thorough)
	case "order":
		stats = runOrder(*seed, *n, out, *thorough)
	case "omap":
		stats = runOMap(*seed, *n, out, *thorough)
	default:
		fmt.Fprintln(os.Stderr, "unknown stream", stream)
		os.Exit(2)
	}
	out.Flush()
	if *statsPath != "" {
		b, _ := json.MarshalIndent(stats, "", " ")
		_ = os.WriteFile(*statsPath, b, 0o644)
	}
}
