package main

// omap stream: random operation sequences on the real entry.OrderedMap (entry/entry_map.go), replayed on the
// representation-level model lean/Model/OMapRep.lean.  After every operation EVERY map of the case is observed
// (keys, slice, length, a Get per key), so that sharing between a map and its copy or its merge shows.
//
// Three quarters of the cases use the maps as the library does (key = hash of the value); the others use free
// keys and put different values under one key (Set replaces the value and keeps the position).

import (
	"bufio"
	"fmt"
	"math/rand"
	"strconv"
	"strings"

	"berty.tech/go-ipfs-log/entry"
	"berty.tech/go-ipfs-log/iface"
)

type omapStats struct {
	Cases, Ops, Panics, DistinctNontrivial                             int
	Keyed, Free, Replacements, MergesOverlapping, CopiesThenWritten    int
	NilElements, UndefinedElements, AtOutOfRange, GetsAbsent, Reverses int
	OpKinds                                                            map[string]int
}

func runOMap(seed int64, n int, out *bufio.Writer, thorough bool) *omapStats {
	st := &omapStats{OpKinds: map[string]int{}}
	shapes := map[string]bool{}
	for c := 0; c < n; c++ {
		if skipCase(c) {
			continue
		}
		r := rand.New(rand.NewSource(seed*1000003 + int64(c)))
		fmt.Fprintf(out, "H %d\n", c)
		st.Cases++
		keyed := r.Intn(4) != 0
		if keyed {
			st.Keyed++
		} else {
			st.Free++
		}
		// pool: 5-8 entries; in free mode keys are k0..k3, in keyed mode twins (another object with the hash of an
		// earlier one and the same content) stand for the same entry met twice
		np := 5 + r.Intn(4)
		var pool []iface.IPFSLogEntry
		names := map[iface.IPFSLogEntry]string{}
		for i := 0; i < np; i++ {
			e := &entry.Entry{Hash: unknownCid(r), Clock: entry.NewLamportClock([]byte{4}, i), LogID: "X", V: 2, Payload: []byte{byte(i)}}
			twinOf := -1
			if keyed && i > 0 && r.Intn(4) == 0 {
				twinOf = r.Intn(i)
				e.Hash = pool[twinOf].GetHash()
			}
			pool = append(pool, e)
			names[e] = "e" + strconv.Itoa(i)
			fmt.Fprintf(out, "E e%d %s %d\n", i, hexs([]byte(e.Hash.String())), twinOf)
		}
		keyOf := func(e iface.IPFSLogEntry) string {
			if keyed {
				return e.GetHash().String()
			}
			return "k" + strconv.Itoa(r.Intn(4))
		}
		nameOf := func(e iface.IPFSLogEntry) string {
			if e == nil {
				return "-"
			}
			if p, ok := e.(*entry.Entry); ok && p == nil {
				return "!"
			}
			if a, ok := names[e]; ok {
				return a
			}
			return "?"
		}
		maps := []iface.IPFSLogOrderedEntries{entry.NewOrderedMap(), entry.NewOrderedMap()}
		observe := func() {
			for i, m := range maps {
				keys := m.Keys()
				var ks, vs, gs []string
				for _, k := range keys {
					ks = append(ks, hexs([]byte(k)))
					v, ok := m.Get(k)
					gs = append(gs, nameOf(v)+":"+strconv.FormatBool(ok))
				}
				for _, v := range m.Slice() {
					vs = append(vs, nameOf(v))
				}
				fmt.Fprintf(out, "O %d %d [%s] [%s] [%s]\n", i, m.Len(), strings.Join(ks, ","), strings.Join(vs, ","), strings.Join(gs, ","))
			}
		}
		nops := 6 + r.Intn(14)
		if thorough {
			nops += r.Intn(20)
		}
		var shape []string
		copied := map[int]bool{}
		for o := 0; o < nops; o++ {
			mi := r.Intn(len(maps))
			m := maps[mi]
			kind := []string{"S", "S", "S", "S", "G", "A", "R", "C", "M", "F", "U"}[r.Intn(11)]
			st.Ops++
			st.OpKinds[kind]++
			shape = append(shape, kind)
			panicked := false
			func() {
				defer func() {
					if p := recover(); p != nil {
						// a panic inside the OrderedMap is an observation (the model never panics): the case ends here
						fmt.Fprintf(out, "PANIC %s %q\n", kind, fmt.Sprint(p))
						st.Panics++
						panicked = true
					}
				}()
				switch kind {
				case "S":
					e := pool[r.Intn(len(pool))]
					k := keyOf(e)
					if old, ok := m.Get(k); ok && old != e {
						st.Replacements++
					}
					if copied[mi] {
						st.CopiesThenWritten++
						copied[mi] = false
					}
					m.Set(k, e)
					fmt.Fprintf(out, "S %d %s %s\n", mi, hexs([]byte(k)), nameOf(e))
				case "G", "U":
					var k string
					if r.Intn(3) == 0 || m.Len() == 0 {
						k = keyOf(pool[r.Intn(len(pool))])
					} else {
						k = m.Keys()[r.Intn(m.Len())]
					}
					if kind == "G" {
						v, ok := m.Get(k)
						if !ok {
							st.GetsAbsent++
						}
						fmt.Fprintf(out, "G %d %s %s %v\n", mi, hexs([]byte(k)), nameOf(v), ok)
					} else {
						fmt.Fprintf(out, "U %d %s %s\n", mi, hexs([]byte(k)), nameOf(m.UnsafeGet(k)))
					}
				case "A":
					i := r.Intn(m.Len() + 2)
					if i >= m.Len() {
						st.AtOutOfRange++
					}
					fmt.Fprintf(out, "A %d %d %s\n", mi, i, nameOf(m.At(uint(i))))
				case "R":
					st.Reverses++
					res := m.Reverse()
					same := res == m
					fmt.Fprintf(out, "R %d %v\n", mi, same)
				case "C":
					cp := m.Copy()
					maps = append(maps, cp)
					copied[len(maps)-1] = true
					copied[mi] = true
					fmt.Fprintf(out, "C %d %d\n", mi, len(maps)-1)
				case "M":
					oi := r.Intn(len(maps))
					other := maps[oi]
					overlap := false
					for _, k := range other.Keys() {
						if _, ok := m.Get(k); ok {
							overlap = true
						}
					}
					if overlap {
						st.MergesOverlapping++
					}
					maps = append(maps, m.Merge(other))
					fmt.Fprintf(out, "M %d %d %d\n", mi, oi, len(maps)-1)
				case "F":
					// only in keyed mode is the key derivable from the value
					cnt := r.Intn(6)
					var lst []iface.IPFSLogEntry
					var ns []string
					for j := 0; j < cnt; j++ {
						switch x := r.Intn(8); {
						case x == 0:
							lst = append(lst, nil)
							st.NilElements++
						case x == 1:
							lst = append(lst, (*entry.Entry)(nil))
							st.UndefinedElements++
						default:
							lst = append(lst, pool[r.Intn(len(pool))])
						}
						ns = append(ns, nameOf(lst[len(lst)-1]))
					}
					maps = append(maps, entry.NewOrderedMapFromEntries(lst))
					fmt.Fprintf(out, "F %d [%s]\n", len(maps)-1, strings.Join(ns, ","))
				}
				observe()
			}()
			if panicked {
				break
			}
			if len(maps) > 7 {
				// keep the case small: forget the oldest derived map (the first two stay)
				maps = append(maps[:2], maps[3:]...)
				nc := map[int]bool{}
				for i, v := range copied {
					if i > 2 {
						nc[i-1] = v
					} else if i < 2 {
						nc[i] = v
					}
				}
				copied = nc
				fmt.Fprintf(out, "D 2\n")
			}
		}
		sh := strings.Join(shape, "")
		if !shapes[sh] && strings.Contains(sh, "S") && (strings.Contains(sh, "M") || strings.Contains(sh, "C")) {
			shapes[sh] = true
			st.DistinctNontrivial++
		}
	}
	return st
}
