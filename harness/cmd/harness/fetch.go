package main

// fetch stream (C09, C10, C11): random forked/merged logs with skip references are built with the real
// library into the mock store; then entry.FetchAll and the four loaders are run against them with
// length limits, concurrency levels, fault sets (absent / error / corrupt / slow+timeout), exclusion
// predicates and PRNG-controlled completion orders.  For every operation the exact sequence of
// dispatches and completions (hooks "fetch.dispatch" / "fetch.complete", both called under the
// fetcher's mutex) is written as a trace; the Lean driver checks that the trace is an execution of
// Model.Fetcher ending in the same result list, and evaluates the C09/C10/C11 specifications on the
// implementation's output.
//
// Lines:
//   H <case> <case seed> sort=..
//   E <alias> <cid> <logId> <clock id hex> <time> <next aliases> <ref aliases>     an entry of the store
//   U <alias> <cid>                                                                a cid that is no entry
//   F <op> kind=.. n=.. conc=.. mode=.. timeout=<ms> sort=.. src=<replica> k=<supplied> roots=.. excl=.. faults=a:kind,..
//   D <alias>                      a hash was handed to fetchEntry
//   K <alias> got|none             completion section of that hash, with / without an entry
//   G <aliases>                    request log of the block store (M = the manifest block)
//   R <ok|panic|hang> <aliases>    result list of entry.FetchAll, in order
//   LR <ok|err|panic|hang> id=.. ents=.. heads=.. vals=..   the loaded log
//   T <elapsed ms> <timeout ms>
//
// Scheduling is the one thing the PRNG cannot fully determine: in `gated` mode every Get of a dispatched
// hash blocks until the controller releases it (one at a time, PRNG choice among the waiting ones, after
// the fetcher has settled); in `free` mode Gets return after PRNG-chosen delays.  Whatever interleaving
// results is recorded exactly and validated as such.

import (
	"bufio"
	"context"
	"fmt"
	"math/rand"
	"sort"
	"strconv"
	"strings"
	"sync"
	"time"

	ipfslog "berty.tech/go-ipfs-log"
	"berty.tech/go-ipfs-log/entry"
	"berty.tech/go-ipfs-log/entry/sorting"
	"berty.tech/go-ipfs-log/iface"
	"github.com/ipfs/go-cid"
	cbornode "github.com/ipfs/go-ipld-cbor"
	ipld "github.com/ipfs/go-ipld-format"
	coreiface "github.com/ipfs/kubo/core/coreiface"
	mh "github.com/multiformats/go-multihash"

	"verifharness/hx"
	"verifharness/mockstore"
)

type fetchStats struct {
	Cases, Ops, Events, DistinctNontrivial, DupSources, Hangs int
	Kinds, LenClass, Conc, Faults, Modes, Outcomes map[string]int
	Sizes                                          map[string]int
	MaxInFlight                                    map[string]int
	shapes                                         map[string]bool
}

// recDag records what each Get returned (so that a completion can be labelled got / none).
type recDag struct {
	*mockstore.Dag
	mu  sync.Mutex
	got map[cid.Cid]bool
}

func (d *recDag) Get(ctx context.Context, c cid.Cid) (ipld.Node, error) {
	n, err := d.Dag.Get(ctx, c)
	ok := err == nil && d.Dag.Faults[c] != mockstore.FaultCorrupt
	d.mu.Lock()
	d.got[c] = ok
	d.mu.Unlock()
	return n, err
}
func (d *recDag) Pinning() ipld.NodeAdder { return d.Dag }

type recAPI struct {
	coreiface.CoreAPI
	inner *mockstore.API
	d     *recDag
}

func (a *recAPI) Dag() coreiface.APIDagService { return a.d }
func (a *recAPI) Pin() coreiface.PinAPI        { return a.inner.Pin() }

type fev struct {
	kind byte
	c    cid.Cid
	got  bool
}

// ftrace collects hook events and runs the gate.
type ftrace struct {
	mu         sync.Mutex
	events     []fev
	dispatched map[cid.Cid]bool
	waiting    []*gateReq
	entered    int
	nDisp      int
	nComp      int
	maxFlight  int
	dag        *recDag
	active     bool
}

type gateReq struct {
	c  cid.Cid
	ch chan struct{}
}

func (t *ftrace) hook(point string, obj interface{}) {
	c, ok := obj.(cid.Cid)
	if !ok {
		return
	}
	t.mu.Lock()
	defer t.mu.Unlock()
	if !t.active {
		return
	}
	switch point {
	case "fetch.dispatch":
		t.events = append(t.events, fev{kind: 'D', c: c})
		t.dispatched[c] = true
		t.nDisp++
		if f := t.nDisp - t.nComp; f > t.maxFlight {
			t.maxFlight = f
		}
	case "fetch.complete":
		t.dag.mu.Lock()
		g := t.dag.got[c]
		t.dag.mu.Unlock()
		t.events = append(t.events, fev{kind: 'K', c: c, got: g})
		t.nComp++
	}
}

func (t *ftrace) snapshot() (int, int, int, int) {
	t.mu.Lock()
	defer t.mu.Unlock()
	return len(t.events), t.entered, t.nDisp, len(t.waiting)
}

// gate blocks the Get of a dispatched hash until released (or the context ends).
func (t *ftrace) gate(ctx context.Context, c cid.Cid) {
	t.mu.Lock()
	if !t.active || !t.dispatched[c] {
		t.mu.Unlock()
		return
	}
	req := &gateReq{c: c, ch: make(chan struct{})}
	t.waiting = append(t.waiting, req)
	t.entered++
	t.mu.Unlock()
	select {
	case <-req.ch:
	case <-ctx.Done():
	}
}

// settle waits until the fetcher has stopped moving: every dispatched request has reached the gate and
// no event was recorded for a little while.
func (t *ftrace) settle(done <-chan struct{}) bool {
	const quiet = 250 * time.Microsecond
	last := [4]int{-1, -1, -1, -1}
	since := time.Now()
	deadline := time.Now().Add(200 * time.Millisecond)
	for {
		select {
		case <-done:
			return false
		default:
		}
		a, b, c, d := t.snapshot()
		cur := [4]int{a, b, c, d}
		now := time.Now()
		if cur != last {
			last = cur
			since = now
		} else if b == c && now.Sub(since) > quiet {
			return true
		}
		if now.After(deadline) {
			return true
		}
		time.Sleep(5 * time.Microsecond)
	}
}

func (t *ftrace) controller(r *rand.Rand, done <-chan struct{}, stallAfter int) {
	released := 0
	for {
		if !t.settle(done) {
			// finished: let everything still waiting go
			t.mu.Lock()
			for _, q := range t.waiting {
				close(q.ch)
			}
			t.waiting = nil
			t.mu.Unlock()
			return
		}
		if stallAfter >= 0 && released >= stallAfter {
			<-done
			continue
		}
		t.mu.Lock()
		if len(t.waiting) > 0 {
			released++
			// the choice is made among the waiting requests in a canonical order
			sort.Slice(t.waiting, func(i, j int) bool { return t.waiting[i].c.String() < t.waiting[j].c.String() })
			i := r.Intn(len(t.waiting))
			q := t.waiting[i]
			t.waiting = append(t.waiting[:i], t.waiting[i+1:]...)
			close(q.ch)
		}
		t.mu.Unlock()
	}
}

var faultNames = map[mockstore.FaultKind]string{mockstore.FaultAbsent: "absent", mockstore.FaultError: "error",
	mockstore.FaultCorrupt: "corrupt", mockstore.FaultSlow: "slow"}

func corruptNode(c cid.Cid) ipld.Node {
	n, err := cbornode.WrapObject(map[string]interface{}{"v": 2, "garbage": c.String()}, mh.SHA2_256, -1)
	if err != nil {
		panic(err)
	}
	return n
}

func fetchLenClass(n, size int) string {
	switch {
	case n < 0:
		return "all"
	case n == 0:
		return "0"
	case n < size:
		return "<size"
	case n == size:
		return "=size"
	}
	return ">size"
}

// fworld is the fetch stream's own little world (it does not share code with the core stream so that the
// two can evolve independently): replicas of one log in one mock store, and aliases for entries.
type fworld struct {
	api    *mockstore.API
	ids    *hx.Idents
	reps   []*ipfslog.IPFSLog
	alias  map[string]string
	out    *bufio.Writer
	ctx    context.Context
	nextPl int
	shape  string
	forked bool
	stag   bool
}

func fSortFn(k string) iface.EntrySortFn {
	if k == "hash" {
		return sorting.SortByEntryHash
	}
	return sorting.LastWriteWins
}

func flst(xs []string) string {
	if len(xs) == 0 {
		return "-"
	}
	return strings.Join(xs, ",")
}

func fUnknownCid(r *rand.Rand) cid.Cid {
	b := make([]byte, 16)
	for i := range b {
		b[i] = byte(r.Intn(256))
	}
	c, err := cid.V1Builder{Codec: cid.DagCBOR, MhType: mh.SHA2_256}.Sum(b)
	if err != nil {
		panic(err)
	}
	return c
}

// al defines (once) the alias of an entry: `E alias cid logId clockId time next refs`.
func (w *fworld) al(e iface.IPFSLogEntry) string {
	k := e.GetHash().String()
	if a, ok := w.alias[k]; ok {
		return a
	}
	a := "e" + strconv.Itoa(len(w.alias))
	w.alias[k] = a
	nx := make([]string, 0)
	for _, c := range e.GetNext() {
		nx = append(nx, w.alCid(c))
	}
	rf := make([]string, 0)
	for _, c := range e.GetRefs() {
		rf = append(rf, w.alCid(c))
	}
	fmt.Fprintf(w.out, "E %s %s %s %x %d %s %s\n", a, k, e.GetLogID(), e.GetClock().GetID(), e.GetClock().GetTime(), flst(nx), flst(rf))
	return a
}

// alCid: alias of a cid; one that is not an entry of the store gets a `U alias cid` line.
func (w *fworld) alCid(c cid.Cid) string {
	k := c.String()
	if a, ok := w.alias[k]; ok {
		return a
	}
	if n, ok := w.api.D.Blocks[c]; ok {
		if e, err := mustIO().DecodeRawEntry(n, c, nil); err == nil {
			return w.al(e)
		}
	}
	a := "u" + strconv.Itoa(len(w.alias))
	w.alias[k] = a
	fmt.Fprintf(w.out, "U %s %s\n", a, k)
	return a
}

func (w *fworld) als(es []iface.IPFSLogEntry) []string {
	out := make([]string, 0, len(es))
	for _, e := range es {
		out = append(out, w.al(e))
	}
	return out
}

func (w *fworld) newReplica(writer, sk string, clock0 int) {
	lo := &ipfslog.LogOptions{ID: "X", SortFn: fSortFn(sk)}
	if clock0 > 0 {
		// a writer whose clock is ahead of its history: the clock times of the stored log are sparse
		lo.Clock = entry.NewLamportClock(w.ids.Identity(writer).PublicKey, clock0)
	}
	l, err := ipfslog.NewLog(w.api, w.ids.Identity(writer), lo)
	if err != nil {
		panic(err)
	}
	w.reps = append(w.reps, l)
}

func (w *fworld) doAppend(i, pc int) {
	w.nextPl++
	payload := []byte(fmt.Sprintf("p%d", w.nextPl))
	if w.nextPl%7 == 3 {
		payload = []byte{} // an empty payload is a legal entry and must be fetched like any other
	}
	e, err := w.reps[i].Append(w.ctx, payload, &iface.AppendOptions{PointerCount: pc})
	if err != nil {
		panic(err)
	}
	w.al(e)
	w.shape += fmt.Sprintf("A%d.%d;", i, pc)
}

func (w *fworld) doJoin(i, j int) {
	if i == j {
		return
	}
	a, b := w.reps[i], w.reps[j]
	onlyA, onlyB := 0, 0
	for _, e := range a.GetEntries().Slice() {
		if !b.Has(e.GetHash()) {
			onlyA++
		}
	}
	for _, e := range b.GetEntries().Slice() {
		if !a.Has(e.GetHash()) {
			onlyB++
		}
	}
	if onlyA > 0 && onlyB > 0 {
		w.forked = true
	}
	if _, err := a.Join(b, -1); err != nil {
		panic(err)
	}
	w.shape += fmt.Sprintf("J%d.%d;", i, j)
}

func runFetch(seed int64, nCases int, out *bufio.Writer, thorough bool) *fetchStats {
	st := &fetchStats{Kinds: map[string]int{}, LenClass: map[string]int{}, Conc: map[string]int{}, Faults: map[string]int{},
		Modes: map[string]int{}, Outcomes: map[string]int{}, Sizes: map[string]int{}, MaxInFlight: map[string]int{}, shapes: map[string]bool{}}
	defer entry.SetVerifHook(nil)
	for h := 0; h < nCases; h++ {
		if skipCase(h) {
			continue
		}
		hs := seed*1000003 + int64(h)
		r := rand.New(rand.NewSource(hs))
		w := &fworld{api: mockstore.New(), ids: hx.NewIdents(r), alias: map[string]string{}, out: out, ctx: context.Background()}
		sk := []string{"lww", "lww", "hash"}[r.Intn(3)]
		fmt.Fprintf(out, "H %d %d sort=%s\n", h, hs, sk)
		nRep := 2 + r.Intn(3)
		sparse := r.Intn(3) == 0
		// every fourth case is STAGGERED: three or four writers whose clocks start far apart write runs of
		// different lengths and are merged into one log with as many heads; the operations are then
		// length-limited loads from all heads with small limits under controlled arrival orders
		stag := h%4 == 2
		if stag {
			nRep = 3 + r.Intn(2)
		}
		offs := []int{0, 4 + r.Intn(6), 12 + r.Intn(8), 25 + r.Intn(10)}
		r.Shuffle(len(offs), func(a, b int) { offs[a], offs[b] = offs[b], offs[a] })
		for i := 0; i < nRep; i++ {
			c0 := 0
			if sparse && r.Intn(2) == 0 {
				c0 = 3 + r.Intn(20)
			}
			if stag {
				c0 = offs[i]
			}
			w.newReplica(fmt.Sprintf("w%d", i), sk, c0)
		}
		w.stag = stag
		nBuild := 6 + r.Intn(14)
		if thorough {
			nBuild = 6 + r.Intn(30)
		}
		pcs := []int{1, 1, 2, 3, 4, 4, 8, 16}
		if stag {
			nBuild = 0
			for i := 0; i < nRep; i++ {
				for k := 1 + r.Intn(5); k > 0; k-- {
					w.doAppend(i, pcs[r.Intn(len(pcs))])
				}
			}
			for j := 1; j < nRep; j++ {
				w.doJoin(0, j)
			}
		}
		for k := 0; k < nBuild; k++ {
			i := r.Intn(nRep)
			if r.Intn(100) < 70 {
				w.doAppend(i, pcs[r.Intn(len(pcs))])
			} else {
				w.doJoin(i, r.Intn(nRep))
			}
		}
		if !stag && r.Intn(3) != 0 { // merge everything into replica 0 and continue there
			for j := 1; j < nRep; j++ {
				w.doJoin(0, j)
			}
			for k := r.Intn(3); k > 0; k-- {
				w.doAppend(0, pcs[r.Intn(len(pcs))])
			}
		}
		// define every entry of every replica
		var all []iface.IPFSLogEntry
		seen := map[string]bool{}
		hasRefs, hasMerge := false, false
		for _, rp := range w.reps {
			for _, e := range rp.Values().Slice() {
				w.al(e)
				if !seen[e.GetHash().String()] {
					seen[e.GetHash().String()] = true
					all = append(all, e)
					if len(e.GetRefs()) > 0 {
						hasRefs = true
					}
					if len(e.GetNext()) > 1 {
						hasMerge = true
					}
				}
			}
		}
		if len(all) == 0 {
			continue
		}
		nOps := 5 + r.Intn(4)
		if stag {
			nOps = 10
		}
		shape := w.shape
		for op := 0; op < nOps; op++ {
			shape += runFetchOp(w, r, st, op, all, sk)
			if st.Hangs >= 6 {
				// every hang is a violation already and costs ten seconds: six of them end the stream
				break
			}
		}
		if st.Hangs >= 6 {
			st.Cases++
			out.Flush()
			break
		}
		st.Cases++
		// non-trivial: the log has a fork that was merged and at least one skip reference
		if hasRefs && hasMerge && w.forked && !st.shapes[shape] {
			st.shapes[shape] = true
			st.DistinctNontrivial++
		}
		out.Flush()
	}
	return st
}

func runFetchOp(w *fworld, r *rand.Rand, st *fetchStats, op int, all []iface.IPFSLogEntry, sk string) string {
	out := w.out
	kind := []string{"fa", "fa", "fa", "mh", "eh", "json", "ent"}[r.Intn(7)]
	src := r.Intn(len(w.reps))
	if w.stag {
		kind = []string{"mh", "mh", "json", "json", "ent", "fa"}[r.Intn(6)]
		src = 0
	}
	for tries := 0; tries < 8 && w.reps[src].Len() == 0; tries++ {
		src = r.Intn(len(w.reps))
	}
	sl := w.reps[src]
	if sl.Len() == 0 {
		kind = "fa"
	}
	size := sl.Len()
	if kind == "fa" {
		size = len(all)
	}
	n := -1
	if r.Intn(5) >= 2 {
		n = r.Intn(size + 4)
	}
	conc := []int{1, 2, 4, 32}[r.Intn(4)]
	mode := []string{"gated", "gated", "gated", "free", "free", "stall"}[r.Intn(6)]
	if w.stag {
		n = 1 + r.Intn(len(w.reps)+3)
		mode = "gated"
	}

	// roots
	var roots []cid.Cid
	var rootNames []string
	supplied := 0
	var jsonLog *iface.JSONLog
	addRoot := func(c cid.Cid) {
		roots = append(roots, c)
		if !c.Defined() {
			rootNames = append(rootNames, "undef")
		} else {
			rootNames = append(rootNames, w.alCid(c))
		}
	}
	var srcEntries []iface.IPFSLogEntry
	switch kind {
	case "fa":
		if sl.Len() > 0 && r.Intn(2) == 0 {
			for _, e := range sl.Heads().Slice() {
				addRoot(e.GetHash())
			}
		} else {
			for k := 1 + r.Intn(3); k > 0; k-- {
				addRoot(all[r.Intn(len(all))].GetHash())
			}
		}
		if r.Intn(8) == 0 {
			addRoot(fUnknownCid(r))
		}
		if r.Intn(10) == 0 {
			addRoot(cid.Undef)
		}
	case "mh":
		for _, c := range sl.ToJSONLog().Heads {
			addRoot(c)
		}
	case "json":
		// a caller-supplied head list may be in any order
		jsonLog = sl.ToJSONLog()
		if r.Intn(2) == 0 {
			r.Shuffle(len(jsonLog.Heads), func(a, b int) { jsonLog.Heads[a], jsonLog.Heads[b] = jsonLog.Heads[b], jsonLog.Heads[a] })
		}
		for _, c := range jsonLog.Heads {
			addRoot(c)
		}
	case "eh":
		hsl := sl.Heads().Slice()
		e := hsl[0]
		if len(hsl) != 1 || r.Intn(3) == 0 { // any entry of the log will do as a starting point
			vs := sl.Values().Slice()
			e = vs[r.Intn(len(vs))]
		}
		addRoot(e.GetHash())
		supplied = 1
	case "ent":
		srcEntries = sl.Heads().Slice()
		if r.Intn(3) == 0 { // a random non-empty set of entries instead of the heads
			vs := sl.Values().Slice()
			srcEntries = nil
			pick := map[int]bool{}
			for k := 1 + r.Intn(3); k > 0; k-- {
				i := r.Intn(len(vs))
				if !pick[i] {
					pick[i] = true
					srcEntries = append(srcEntries, vs[i])
				}
			}
		}
		// heads gathered from several replicas overlap: now and then one entry is supplied twice
		if len(srcEntries) > 0 && r.Intn(4) == 0 {
			srcEntries = append(srcEntries, srcEntries[r.Intn(len(srcEntries))])
			st.DupSources++
		}
		for _, e := range srcEntries {
			addRoot(e.GetHash())
		}
		supplied = len(srcEntries)
	}

	// exclusion predicate (the loaders that forward ShouldExclude, and FetchAll)
	excl := map[cid.Cid]bool{}
	var exclNames []string
	if (kind == "fa" || kind == "mh" || kind == "eh") && r.Intn(10) < 3 {
		for k := 1 + r.Intn(3); k > 0; k-- {
			c := all[r.Intn(len(all))].GetHash()
			if !excl[c] {
				excl[c] = true
				exclNames = append(exclNames, w.alCid(c))
			}
		}
	}
	var shouldExclude iface.ExcludeFunc
	if len(excl) > 0 {
		shouldExclude = func(c cid.Cid) bool { return excl[c] }
	}

	// faults
	faults := map[cid.Cid]mockstore.FaultKind{}
	var faultNamesL []string
	timeout := time.Duration(0)
	if r.Intn(10) < 4 {
		for k := 1 + r.Intn(3); k > 0; k-- {
			c := all[r.Intn(len(all))].GetHash()
			if _, dup := faults[c]; dup {
				continue
			}
			fk := []mockstore.FaultKind{mockstore.FaultAbsent, mockstore.FaultError, mockstore.FaultCorrupt, mockstore.FaultSlow}[r.Intn(4)]
			faults[c] = fk
			faultNamesL = append(faultNamesL, w.alCid(c)+":"+faultNames[fk])
			st.Faults[faultNames[fk]]++
			if fk == mockstore.FaultSlow {
				timeout = 25 * time.Millisecond
			}
		}
	} else if r.Intn(6) == 0 {
		timeout = 5 * time.Second // a timeout that never fires
	}
	if len(faults) == 0 {
		st.Faults["none"]++
	}
	// stall: the controller stops releasing after a PRNG-chosen number of completions, so the timeout
	// fires with requests in flight (they come back empty although the blocks are retrievable)
	stallAfter := -1
	if mode == "stall" {
		timeout = 25 * time.Millisecond
		stallAfter = r.Intn(6)
	}

	var lp *int
	if n >= 0 {
		v := n
		lp = &v
	} else if r.Intn(3) == 0 {
		v := -1 - r.Intn(3)*r.Intn(50) // "no limit" given explicitly: -1 or any other negative length
		lp = &v
	}
	fmt.Fprintf(out, "F %d kind=%s n=%d conc=%d mode=%s timeout=%d sort=%s src=%d k=%d roots=%s excl=%s faults=%s\n",
		op, kind, n, conc, mode, timeout.Milliseconds(), sk, src, supplied, flst(rootNames), flst(exclNames), flst(faultNamesL))
	st.Ops++
	st.Kinds[kind]++
	st.LenClass[fetchLenClass(n, size)]++
	st.Conc[fmt.Sprint(conc)]++
	st.Modes[mode]++
	st.Sizes[fmt.Sprint(size)]++

	// instrumented store
	d := w.api.D
	d.Faults = faults
	d.Corrupt = corruptNode
	d.ResetGets()
	rd := &recDag{Dag: d, got: map[cid.Cid]bool{}}
	api := &recAPI{inner: w.api, d: rd}
	tr := &ftrace{dispatched: map[cid.Cid]bool{}, dag: rd, active: true}
	sub := rand.New(rand.NewSource(r.Int63()))
	delays := map[cid.Cid]time.Duration{}
	if mode != "free" {
		d.Gate = tr.gate
	} else {
		for _, e := range all {
			delays[e.GetHash()] = time.Duration(sub.Intn(300)) * time.Microsecond
		}
		d.Gate = func(ctx context.Context, c cid.Cid) {
			if dl := delays[c]; dl > 0 {
				select {
				case <-time.After(dl):
				case <-ctx.Done():
				}
			}
		}
	}
	entry.SetVerifHook(tr.hook)

	ident := w.ids.Identity(fmt.Sprintf("loader%d", op))
	var result []iface.IPFSLogEntry
	var loaded *ipfslog.IPFSLog
	var lerr error
	// progress reports (FetchAll): a channel large enough never to block the fetcher; every admitted entry
	// must be reported exactly once
	progress := make(chan iface.IPFSLogEntry, 8192)
	outcome, gOutcome := "ok", "ok" // gOutcome belongs to the operation's goroutine until done is closed
	done := make(chan struct{})
	start := time.Now()
	go func() {
		defer close(done)
		defer func() {
			if rec := recover(); rec != nil {
				gOutcome = "panic"
			}
		}()
		ctx := context.Background()
		switch kind {
		case "fa":
			result = entry.FetchAll(ctx, api, roots, &entry.FetchOptions{Length: lp, Concurrency: conc, Timeout: timeout, ShouldExclude: shouldExclude, ProgressChan: progress})
		case "mh":
			var mhc cid.Cid
			mhc, lerr = sl.ToMultihash(ctx)
			if lerr != nil {
				return
			}
			tr.mu.Lock()
			tr.dispatched[mhc] = false
			tr.mu.Unlock()
			manifestCid = mhc
			loaded, lerr = ipfslog.NewFromMultihash(ctx, api, ident, mhc, &ipfslog.LogOptions{SortFn: fSortFn(sk)},
				&ipfslog.FetchOptions{Length: lp, Concurrency: conc, Timeout: timeout, ShouldExclude: shouldExclude, SortFn: sorting.NoZeroes(fSortFn(sk))})
		case "eh":
			loaded, lerr = ipfslog.NewFromEntryHash(ctx, api, ident, roots[0], &ipfslog.LogOptions{ID: "X", SortFn: fSortFn(sk)},
				&ipfslog.FetchOptions{Length: lp, Concurrency: conc, Timeout: timeout, ShouldExclude: shouldExclude})
		case "json":
			loaded, lerr = ipfslog.NewFromJSON(ctx, api, ident, jsonLog, &ipfslog.LogOptions{SortFn: fSortFn(sk)},
				&entry.FetchOptions{Length: lp, Concurrency: conc, Timeout: timeout})
		case "ent":
			loaded, lerr = ipfslog.NewFromEntry(ctx, api, ident, srcEntries, &ipfslog.LogOptions{SortFn: fSortFn(sk)},
				&entry.FetchOptions{Length: lp, Concurrency: conc, Timeout: timeout})
		}
	}()
	// stop is closed when the operation is over for the harness: it returned, or it is declared hung
	stop := make(chan struct{})
	if mode != "free" {
		go tr.controller(sub, stop, stallAfter)
	}
	select {
	case <-done:
		outcome = gOutcome
	case <-time.After(10 * time.Second):
		outcome = "hang"
		st.Hangs++
	}
	close(stop)
	elapsed := time.Since(start)
	tr.mu.Lock()
	tr.active = false
	events := append([]fev(nil), tr.events...)
	for _, q := range tr.waiting {
		close(q.ch)
	}
	tr.waiting = nil
	maxFlight := tr.maxFlight
	tr.mu.Unlock()
	entry.SetVerifHook(nil)
	d.Gate = nil
	gets := d.GetLog()
	d.Faults = map[cid.Cid]mockstore.FaultKind{}
	if outcome == "ok" && lerr != nil {
		outcome = "err"
	}
	st.Outcomes[outcome]++
	st.MaxInFlight[fmt.Sprint(maxFlight)]++

	sig := fmt.Sprintf("F%s.%d.%d;", kind, n, conc)
	for _, ev := range events {
		if ev.kind == 'D' {
			fmt.Fprintf(out, "D %s\n", w.alCid(ev.c))
		} else {
			g := "none"
			if ev.got {
				g = "got"
			}
			fmt.Fprintf(out, "K %s %s\n", w.alCid(ev.c), g)
		}
		st.Events++
	}
	var gl []string
	for _, c := range gets {
		if kind == "mh" && c == manifestCid {
			gl = append(gl, "M")
		} else {
			gl = append(gl, w.alCid(c))
		}
	}
	fmt.Fprintf(out, "G %s\n", flst(gl))
	if kind == "fa" {
		if outcome == "hang" {
			fmt.Fprintf(out, "R hang -\n")
		} else {
			fmt.Fprintf(out, "R %s %s\n", outcome, flst(w.als(result)))
			var pg []string
		drainProgress:
			for {
				select {
				case e := <-progress:
					pg = append(pg, w.al(e))
				default:
					break drainProgress
				}
			}
			fmt.Fprintf(out, "PG %s\n", flst(pg))
		}
	} else {
		if outcome != "ok" || loaded == nil {
			fmt.Fprintf(out, "LR %s id=- ents=- heads=- vals=-\n", outcome)
		} else {
			ents := w.als(loaded.GetEntries().Slice())
			sort.Strings(ents)
			fmt.Fprintf(out, "LR ok id=%s ents=%s heads=%s vals=%s\n", loaded.GetID(), flst(ents),
				flst(w.als(loaded.Heads().Slice())), flst(w.als(loaded.Values().Slice())))
		}
	}
	fmt.Fprintf(out, "T %d %d\n", elapsed.Milliseconds(), timeout.Milliseconds())
	return sig
}

// manifestCid is the manifest block of the running `mh` operation (operations run one at a time).
var manifestCid cid.Cid
