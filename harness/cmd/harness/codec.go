package main

// codec stream (C08, C12, C18): the real encoders/decoders of io/cbor, io/jsonable, io/pb and enc
// driven on generated entries, manifests, link-encrypted entries, malformed blocks and poisoned
// stored logs.  Every case derives its choices from a PRNG seeded with (seed, case index), so a
// case replays alone (-only) and in a second process (cross-process identifier check).
//
// Line protocol (bytes are hex, "-" = empty, "~" = nil):
//   H <case> <kind>                  kind ∈ wf | lk | mal | poison | vec
//   C <cid bytes> <cid string>       every CID the case mentions (string form oracle)
//   P <plain entry>                  v logId key sig next refs clock payload identity add hash
//   W <ok|err|PANIC> <cid> <block>   ToMultihashWithIO / CreateEntryWithIO: identifier and raw block
//   J <ok|err|PANIC> <jsonable>      cbornode.DecodeInto(block, &jsonable.EntryV2{})
//   R <tag> <ok|err:kind|PANIC> <plain entry>   FromMultihashWithIO / DecodeRawEntry
//   X <cid|err>                      identifier of the re-encoded decoded entry
//   F <ok|field,field..>             harness-side comparison of the read-back entry with the original
//   M / MW / MJ                      manifest: fields, write, DecodeRawJSONLog
//   K, N, S, B, V, G                 link-key cases (see runLinkKey)
//   I, L, D, A, IM, LM, I0, L0, D0   malformed inputs (see runMalformed)
//   E, XP, LD                        poisoned stored logs (see runPoison)
//   Z <case> <same|diff>             cross-process comparison of the identifiers of a case

import (
	"bufio"
	"bytes"
	"context"
	"encoding/base64"
	"encoding/json"
	"fmt"
	"math"
	"math/rand"
	"os"
	"os/exec"
	"sort"
	"strconv"
	"strings"
	"time"

	ipfslog "berty.tech/go-ipfs-log"
	"berty.tech/go-ipfs-log/enc"
	"berty.tech/go-ipfs-log/entry"
	"berty.tech/go-ipfs-log/entry/sorting"
	idp "berty.tech/go-ipfs-log/identityprovider"
	"berty.tech/go-ipfs-log/iface"
	"berty.tech/go-ipfs-log/io/cbor"
	"berty.tech/go-ipfs-log/io/jsonable"
	"berty.tech/go-ipfs-log/io/pb"
	"berty.tech/go-ipfs-log/keystore"
	"github.com/ipfs/go-cid"
	ds "github.com/ipfs/go-datastore"
	dssync "github.com/ipfs/go-datastore/sync"
	cbornode "github.com/ipfs/go-ipld-cbor"
	ipld "github.com/ipfs/go-ipld-format"
	dag "github.com/ipfs/go-merkledag"
	mbase "github.com/multiformats/go-multibase"
	mh "github.com/multiformats/go-multihash"

	"verifharness/hx"
	"verifharness/mockstore"
)

// codecStats: DistinctNontrivial counts distinct generated shapes that exercise something beyond the
// trivial entry: (version class, link-count classes, identity present, clock-time class, payload-length
// class, additional data) of well-formed entries with at least one link or an identity; (next, refs)
// counts of link-key entries with links; and the set of defects of each structured malformed block.
type codecStats struct {
	Cases, DistinctNontrivial                                         int
	WellFormed, Created, Direct, Manifests, LinkKey, LinkEntries      int
	StaleTemplates, PinnedWrites                                      int
	Malformed, MalInputs, MalRandom, MalTruncated, MalStructured      int
	MalManifest, MalV0, MalDecodedOK, MalErr, Panics                  int
	StructValidCbor, Poison, PoisonLoads, Vectors, CrossProcess       int
	WriteErr, WritePanic                                              int
	VHist, LinkCountHist, PayloadClass, TimeClass, MalKinds, ErrKinds map[string]int
	shapes                                                            map[string]bool
}

var codecChild = false // set by -nochild: do not spawn the cross-process check

// ---------------------------------------------------------------- formatting

func codecHx0(b []byte) string {
	if len(b) == 0 {
		return "-"
	}
	return fmt.Sprintf("%x", b)
}

func fmtLinks(l []cid.Cid) string {
	if l == nil {
		return "~"
	}
	if len(l) == 0 {
		return "-"
	}
	s := make([]string, len(l))
	for i, c := range l {
		s[i] = codecHx0(c.Bytes())
		if !c.Defined() {
			s[i] = "_" // the undefined CID
		}
	}
	return strings.Join(s, ",")
}

func clockOf(e iface.IPFSLogEntry) *entry.LamportClock {
	c := e.GetClock()
	if c == nil {
		return nil
	}
	if lc, ok := c.(*entry.LamportClock); ok {
		return lc
	}
	return &entry.LamportClock{ID: c.GetID(), Time: c.GetTime()}
}

func fmtIdentity(i *idp.Identity) string {
	if i == nil {
		return "~"
	}
	s := "~"
	if i.Signatures != nil {
		s = codecHx0(i.Signatures.ID) + "/" + codecHx0(i.Signatures.PublicKey)
	}
	return codecHx0([]byte(i.ID)) + "|" + codecHx0(i.PublicKey) + "|" + codecHx0([]byte(i.Type)) + "|" + s
}

func fmtAdd(m map[string]string) string {
	if len(m) == 0 {
		return "-"
	}
	ks := make([]string, 0, len(m))
	for k := range m {
		ks = append(ks, k)
	}
	sort.Strings(ks)
	out := make([]string, 0, len(ks))
	for _, k := range ks {
		out = append(out, codecHx0([]byte(k))+"="+codecHx0([]byte(m[k])))
	}
	return strings.Join(out, ";")
}

// fmtPlain: v logId key sig next refs clock payload identity add hash
func fmtPlain(e iface.IPFSLogEntry) string {
	cl := "~"
	if c := clockOf(e); c != nil {
		cl = codecHx0(c.ID) + ":" + strconv.Itoa(c.Time)
	}
	h := "~"
	if e.GetHash().Defined() {
		h = codecHx0(e.GetHash().Bytes())
	}
	return fmt.Sprintf("%d %s %s %s %s %s %s %s %s %s %s", e.GetV(), codecHx0([]byte(e.GetLogID())), codecHx0(e.GetKey()), codecHx0(e.GetSig()),
		fmtLinks(e.GetNext()), fmtLinks(e.GetRefs()), cl, codecHx0(e.GetPayload()), fmtIdentity(e.GetIdentity()), fmtAdd(e.GetAdditionalData()), h)
}

// fmtJ: v logId key sig next refs clock payload identity encLinks encNonce hashIsNil
func fmtJ(o *jsonable.EntryV2) string {
	cl := "~"
	if o.Clock != nil {
		cl = codecHx0([]byte(o.Clock.ID)) + ":" + strconv.Itoa(o.Clock.Time)
	}
	id := "~"
	if o.Identity != nil {
		s := "~"
		if o.Identity.Signatures != nil {
			s = codecHx0([]byte(o.Identity.Signatures.ID)) + "/" + codecHx0([]byte(o.Identity.Signatures.PublicKey))
		}
		id = codecHx0([]byte(o.Identity.ID)) + "|" + codecHx0([]byte(o.Identity.PublicKey)) + "|" + codecHx0([]byte(o.Identity.Type)) + "|" + s
	}
	hn := "1"
	if o.Hash != nil {
		hn = "0"
	}
	return fmt.Sprintf("%d %s %s %s %s %s %s %s %s %s %s %s", o.V, codecHx0([]byte(o.LogID)), codecHx0([]byte(o.Key)), codecHx0([]byte(o.Sig)),
		fmtLinks(o.Next), fmtLinks(o.Refs), cl, codecHx0([]byte(o.Payload)), id, codecHx0([]byte(o.EncryptedLinks)), codecHx0([]byte(o.EncryptedLinksNonce)), hn)
}

func errKind(err error) string {
	if err == nil {
		return "ok"
	}
	m := err.Error()
	for _, p := range []struct{ sub, k string }{
		{"decryption error", "decrypt"},
		{"entry deserialization failed: unable to deserialize key", "key"},
		{"entry deserialization failed: unable to deserialize signature", "sig"},
		{"entry deserialization failed: unable to deserialize clock", "clock"},
		{"entry deserialization failed: unable to deserialize identity", "identity"},
		{"entry deserialization failed", "other"},
		{"CBOR operation failed", "cbor"},
		{"protobuf unmarshal failed", "pb"},
	} {
		if strings.Contains(m, p.sub) {
			return "err:" + p.k
		}
	}
	return "err:other"
}

// ---------------------------------------------------------------- helpers

type rawNode struct {
	ipld.Node
	data []byte
	c    cid.Cid
}

func (n *rawNode) RawData() []byte { return n.data }
func (n *rawNode) Cid() cid.Cid    { return n.c }

func cidOfBlock(b []byte) cid.Cid {
	h, _ := mh.Sum(b, mh.SHA2_256, -1)
	return cid.NewCidV1(cid.DagCBOR, h)
}

func randBytes(r *rand.Rand, n int) []byte {
	b := make([]byte, n)
	for i := range b {
		b[i] = byte(r.Intn(256))
	}
	return b
}

var lenGrid = []int{0, 1, 2, 5, 22, 23, 24, 25, 40, 255, 256, 300}
var timeGrid = []int{0, 1, 23, 24, 255, 256, 65535, 65536, 1<<32 - 1, 1 << 32, math.MaxInt64 - 1, math.MaxInt64, -1, -24, -25,
	-256, -257, -65536, -65537, -(1 << 32), -(1 << 32) - 1, math.MinInt64 + 1, math.MinInt64}

func genLen(r *rand.Rand, big bool) int {
	switch r.Intn(10) {
	case 0, 1, 2:
		return lenGrid[r.Intn(len(lenGrid))]
	case 3:
		if big {
			return []int{65535, 65536, 70000}[r.Intn(3)]
		}
		return r.Intn(40)
	default:
		return r.Intn(40)
	}
}

func genTime(r *rand.Rand) int {
	switch r.Intn(4) {
	case 0:
		return timeGrid[r.Intn(len(timeGrid))]
	case 1:
		return int(r.Uint64())
	default:
		return r.Intn(50)
	}
}

func timeClass(t int) string {
	switch {
	case t == math.MinInt64 || t == math.MaxInt64:
		return "extreme"
	case t < -(1 << 32):
		return "neg64"
	case t < 0:
		return "neg"
	case t < 24:
		return "tiny"
	case t < 1<<32:
		return "mid"
	default:
		return "big64"
	}
}

func lenClass(n int) string {
	switch {
	case n == 0:
		return "0"
	case n < 24:
		return "<24"
	case n < 256:
		return "<256"
	case n < 65536:
		return "<64k"
	default:
		return ">=64k"
	}
}

type cidPool struct {
	cs  []cid.Cid
	out *bufio.Writer
	ann map[string]bool
}

func (p *cidPool) announce(c cid.Cid) {
	if !c.Defined() {
		return
	}
	k := string(c.Bytes())
	if p.ann[k] {
		return
	}
	p.ann[k] = true
	fmt.Fprintf(p.out, "C %s %s\n", codecHx0(c.Bytes()), codecHx0([]byte(c.String())))
}

func newCidPool(r *rand.Rand, out *bufio.Writer) *cidPool {
	p := &cidPool{out: out, ann: map[string]bool{}}
	for i := 0; i < 48; i++ {
		b := randBytes(r, 8)
		var c cid.Cid
		switch r.Intn(8) {
		case 0:
			h, _ := mh.Sum(b, mh.SHA2_256, -1)
			c = cid.NewCidV0(h)
		case 1:
			h, _ := mh.Sum(b, mh.IDENTITY, -1)
			c = cid.NewCidV1(cid.Raw, h)
		case 2:
			h, _ := mh.Sum(b, mh.SHA2_512, -1)
			c = cid.NewCidV1(cid.DagProtobuf, h)
		default:
			h, _ := mh.Sum(b, mh.SHA2_256, -1)
			c = cid.NewCidV1(cid.DagCBOR, h)
		}
		p.cs = append(p.cs, c)
	}
	return p
}

func (p *cidPool) links(r *rand.Rand, st *codecStats) []cid.Cid {
	var n int
	switch r.Intn(10) {
	case 0:
		return nil
	case 1, 2:
		n = 0
	case 3, 4, 5, 6:
		n = 1 + r.Intn(3)
	case 7, 8:
		n = 4 + r.Intn(20)
	default:
		n = 24 + r.Intn(17)
	}
	out := make([]cid.Cid, 0, n)
	for i := 0; i < n; i++ {
		c := p.cs[r.Intn(len(p.cs))]
		p.announce(c)
		out = append(out, c)
	}
	return out
}

type codecWorld struct {
	thorough bool
	ctx      context.Context
	out      *bufio.Writer
	st       *codecStats
	ids      *hx.Idents
	io0      *cbor.IOCbor
	seed     int64
	cids     map[int][]string // identifiers written per case (cross-process check)
	cur      int
	idents   []*idp.Identity
	keyIO    *cbor.IOCbor
}

func (w *codecWorld) note(c cid.Cid) { w.cids[w.cur] = append(w.cids[w.cur], c.String()) }

// ---------------------------------------------------------------- (a) well-formed

func genIdentity(r *rand.Rand) *idp.Identity {
	if r.Intn(3) == 0 {
		return nil
	}
	return &idp.Identity{
		ID:         string(randBytes(r, genLen(r, false))),
		PublicKey:  randBytes(r, genLen(r, false)),
		Type:       []string{"orbitdb", "", "x", string(randBytes(r, 3))}[r.Intn(4)],
		Signatures: &idp.IdentitySignature{ID: randBytes(r, genLen(r, false)), PublicKey: randBytes(r, genLen(r, false))},
	}
}

func (w *codecWorld) genDirect(r *rand.Rand, pool *cidPool) *entry.Entry {
	var v uint64
	switch r.Intn(20) {
	case 0, 1:
		v = 0
	case 2, 3, 4:
		v = 1
	case 5:
		v = 3
	case 6:
		v = []uint64{23, 24, 255, 256, 1 << 40, 1 << 63, math.MaxUint64}[r.Intn(7)]
	default:
		v = 2
	}
	e := &entry.Entry{
		V:       v,
		LogID:   string(randBytes(r, genLen(r, false))),
		Payload: randBytes(r, genLen(r, true)),
		Next:    pool.links(r, w.st),
		Refs:    pool.links(r, w.st),
		Key:     randBytes(r, genLen(r, false)),
		Sig:     randBytes(r, genLen(r, false)),
		Clock:   entry.NewLamportClock(randBytes(r, genLen(r, false)), genTime(r)),
	}
	e.Identity = genIdentity(r)
	if r.Intn(6) == 0 {
		e.Hash = pool.cs[r.Intn(len(pool.cs))]
		pool.announce(e.Hash)
	}
	switch r.Intn(12) {
	case 0:
		e.AdditionalData = map[string]string{"foo": "bar", "a": "b"}
	case 1:
		e.AdditionalData = map[string]string{iface.KeyEncryptedLinks: "abc"}
	case 2:
		e.AdditionalData = map[string]string{iface.KeyEncryptedLinks: string(randBytes(r, 1+r.Intn(30))),
			iface.KeyEncryptedLinksNonce: string(randBytes(r, r.Intn(5))), "zz": "y"}
	}
	return e
}

func sameCids(a, b []cid.Cid) bool {
	if len(a) != len(b) {
		return false
	}
	for i := range a {
		if !a[i].Equals(b[i]) {
			return false
		}
	}
	return true
}

func sameIdentity(a, b *idp.Identity) bool {
	if a == nil || b == nil {
		return a == nil && b == nil
	}
	if a.ID != b.ID || a.Type != b.Type || !bytes.Equal(a.PublicKey, b.PublicKey) {
		return false
	}
	if a.Signatures == nil || b.Signatures == nil {
		return a.Signatures == nil && b.Signatures == nil
	}
	return bytes.Equal(a.Signatures.ID, b.Signatures.ID) && bytes.Equal(a.Signatures.PublicKey, b.Signatures.PublicKey)
}

// fieldDiff compares what was written with what was read back, field by field.  `encrypted` says
// that the block carries encrypted links and was read without the key (links are then expected to
// be empty); refs are not stored for v ≤ 1.
func fieldDiff(orig, got iface.IPFSLogEntry, c cid.Cid, linksGone bool) string {
	var d []string
	if !bytes.Equal(orig.GetPayload(), got.GetPayload()) {
		d = append(d, "payload")
	}
	if orig.GetLogID() != got.GetLogID() {
		d = append(d, "id")
	}
	if orig.GetV() != got.GetV() {
		d = append(d, "v")
	}
	if !bytes.Equal(orig.GetKey(), got.GetKey()) {
		d = append(d, "key")
	}
	if !bytes.Equal(orig.GetSig(), got.GetSig()) {
		d = append(d, "sig")
	}
	if linksGone {
		if len(got.GetNext()) != 0 || len(got.GetRefs()) != 0 {
			d = append(d, "links-not-empty")
		}
	} else {
		if !sameCids(orig.GetNext(), got.GetNext()) {
			d = append(d, "next")
		}
		if orig.GetV() > 1 && !sameCids(orig.GetRefs(), got.GetRefs()) {
			d = append(d, "refs")
		}
		if orig.GetV() <= 1 && len(got.GetRefs()) != 0 {
			d = append(d, "refs")
		}
	}
	oc, gc := clockOf(orig), clockOf(got)
	if oc == nil || gc == nil || !bytes.Equal(oc.ID, gc.ID) || oc.Time != gc.Time {
		d = append(d, "clock")
	}
	if !sameIdentity(orig.GetIdentity(), got.GetIdentity()) {
		d = append(d, "identity")
	}
	if !got.GetHash().Equals(c) {
		d = append(d, "hash")
	}
	if len(d) == 0 {
		return "ok"
	}
	return strings.Join(d, ",")
}

func (w *codecWorld) writeLine(tag string, c cid.Cid, err error, panicked bool, api *mockstore.API) []byte {
	switch {
	case panicked:
		fmt.Fprintf(w.out, "%s PANIC - -\n", tag)
		w.st.WritePanic++
		return nil
	case err != nil:
		fmt.Fprintf(w.out, "%s err - -\n", tag)
		w.st.WriteErr++
		return nil
	}
	raw, _ := api.D.Raw(c)
	fmt.Fprintf(w.out, "%s ok %s %s\n", tag, codecHx0([]byte(c.String())), codecHx0(raw))
	w.note(c)
	return raw
}

func (w *codecWorld) jLine(raw []byte) {
	obj := &jsonable.EntryV2{}
	var err error
	p := false
	func() {
		defer func() {
			if rec := recover(); rec != nil {
				p = true
			}
		}()
		err = cbornode.DecodeInto(raw, obj)
	}()
	switch {
	case p:
		fmt.Fprintf(w.out, "J PANIC\n")
		w.st.Panics++
	case err != nil:
		fmt.Fprintf(w.out, "J err\n")
	default:
		fmt.Fprintf(w.out, "J ok %s\n", fmtJ(obj))
	}
}

func (w *codecWorld) readLine(tag string, api *mockstore.API, c cid.Cid, io iface.IO) iface.IPFSLogEntry {
	var got iface.IPFSLogEntry
	var err error
	p := false
	func() {
		defer func() {
			if rec := recover(); rec != nil {
				p = true
			}
		}()
		got, err = entry.FromMultihashWithIO(w.ctx, api, c, nil, io)
	}()
	switch {
	case p:
		fmt.Fprintf(w.out, "R %s PANIC\n", tag)
		w.st.Panics++
		return nil
	case err != nil:
		fmt.Fprintf(w.out, "R %s %s\n", tag, errKind(err))
		return nil
	}
	fmt.Fprintf(w.out, "R %s ok %s\n", tag, fmtPlain(got))
	return got
}

func (w *codecWorld) runWellFormed(h int, r *rand.Rand) {
	fmt.Fprintf(w.out, "H %d wf\n", h)
	w.st.WellFormed++
	api := mockstore.New()
	pool := newCidPool(r, w.out)
	nEntries := 3 + r.Intn(4)
	for k := 0; k < nEntries; k++ {
		var e iface.IPFSLogEntry
		created := r.Intn(3) == 0
		if created {
			ident := w.idents[r.Intn(len(w.idents))]
			in := &entry.Entry{LogID: string(randBytes(r, 1+r.Intn(20))), Payload: randBytes(r, genLen(r, true)), Next: pool.links(r, w.st), Refs: pool.links(r, w.st)}
			if r.Intn(2) == 0 {
				in.Clock = entry.NewLamportClock(ident.PublicKey, genTime(r))
			}
			var err error
			e, err = entry.CreateEntryWithIO(w.ctx, api, ident, in, ceOpts(r, w.st), w.io0)
			if err != nil {
				fmt.Fprintf(w.out, "W err - -\n")
				continue
			}
			w.st.Created++
		} else {
			e = w.genDirect(r, pool)
			w.st.Direct++
		}
		fmt.Fprintf(w.out, "P %s\n", fmtPlain(e))
		// statistics / shape
		cl := clockOf(e)
		shape := fmt.Sprintf("v%d|n%s|r%s|i%v|t%s|p%s|a%d", minU(e.GetV(), 4), lenClass(len(e.GetNext())), lenClass(len(e.GetRefs())),
			e.GetIdentity() != nil, timeClass(cl.Time), lenClass(len(e.GetPayload())), len(e.GetAdditionalData()))
		w.st.VHist[fmt.Sprintf("v%d", minU(e.GetV(), 4))]++
		w.st.LinkCountHist[lenClass(len(e.GetNext())+len(e.GetRefs()))]++
		w.st.PayloadClass[lenClass(len(e.GetPayload()))]++
		w.st.TimeClass[timeClass(cl.Time)]++
		if len(e.GetNext())+len(e.GetRefs()) > 0 || e.GetIdentity() != nil {
			w.st.shapes[shape] = true
		}
		// write
		var c cid.Cid
		var err error
		p := false
		func() {
			defer func() {
				if rec := recover(); rec != nil {
					p = true
				}
			}()
			c, err = entry.ToMultihashWithIO(w.ctx, e, api, ceOpts(r, w.st), w.io0)
		}()
		raw := w.writeLine("W", c, err, p, api)
		if raw == nil {
			continue
		}
		w.jLine(raw)
		got := w.readLine("0", api, c, w.io0)
		if got == nil {
			fmt.Fprintf(w.out, "F unreadable\n")
			continue
		}
		_, hasL := e.GetAdditionalData()[iface.KeyEncryptedLinks]
		_, hasN := e.GetAdditionalData()[iface.KeyEncryptedLinksNonce]
		fmt.Fprintf(w.out, "F %s\n", fieldDiff(e, got, c, e.GetV() > 1 && hasL && hasN))
		// re-encode the decoded entry
		c2, err2 := entry.ToMultihashWithIO(w.ctx, got, api, ceOpts(r, w.st), w.io0)
		if err2 != nil {
			fmt.Fprintf(w.out, "X err -\n")
		} else {
			raw2, _ := api.D.Raw(c2)
			fmt.Fprintf(w.out, "X %s %s\n", codecHx0([]byte(c2.String())), codecHx0(raw2))
		}
	}
	// a nil clock: Write panics (documented outcome of the model, not a decoder path)
	if r.Intn(4) == 0 {
		e := &entry.Entry{V: 2, LogID: "A", Payload: []byte("x")}
		fmt.Fprintf(w.out, "P %s\n", fmtPlain(e))
		p := false
		var err error
		var c cid.Cid
		func() {
			defer func() {
				if rec := recover(); rec != nil {
					p = true
				}
			}()
			c, err = entry.ToMultihashWithIO(w.ctx, e, api, nil, w.io0)
		}()
		w.writeLine("W", c, err, p, api)
	}
	// an undefined link: Write is an error
	if r.Intn(4) == 0 {
		e := &entry.Entry{V: 2, LogID: "A", Payload: []byte("x"), Next: []cid.Cid{cid.Undef}, Clock: entry.NewLamportClock([]byte{1}, 1)}
		fmt.Fprintf(w.out, "P %s\n", fmtPlain(e))
		c, err := entry.ToMultihashWithIO(w.ctx, e, api, nil, w.io0)
		w.writeLine("W", c, err, false, api)
	}
	// manifests
	for k := 0; k < 2; k++ {
		m := &iface.JSONLog{ID: string(randBytes(r, genLen(r, false))), Heads: pool.links(r, w.st)}
		fmt.Fprintf(w.out, "M %s %s\n", codecHx0([]byte(m.ID)), fmtLinks(m.Heads))
		c, err := w.io0.Write(w.ctx, api, m, nil)
		raw := w.writeLine("MW", c, err, false, api)
		w.st.Manifests++
		if raw == nil {
			continue
		}
		n, _ := api.D.Get(w.ctx, c)
		jl, err := w.io0.DecodeRawJSONLog(n)
		if err != nil {
			fmt.Fprintf(w.out, "MJ err\n")
		} else {
			fmt.Fprintf(w.out, "MJ ok %s %s\n", codecHx0([]byte(jl.ID)), fmtLinks(jl.Heads))
		}
	}
}

func minU(a uint64, b uint64) uint64 {
	if a < b {
		return a
	}
	return b
}

// ---------------------------------------------------------------- (b) link key

func containsAny(raw []byte, cs []cid.Cid) int {
	n := 0
	for _, c := range cs {
		if !c.Defined() {
			continue
		}
		forms := [][]byte{c.Bytes(), []byte(c.String())}
		if b58, err := cidB58(c); err == nil {
			forms = append(forms, []byte(b58))
		}
		for _, f := range forms {
			if bytes.Contains(raw, f) {
				n++
			}
		}
	}
	return n
}

func cidB58(c cid.Cid) (string, error) {
	return c.StringOfBase(mbase.Base58BTC)
}

func (w *codecWorld) runLinkKey(h int, r *rand.Rand) {
	fmt.Fprintf(w.out, "H %d lk\n", h)
	w.st.LinkKey++
	api := mockstore.New()
	pool := newCidPool(r, w.out)
	k1b, k2b := randBytes(r, 32), randBytes(r, 32)
	// both keys are built from one scratch buffer that is overwritten and finally wiped, the way key
	// material is handled: a SharedKey must own its bytes
	scratch := make([]byte, 32)
	copy(scratch, k1b)
	k1, _ := enc.NewSecretbox(scratch)
	copy(scratch, k2b)
	k2, _ := enc.NewSecretbox(scratch)
	for i := range scratch {
		scratch[i] = 0
	}
	io1 := w.io0.ApplyOptions(&cbor.Options{LinkKey: k1})
	io2 := w.io0.ApplyOptions(&cbor.Options{LinkKey: k2})
	if r.Intn(2) == 0 {
		// the second codec derived from the first one: the first must keep its own key
		io2 = io1.ApplyOptions(&cbor.Options{LinkKey: k2})
	}
	fmt.Fprintf(w.out, "K %s %s\n", codecHx0(k1b), codecHx0(k2b))
	ident := w.idents[r.Intn(len(w.idents))]
	var prev []cid.Cid
	var lastCreated iface.IPFSLogEntry
	n := 3 + r.Intn(4)
	for k := 0; k < n; k++ {
		next := pool.links(r, w.st)
		refs := pool.links(r, w.st)
		if len(prev) > 0 && r.Intn(2) == 0 {
			next = append(append([]cid.Cid{}, next...), prev[len(prev)-1])
			pool.announce(prev[len(prev)-1])
		}
		if k == 0 { // an entry without links: PreSign leaves it alone
			next, refs = nil, nil
		}
		in := &entry.Entry{LogID: "L" + strconv.Itoa(r.Intn(3)), Payload: randBytes(r, genLen(r, false)), Next: next, Refs: refs,
			Clock: entry.NewLamportClock(ident.PublicKey, r.Intn(100))}
		if lastCreated != nil && len(next)+len(refs) > 0 && r.Intn(3) == 0 {
			// the template is an amended copy of an entry created before: it still carries that entry's
			// encrypted-link additional data (both values, or only one of them)
			c := lastCreated.Copy().(*entry.Entry)
			c.LogID, c.Payload, c.Next, c.Refs, c.Clock = in.LogID, in.Payload, in.Next, in.Refs, in.Clock
			c.Sig, c.Key, c.Identity, c.Hash = nil, nil, nil, cid.Undef
			switch r.Intn(3) {
			case 0:
				delete(c.AdditionalData, iface.KeyEncryptedLinksNonce)
			case 1:
				delete(c.AdditionalData, iface.KeyEncryptedLinks)
			}
			in = c
			w.st.StaleTemplates++
		}
		e, err := entry.CreateEntryWithIO(w.ctx, api, ident, in, nil, io1)
		if err == nil {
			lastCreated = e
		}
		if err != nil {
			fmt.Fprintf(w.out, "W err - -\n")
			continue
		}
		w.st.LinkEntries++
		pool.announce(e.GetHash())
		// the entry as PreSign saw it: the returned entry minus the encrypted-link additional data
		stripped := e.Copy()
		ee := stripped.(*entry.Entry)
		ee.Next, ee.Refs = e.GetNext(), e.GetRefs()
		ee.AdditionalData = map[string]string{}
		ee.Hash = cid.Undef
		fmt.Fprintf(w.out, "P %s\n", fmtPlain(ee))
		w.st.LinkCountHist["lk:"+lenClass(len(e.GetNext())+len(e.GetRefs()))]++
		if len(e.GetNext())+len(e.GetRefs()) > 0 {
			w.st.shapes[fmt.Sprintf("lk|n%d|r%d", len(e.GetNext()), len(e.GetRefs()))] = true
		}
		// oracle values of the sealed box
		if el, ok := e.GetAdditionalData()[iface.KeyEncryptedLinks]; ok {
			ct, _ := base64.StdEncoding.DecodeString(el)
			nonce, _ := base64.StdEncoding.DecodeString(e.GetAdditionalData()[iface.KeyEncryptedLinksNonce])
			ref := cbor.NonceRefForEntry(ee)
			dn, _ := k1.DeriveNonce(ref)
			pt, err := k1.OpenWithNonce(ct, nonce)
			if err != nil {
				pt = nil
			}
			fmt.Fprintf(w.out, "N %s %s %s\n", codecHx0(ref), codecHx0(dn), codecHx0(nonce))
			fmt.Fprintf(w.out, "S %s %s\n", codecHx0(pt), codecHx0(ct))
		} else {
			fmt.Fprintf(w.out, "N ~ ~ ~\nS ~ ~\n")
		}
		raw, _ := api.D.Raw(e.GetHash())
		fmt.Fprintf(w.out, "W ok %s %s\n", codecHx0([]byte(e.GetHash().String())), codecHx0(raw))
		w.note(e.GetHash())
		w.jLine(raw)
		// what the bytes reveal
		nd, _ := api.D.Get(w.ctx, e.GetHash())
		all := append(append([]cid.Cid{}, e.GetNext()...), e.GetRefs()...)
		fmt.Fprintf(w.out, "B %d %d %d\n", len(all), containsAny(raw, all), len(nd.Links()))
		// readers
		g1 := w.readLine("1", api, e.GetHash(), io1)
		w.readLine("0", api, e.GetHash(), w.io0)
		w.readLine("2", api, e.GetHash(), io2)
		fd := "unreadable"
		v1 := "unreadable"
		if g1 != nil {
			fd = fieldDiff(e, g1, e.GetHash(), false)
			v1 = "ok"
			func() {
				defer func() {
					if rec := recover(); rec != nil {
						v1 = "PANIC"
					}
				}()
				if err := g1.Verify(ident.Provider, io1); err != nil {
					v1 = "fail"
				}
			}()
		}
		fmt.Fprintf(w.out, "F %s\n", fd)
		fmt.Fprintf(w.out, "V %s\n", v1)
		prev = append(prev, e.GetHash())
	}
	// two writers with the same key: append, join, reload with the same key / no key / another key
	idA, idB := w.idents[0], w.idents[1]
	la, _ := ipfslog.NewLog(api, idA, &ipfslog.LogOptions{ID: "G", IO: io1})
	lb, _ := ipfslog.NewLog(api, idB, &ipfslog.LogOptions{ID: "G", IO: io1})
	na, nb := 2+r.Intn(5), 1+r.Intn(4)
	okAll := true
	for i := 0; i < na; i++ {
		if _, err := la.Append(w.ctx, randBytes(r, 5), &iface.AppendOptions{PointerCount: 1 + r.Intn(4)}); err != nil {
			okAll = false
		}
	}
	for i := 0; i < nb; i++ {
		if _, err := lb.Append(w.ctx, randBytes(r, 5), nil); err != nil {
			okAll = false
		}
	}
	joinRes := "ok"
	func() {
		defer func() {
			if rec := recover(); rec != nil {
				joinRes = "PANIC"
			}
		}()
		if _, err := lb.Join(la, -1); err != nil {
			joinRes = "err"
		}
	}()
	if !okAll {
		joinRes = "append-err"
	}
	mhash, err := lb.ToMultihash(w.ctx)
	lens := []string{}
	if err == nil {
		w.note(mhash)
		for _, io := range []iface.IO{io1, w.io0, io2} {
			res := "err"
			func() {
				defer func() {
					if rec := recover(); rec != nil {
						res = "PANIC"
					}
				}()
				l, err := ipfslog.NewFromMultihash(w.ctx, api, idA, mhash, &ipfslog.LogOptions{IO: io}, &ipfslog.FetchOptions{})
				if err == nil {
					res = strconv.Itoa(l.Len())
				}
			}()
			lens = append(lens, res)
		}
	} else {
		lens = []string{"nomh", "nomh", "nomh"}
	}
	// no stored block of this world may contain a link
	linked := 0
	for c, nd := range api.D.Blocks {
		if c.Equals(mhash) {
			continue
		}
		if len(nd.Links()) > 0 {
			linked++
		}
	}
	fmt.Fprintf(w.out, "G %s %d %d %d %s %d\n", joinRes, lb.Len(), na+nb, lb.Heads().Len(), strings.Join(lens, " "), linked)
	// merges across codec configurations (a plain log offered to a keyed one, a keyed log offered to a log
	// with another key): refused or not, the SOURCE log's entries must be left exactly as they were, and
	// the source must still be mergeable by a peer of its own configuration
	idP := w.idents[2%len(w.idents)]
	lp, _ := ipfslog.NewLog(api, idP, &ipfslog.LogOptions{ID: "G"})
	lq, _ := ipfslog.NewLog(api, idP, &ipfslog.LogOptions{ID: "G", IO: io2})
	for i := 0; i < 3+r.Intn(3); i++ {
		_, _ = lp.Append(w.ctx, randBytes(r, 4), &iface.AppendOptions{PointerCount: 1 + r.Intn(3)})
		_, _ = lq.Append(w.ctx, randBytes(r, 4), &iface.AppendOptions{PointerCount: 1 + r.Intn(3)})
	}
	finger := func(l *ipfslog.IPFSLog) string {
		var b strings.Builder
		for _, e := range l.Values().Slice() {
			ad := e.GetAdditionalData()
			keys := make([]string, 0, len(ad))
			for k := range ad {
				keys = append(keys, k+"="+ad[k])
			}
			sort.Strings(keys)
			fmt.Fprintf(&b, "%s|%x|%x|%x|%d|%d|%v;", e.GetHash(), e.GetPayload(), e.GetSig(), e.GetKey(), len(e.GetNext()), len(e.GetRefs()), keys)
		}
		return b.String()
	}
	for _, pr := range []struct {
		name     string
		dst, src *ipfslog.IPFSLog
		peerIO   iface.IO
	}{{"keyed<-plain", la, lp, nil}, {"keyed<-otherkey", la, lq, io2}, {"plain<-keyed", lp, lb, io1}} {
		before := finger(pr.src)
		jr := "ok"
		func() {
			defer func() {
				if rec := recover(); rec != nil {
					jr = "PANIC"
				}
			}()
			if _, err := pr.dst.Join(pr.src, -1); err != nil {
				jr = "err"
			}
		}()
		same := finger(pr.src) == before
		peerRes := "ok"
		peer, _ := ipfslog.NewLog(api, w.idents[0], &ipfslog.LogOptions{ID: "G", IO: pr.peerIO})
		if _, err := peer.Join(pr.src, -1); err != nil {
			peerRes = "err"
		}
		fmt.Fprintf(w.out, "XJ %s %s %v %s\n", pr.name, jr, same, peerRes)
	}
}

// ---------------------------------------------------------------- (c) malformed

type cw struct{ b []byte }

func (c *cw) head(major byte, n uint64) {
	switch {
	case n < 24:
		c.b = append(c.b, major<<5|byte(n))
	case n < 1<<8:
		c.b = append(c.b, major<<5|24, byte(n))
	case n < 1<<16:
		c.b = append(c.b, major<<5|25, byte(n>>8), byte(n))
	case n < 1<<32:
		c.b = append(c.b, major<<5|26, byte(n>>24), byte(n>>16), byte(n>>8), byte(n))
	default:
		c.b = append(c.b, major<<5|27, byte(n>>56), byte(n>>48), byte(n>>40), byte(n>>32), byte(n>>24), byte(n>>16), byte(n>>8), byte(n))
	}
}
func (c *cw) text(s string)  { c.head(3, uint64(len(s))); c.b = append(c.b, s...) }
func (c *cw) bytes(s []byte) { c.head(2, uint64(len(s))); c.b = append(c.b, s...) }
func (c *cw) int(i int64) {
	if i >= 0 {
		c.head(0, uint64(i))
	} else {
		c.head(1, uint64(-1-i))
	}
}
func (c *cw) null() { c.b = append(c.b, 0xf6) }
func (c *cw) link(x cid.Cid) {
	c.head(6, 42)
	c.bytes(append([]byte{0}, x.Bytes()...))
}

// a value of a randomly chosen wrong (or right) type
func (c *cw) junk(r *rand.Rand) string {
	switch r.Intn(10) {
	case 0:
		c.null()
		return "null"
	case 1:
		c.int(int64(r.Intn(100)) - 50)
		return "int"
	case 2:
		c.text(string(randBytes(r, r.Intn(6))))
		return "text"
	case 3:
		c.bytes(randBytes(r, r.Intn(6)))
		return "bytes"
	case 4:
		c.head(4, 0)
		return "arr0"
	case 5:
		c.head(4, 2)
		c.int(1)
		c.text("x")
		return "arr"
	case 6:
		c.head(5, 0)
		return "map0"
	case 7:
		c.head(5, 1)
		c.text("a")
		c.int(1)
		return "map"
	case 8:
		c.b = append(c.b, []byte{0xf5, 0xf4}[r.Intn(2)])
		return "bool"
	default:
		c.b = append(c.b, 0xfb, 0x3f, 0xf8, 0, 0, 0, 0, 0, 0)
		return "float"
	}
}

func dmg(r *rand.Rand) bool { return r.Intn(1000) < damagePermille }

func hexStr(r *rand.Rand, kinds *[]string, name string) string {
	if !dmg(r) {
		return []string{"", "0A0b", fmt.Sprintf("%x", randBytes(r, r.Intn(6)))}[r.Intn(3)]
	}
	switch r.Intn(8) {
	case 0:
		*kinds = append(*kinds, name+":badhex")
		return "zz"
	case 1:
		*kinds = append(*kinds, name+":oddhex")
		return "abc"
	case 2:
		return ""
	case 3:
		return "0A0b"
	default:
		return fmt.Sprintf("%x", randBytes(r, r.Intn(6)))
	}
}

// damagePermille is the probability (‰) that a field of a structured malformed block is damaged;
// it is chosen per block so that blocks with exactly one defect are as common as heavily damaged ones.
var damagePermille = 400

// field presence: 0 absent, 1 valid, 2 null, 3 junk
func pres(r *rand.Rand) int {
	if r.Intn(1000) >= damagePermille {
		return 1
	}
	switch r.Intn(4) {
	case 0, 1:
		return 0
	case 2:
		return 2
	default:
		return 3
	}
}

func (w *codecWorld) genStructured(r *rand.Rand, pool *cidPool) ([]byte, []string) {
	damagePermille = []int{0, 40, 40, 100, 100, 400}[r.Intn(6)]
	kinds := []string{}
	type kv struct {
		k string
		v []byte
	}
	var fields []kv
	add := func(k string, f func(c *cw)) {
		c := &cw{}
		f(c)
		fields = append(fields, kv{k, c.b})
	}
	simple := func(name string, valid func(c *cw)) {
		switch pres(r) {
		case 0:
			kinds = append(kinds, name+":absent")
		case 2:
			kinds = append(kinds, name+":null")
			add(name, func(c *cw) { c.null() })
		case 3:
			add(name, func(c *cw) { kinds = append(kinds, name+":"+c.junk(r)) })
		default:
			add(name, valid)
		}
	}
	links := func(c *cw) {
		sel := 4 + r.Intn(4)
		if dmg(r) {
			sel = r.Intn(4)
		}
		switch sel {
		case 0:
			c.head(4, 0)
		case 1:
			kinds = append(kinds, "links:badelem")
			c.head(4, 2)
			c.link(pool.cs[0])
			pool.announce(pool.cs[0])
			c.junk(r)
		case 2:
			kinds = append(kinds, "links:badcid")
			c.head(4, 1)
			c.head(6, 42)
			c.bytes(append([]byte{byte(r.Intn(2))}, randBytes(r, r.Intn(6))...))
		case 3:
			kinds = append(kinds, "links:tag43")
			c.head(4, 1)
			c.head(6, 43)
			c.bytes(append([]byte{0}, pool.cs[1].Bytes()...))
		default:
			n := 1 + r.Intn(3)
			c.head(4, uint64(n))
			for i := 0; i < n; i++ {
				x := pool.cs[r.Intn(len(pool.cs))]
				pool.announce(x)
				c.link(x)
			}
		}
	}
	sigs := func(c *cw) {
		var fs []kv
		for _, name := range []string{"id", "publicKey"} {
			switch pres(r) {
			case 0:
			case 2:
				kinds = append(kinds, "sigs."+name+":null")
				fs = append(fs, kv{name, []byte{0xf6}})
			case 3:
				x := &cw{}
				kinds = append(kinds, "sigs."+name+":"+x.junk(r))
				fs = append(fs, kv{name, x.b})
			default:
				x := &cw{}
				x.text(hexStr(r, &kinds, "sigs."+name))
				fs = append(fs, kv{name, x.b})
			}
		}
		c.head(5, uint64(len(fs)))
		for _, f := range fs {
			c.text(f.k)
			c.b = append(c.b, f.v...)
		}
	}
	simple("v", func(c *cw) { c.int(int64([]int{0, 1, 2, 2, 2, 3, 1 << 40}[r.Intn(7)])) })
	simple("id", func(c *cw) { c.text(string(randBytes(r, r.Intn(5)))) })
	simple("key", func(c *cw) { c.text(hexStr(r, &kinds, "key")) })
	simple("sig", func(c *cw) { c.text(hexStr(r, &kinds, "sig")) })
	switch {
	case dmg(r) && r.Intn(2) == 0:
		kinds = append(kinds, "hash:absent")
	case dmg(r):
		add("hash", func(c *cw) { kinds = append(kinds, "hash:"+c.junk(r)) })
	default:
		add("hash", func(c *cw) { c.null() })
	}
	simple("next", links)
	simple("refs", links)
	simple("clock", func(c *cw) {
		var fs []kv
		switch pres(r) {
		case 0:
			kinds = append(kinds, "clock.id:absent")
		case 2:
			kinds = append(kinds, "clock.id:null")
			fs = append(fs, kv{"id", []byte{0xf6}})
		case 3:
			x := &cw{}
			kinds = append(kinds, "clock.id:"+x.junk(r))
			fs = append(fs, kv{"id", x.b})
		default:
			x := &cw{}
			x.text(hexStr(r, &kinds, "clock.id"))
			fs = append(fs, kv{"id", x.b})
		}
		switch pres(r) {
		case 0:
		case 2:
			fs = append(fs, kv{"time", []byte{0xf6}})
			kinds = append(kinds, "clock.time:null")
		case 3:
			x := &cw{}
			kinds = append(kinds, "clock.time:"+x.junk(r))
			fs = append(fs, kv{"time", x.b})
		default:
			x := &cw{}
			if dmg(r) {
				kinds = append(kinds, "clock.time:uint64")
				x.head(0, math.MaxUint64-uint64(r.Intn(3)))
			} else {
				x.int(int64(genTime(r)))
			}
			fs = append(fs, kv{"time", x.b})
		}
		if dmg(r) && r.Intn(3) == 0 {
			kinds = append(kinds, "clock:extra")
			fs = append(fs, kv{"zzz", []byte{0x01}})
		}
		c.head(5, uint64(len(fs)))
		for _, f := range fs {
			c.text(f.k)
			c.b = append(c.b, f.v...)
		}
	})
	simple("payload", func(c *cw) { c.text(string(randBytes(r, r.Intn(8)))) })
	simple("identity", func(c *cw) {
		var fs []kv
		for _, name := range []string{"id", "type", "publicKey"} {
			switch pres(r) {
			case 0:
			case 2:
				kinds = append(kinds, "identity."+name+":null")
				fs = append(fs, kv{name, []byte{0xf6}})
			case 3:
				x := &cw{}
				kinds = append(kinds, "identity."+name+":"+x.junk(r))
				fs = append(fs, kv{name, x.b})
			default:
				x := &cw{}
				if name == "publicKey" {
					x.text(hexStr(r, &kinds, "identity.publicKey"))
				} else {
					x.text(string(randBytes(r, r.Intn(4))))
				}
				fs = append(fs, kv{name, x.b})
			}
		}
		ssel := 3
		if dmg(r) {
			ssel = r.Intn(3)
		}
		switch ssel {
		case 0:
			kinds = append(kinds, "signatures:absent")
		case 1:
			kinds = append(kinds, "signatures:null")
			fs = append(fs, kv{"signatures", []byte{0xf6}})
		case 2:
			x := &cw{}
			kinds = append(kinds, "signatures:"+x.junk(r))
			fs = append(fs, kv{"signatures", x.b})
		default:
			x := &cw{}
			sigs(x)
			fs = append(fs, kv{"signatures", x.b})
		}
		c.head(5, uint64(len(fs)))
		for _, f := range fs {
			c.text(f.k)
			c.b = append(c.b, f.v...)
		}
	})
	encText := func() string {
		switch r.Intn(4) {
		case 0:
			return string(randBytes(r, r.Intn(6))) // mostly not base64
		case 1:
			return "AAAA"
		default: // valid base64 of every interesting length (secretbox nonce = 24, overhead = 16)
			n := []int{0, 1, 15, 16, 17, 23, 24, 25, 32, 48, 64}[r.Intn(11)]
			return base64.StdEncoding.EncodeToString(randBytes(r, n))
		}
	}
	if r.Intn(5) == 0 {
		// a payload that really authenticates under the reader's link key (written by a key holder, or
		// by anyone when the key leaks) but whose plaintext is hostile
		kinds = append(kinds, "enc-sealed")
		p := &cw{}
		tag42 := func(b []byte) {
			p.head(6, 42)
			p.bytes(b)
		}
		field := []string{"next", "refs"}[r.Intn(2)]
		p.head(5, 1)
		p.text(field)
		switch r.Intn(7) {
		case 0:
			p.head(4, 1)
			tag42(nil) // an empty link
		case 1:
			p.head(4, 1)
			tag42([]byte{0}) // only the multibase prefix
		case 2:
			p.head(4, 1)
			tag42(append([]byte{1}, randBytes(r, 10)...)) // wrong multibase prefix
		case 3:
			p.head(4, 2)
			tag42(append([]byte{0}, randBytes(r, 5)...)) // garbage cid
			tag42(nil)
		case 4:
			p.text("not an array")
		case 5:
			p.head(4, 1)
			p.bytes(nil) // untagged empty bytes where a link is expected
		default:
			p.b = append(p.b, randBytes(r, 1+r.Intn(12))...)
		}
		k, _ := enc.NewSecretbox(make([]byte, 32))
		nonce := randBytes(r, 24)
		if ct, err := k.SealWithNonce(p.b, nonce); err == nil {
			add("enc_links", func(c *cw) { c.text(base64.StdEncoding.EncodeToString(ct)) })
			add("enc_links_nonce", func(c *cw) { c.text(base64.StdEncoding.EncodeToString(nonce)) })
		}
	} else if r.Intn(3) == 0 {
		kinds = append(kinds, "enc")
		add("enc_links", func(c *cw) { c.text(encText()) })
		if r.Intn(4) != 0 {
			add("enc_links_nonce", func(c *cw) { c.text(encText()) })
		}
	} else if r.Intn(8) == 0 {
		add("enc_links_nonce", func(c *cw) { c.text(encText()) })
	}
	if dmg(r) && r.Intn(3) == 0 {
		kinds = append(kinds, "extra")
		add("extra", func(c *cw) { c.int(1) })
	}
	if r.Intn(10) == 0 && len(fields) > 1 {
		kinds = append(kinds, "dup")
		fields = append(fields, fields[r.Intn(len(fields))])
	}
	if r.Intn(4) == 0 {
		kinds = append(kinds, "shuffled")
		r.Shuffle(len(fields), func(i, j int) { fields[i], fields[j] = fields[j], fields[i] })
	}
	out := &cw{}
	out.head(5, uint64(len(fields)))
	for _, f := range fields {
		out.text(f.k)
		out.b = append(out.b, f.v...)
	}
	if r.Intn(12) == 0 {
		kinds = append(kinds, "trailing")
		out.b = append(out.b, randBytes(r, 1+r.Intn(3))...)
	}
	if len(kinds) == 0 {
		kinds = append(kinds, "valid")
	}
	return out.b, kinds
}

// exercise calls every accessor and operation on a decoded entry under recover.
func (w *codecWorld) exercise(e iface.IPFSLogEntry, other iface.IPFSLogEntry, api *mockstore.API, prov idp.Interface) string {
	var bad []string
	try := func(name string, f func()) {
		defer func() {
			if rec := recover(); rec != nil {
				bad = append(bad, name)
			}
		}()
		f()
	}
	try("accessors", func() {
		_ = e.GetPayload()
		_ = e.GetLogID()
		_ = e.GetNext()
		_ = e.GetRefs()
		_ = e.GetV()
		_ = e.GetKey()
		_ = e.GetSig()
		_ = e.GetIdentity()
		_ = e.GetHash().String()
		_ = e.GetAdditionalData()
		_ = e.Defined()
		_ = e.IsValid()
	})
	try("clock", func() {
		c := e.GetClock()
		_ = c.GetID()
		_ = c.GetTime()
		_ = c.Defined()
		_ = c.Compare(other.GetClock())
		_ = other.GetClock().Compare(c)
	})
	try("copy", func() { _ = e.Copy().GetClock().GetTime() })
	try("equals", func() { _ = e.Equals(other); _ = other.Equals(e); _ = e.Equals(e) })
	try("isparent", func() { _ = e.IsParent(other); _ = other.IsParent(e) })
	try("tohashable", func() { _, _ = entry.ToHashable(e) })
	try("tobuffer", func() { _, _ = entry.VerifToBuffer(e) })
	try("normalize", func() { _ = entry.Normalize(e, nil) })
	try("tojsonable", func() { _ = jsonable.ToJsonableEntry(e) })
	try("verify", func() { _ = e.Verify(prov, w.io0) })
	try("verify-pb", func() {
		pbio, _ := pb.IO(&entry.Entry{}, &entry.LamportClock{})
		_ = e.Verify(prov, pbio)
	})
	try("sort", func() {
		_, _ = sorting.LastWriteWins(e, other)
		_, _ = sorting.FirstWriteWins(other, e)
		_, _ = sorting.SortByEntryHash(e, other)
		_, _ = sorting.Compare(e, other)
		_, _ = sorting.SortByClocks(e, other, sorting.First)
		_, _ = sorting.SortByClockID(e, other, sorting.First)
		l := []iface.IPFSLogEntry{e, other, e}
		sorting.Sort(sorting.Compare, l, false)
	})
	try("tomultihash", func() { _, _ = entry.ToMultihashWithIO(w.ctx, e, api, nil, w.io0) })
	try("identity", func() {
		if i := e.GetIdentity(); i != nil {
			_ = i.Filtered()
			_, _ = i.GetPublicKey()
			_ = jsonable.ToJsonableIdentity(i)
			_ = prov.VerifyIdentity(i)
		}
	})
	try("findchildren", func() { _ = entry.FindChildren(e, []iface.IPFSLogEntry{other, e}) })
	try("maps", func() {
		m := entry.NewOrderedMapFromEntries([]iface.IPFSLogEntry{e, other})
		_ = entry.FindHeads(m)
		_ = entry.Difference(m.Slice(), []iface.IPFSLogEntry{other})
	})
	if len(bad) == 0 {
		return "ok"
	}
	return strings.Join(bad, ",")
}

func (w *codecWorld) decodeOne(kind string, raw []byte, api *mockstore.API, other iface.IPFSLogEntry, prov idp.Interface) {
	w.st.MalInputs++
	fmt.Fprintf(w.out, "I %s %s\n", kind, codecHx0(raw))
	// the library decoder alone
	obj := &jsonable.EntryV2{}
	var lerr error
	lp := false
	func() {
		defer func() {
			if rec := recover(); rec != nil {
				lp = true
			}
		}()
		lerr = cbornode.DecodeInto(raw, obj)
	}()
	switch {
	case lp:
		fmt.Fprintf(w.out, "L PANIC\n")
	case lerr != nil:
		fmt.Fprintf(w.out, "L err\n")
	default:
		fmt.Fprintf(w.out, "L ok %s\n", fmtJ(obj))
	}
	// the whole DecodeRawEntry
	c := cidOfBlock(raw)
	node := &rawNode{data: raw, c: c}
	var got iface.IPFSLogEntry
	var err error
	p := false
	func() {
		defer func() {
			if rec := recover(); rec != nil {
				p = true
			}
		}()
		got, err = w.io0.DecodeRawEntry(node, c, prov)
	}()
	switch {
	case p:
		fmt.Fprintf(w.out, "D PANIC\n")
		w.st.Panics++
	case err != nil:
		k := errKind(err)
		fmt.Fprintf(w.out, "D %s\n", k)
		w.st.MalErr++
		w.st.ErrKinds[k]++
	default:
		fmt.Fprintf(w.out, "D ok %s\n", fmtPlain(got))
		w.st.MalDecodedOK++
		res := w.exercise(got, other, api, prov)
		if res != "ok" {
			w.st.Panics++
		}
		fmt.Fprintf(w.out, "A %s\n", res)
	}
	// the same untrusted block read by a reader that has a link key configured
	func() {
		res := "ok"
		defer func() {
			if rec := recover(); rec != nil {
				res = "PANIC"
				w.st.Panics++
			}
			fmt.Fprintf(w.out, "DK %s\n", res)
		}()
		if _, err := w.ioKey().DecodeRawEntry(node, c, prov); err != nil {
			res = "err"
		}
	}()
}

// ioKey is a reader with a fixed link key (for decoding untrusted blocks).
func (w *codecWorld) ioKey() *cbor.IOCbor {
	if w.keyIO == nil {
		k, err := enc.NewSecretbox(make([]byte, 32))
		if err != nil {
			panic(err)
		}
		w.keyIO = w.io0.ApplyOptions(&cbor.Options{LinkKey: k})
	}
	return w.keyIO
}

func (w *codecWorld) runMalformed(h int, r *rand.Rand) {
	fmt.Fprintf(w.out, "H %d mal\n", h)
	w.st.Malformed++
	api := mockstore.New()
	pool := newCidPool(r, w.out)
	ident := w.idents[r.Intn(len(w.idents))]
	// a valid entry to mutate and to use as "the other entry"
	valid, err := entry.CreateEntryWithIO(w.ctx, api, ident, &entry.Entry{LogID: "A", Payload: []byte("hello"), Next: pool.links(r, w.st)}, nil, w.io0)
	if err != nil {
		panic(err)
	}
	validRaw, _ := api.D.Raw(valid.GetHash())
	nMal := 24
	if w.thorough {
		nMal = 60
	}
	for k := 0; k < nMal; k++ {
		switch {
		case k < 4:
			w.st.MalRandom++
			w.st.MalKinds["random"]++
			w.decodeOne("random", randBytes(r, r.Intn(120)), api, valid, ident.Provider)
		case k < 8:
			w.st.MalTruncated++
			b := append([]byte{}, validRaw...)
			kind := "truncated"
			switch r.Intn(4) {
			case 0:
				b = b[:r.Intn(len(b))]
			case 1:
				kind = "flipped"
				b[r.Intn(len(b))] ^= byte(1 << uint(r.Intn(8)))
			case 2:
				kind = "deleted"
				i := r.Intn(len(b))
				b = append(b[:i], b[i+1:]...)
			default:
				kind = "inserted"
				i := r.Intn(len(b))
				b = append(b[:i], append([]byte{byte(r.Intn(256))}, b[i:]...)...)
			}
			w.st.MalKinds[kind]++
			w.decodeOne(kind, b, api, valid, ident.Provider)
		default:
			w.st.MalStructured++
			b, kinds := w.genStructured(r, pool)
			for _, kd := range kinds {
				w.st.MalKinds[kd]++
			}
			if _, err := cbornode.Decode(b, mh.SHA2_256, -1); err == nil {
				w.st.StructValidCbor++
			}
			key := strings.Join(kinds, "+")
			w.st.shapes["mal|"+key] = true
			w.decodeOne("struct:"+strings.ReplaceAll(key, " ", "_"), b, api, valid, ident.Provider)
		}
	}
	// manifests
	for k := 0; k < 6; k++ {
		w.st.MalManifest++
		var raw []byte
		kind := "random"
		switch r.Intn(4) {
		case 0:
			raw = randBytes(r, r.Intn(40))
		case 1:
			kind = "entryblock"
			raw = validRaw
		default:
			kind = "struct"
			c := &cw{}
			var fs [][2][]byte
			if r.Intn(5) != 0 {
				x := &cw{}
				if r.Intn(4) == 0 {
					x.junk(r)
				} else {
					x.text(string(randBytes(r, r.Intn(5))))
				}
				fs = append(fs, [2][]byte{[]byte("id"), x.b})
			}
			if r.Intn(5) != 0 {
				x := &cw{}
				switch r.Intn(5) {
				case 0:
					x.junk(r)
				case 1:
					x.head(4, 1)
					x.head(6, 42)
					x.bytes([]byte{0, 1, 2})
				default:
					n := r.Intn(3)
					x.head(4, uint64(n))
					for i := 0; i < n; i++ {
						cc := pool.cs[r.Intn(len(pool.cs))]
						pool.announce(cc)
						x.link(cc)
					}
				}
				fs = append(fs, [2][]byte{[]byte("heads"), x.b})
			}
			if r.Intn(8) == 0 {
				fs = append(fs, [2][]byte{[]byte("zz"), {0x01}})
			}
			c.head(5, uint64(len(fs)))
			for _, f := range fs {
				c.text(string(f[0]))
				c.b = append(c.b, f[1]...)
			}
			raw = c.b
		}
		fmt.Fprintf(w.out, "IM %s %s\n", kind, codecHx0(raw))
		var jl *iface.JSONLog
		var err error
		p := false
		func() {
			defer func() {
				if rec := recover(); rec != nil {
					p = true
				}
			}()
			jl, err = w.io0.DecodeRawJSONLog(&rawNode{data: raw, c: cidOfBlock(raw)})
		}()
		switch {
		case p:
			fmt.Fprintf(w.out, "LM PANIC\n")
			w.st.Panics++
		case err != nil:
			fmt.Fprintf(w.out, "LM err\n")
		default:
			fmt.Fprintf(w.out, "LM ok %s %s\n", codecHx0([]byte(jl.ID)), fmtLinks(jl.Heads))
		}
	}
	// the legacy codec (protobuf node carrying JSON)
	pbio, _ := pb.IO(&entry.Entry{}, &entry.LamportClock{})
	for k := 0; k < 8; k++ {
		w.st.MalV0++
		m := map[string]interface{}{}
		strs := []string{}
		opt := func(name string, valid func() interface{}) {
			switch pres(r) {
			case 0:
			case 2:
				m[name] = nil
			case 3:
				m[name] = []interface{}{1, "x", map[string]interface{}{"a": 1}, 1.5, true, -3, "zz"}[r.Intn(7)]
			default:
				m[name] = valid()
			}
		}
		cidStrOrJunk := func() string {
			if r.Intn(4) == 0 {
				return []string{"", "zz", "Qm", "bafy"}[r.Intn(4)]
			}
			c := pool.cs[r.Intn(len(pool.cs))]
			pool.announce(c)
			return c.String()
		}
		opt("hash", func() interface{} { s := cidStrOrJunk(); strs = append(strs, s); return s })
		opt("id", func() interface{} { return "A" })
		opt("payload", func() interface{} { return "hello" })
		opt("next", func() interface{} {
			n := r.Intn(3)
			l := make([]interface{}, n)
			for i := range l {
				s := cidStrOrJunk()
				strs = append(strs, s)
				l[i] = s
			}
			return l
		})
		opt("v", func() interface{} { return r.Intn(3) })
		opt("clock", func() interface{} {
			cm := map[string]interface{}{}
			if r.Intn(4) != 0 {
				cm["id"] = hexStr(r, &[]string{}, "c")
			}
			if r.Intn(4) != 0 {
				cm["time"] = r.Intn(5)
			}
			return cm
		})
		opt("key", func() interface{} { return hexStr(r, &[]string{}, "k") })
		opt("sig", func() interface{} { return hexStr(r, &[]string{}, "s") })
		data, _ := json.Marshal(m)
		if r.Intn(8) == 0 {
			data = data[:r.Intn(len(data)+1)]
		}
		for _, s := range strs {
			if c, err := cid.Parse(s); err == nil {
				fmt.Fprintf(w.out, "C0 %s ok %s\n", codecHx0([]byte(s)), codecHx0(c.Bytes()))
			} else {
				fmt.Fprintf(w.out, "C0 %s err\n", codecHx0([]byte(s)))
			}
		}
		fmt.Fprintf(w.out, "I0 %s\n", codecHx0(data))
		v0 := &jsonable.EntryV0{}
		if err := json.Unmarshal(data, v0); err != nil {
			fmt.Fprintf(w.out, "L0 err\n")
		} else {
			hs := "~"
			if v0.Hash != nil {
				hs = codecHx0([]byte(*v0.Hash))
			}
			nx := "~"
			if v0.Next != nil {
				nx = "-"
				if len(v0.Next) > 0 {
					ss := make([]string, len(v0.Next))
					for i, s := range v0.Next {
						ss[i] = codecHx0([]byte(s))
						if len(s) == 0 {
							ss[i] = "_"
						}
					}
					nx = strings.Join(ss, ",")
				}
			}
			cl := "~"
			if v0.Clock != nil {
				cl = codecHx0([]byte(v0.Clock.ID)) + ":" + strconv.Itoa(v0.Clock.Time)
			}
			fmt.Fprintf(w.out, "L0 ok %s %s %s %s %d %s %s %s\n", hs, codecHx0([]byte(v0.ID)), codecHx0([]byte(v0.Payload)), nx, v0.V, cl,
				codecHx0([]byte(v0.Key)), codecHx0([]byte(v0.Sig)))
		}
		node := &dag.ProtoNode{}
		node.SetData(data)
		var got iface.IPFSLogEntry
		var err error
		p := false
		func() {
			defer func() {
				if rec := recover(); rec != nil {
					p = true
				}
			}()
			got, err = pbio.DecodeRawEntry(node, node.Cid(), ident.Provider)
		}()
		switch {
		case p:
			fmt.Fprintf(w.out, "D0 PANIC\n")
			w.st.Panics++
		case err != nil:
			fmt.Fprintf(w.out, "D0 err\n")
		default:
			fmt.Fprintf(w.out, "D0 ok %s\n", fmtPlain(got))
			res := w.exercise(got, valid, api, ident.Provider)
			if res != "ok" {
				w.st.Panics++
			}
			fmt.Fprintf(w.out, "A %s\n", res)
		}
	}
}

// ---------------------------------------------------------------- poisoned stored logs

func (w *codecWorld) runPoison(h int, r *rand.Rand) {
	fmt.Fprintf(w.out, "H %d poison\n", h)
	w.st.Poison++
	api := mockstore.New()
	pool := newCidPool(r, w.out)
	idA, idB := w.idents[0], w.idents[1]
	la, _ := ipfslog.NewLog(api, idA, &ipfslog.LogOptions{ID: "P"})
	lb, _ := ipfslog.NewLog(api, idB, &ipfslog.LogOptions{ID: "P"})
	n := 4 + r.Intn(10)
	for i := 0; i < n; i++ {
		l := la
		if r.Intn(3) == 0 {
			l = lb
		}
		if _, err := l.Append(w.ctx, []byte(fmt.Sprintf("p%d", i)), &iface.AppendOptions{PointerCount: 1 + r.Intn(5)}); err != nil {
			panic(err)
		}
		if r.Intn(4) == 0 {
			_, _ = la.Join(lb, -1)
		}
		if r.Intn(6) == 0 {
			_, _ = lb.Join(la, -1)
		}
	}
	_, _ = la.Join(lb, -1)
	all := la.Values().Slice()
	for _, e := range all {
		pool.announce(e.GetHash())
		fmt.Fprintf(w.out, "E %s %s %s\n", codecHx0(e.GetHash().Bytes()), fmtLinks(e.GetNext()), fmtLinks(e.GetRefs()))
	}
	mhash, err := la.ToMultihash(w.ctx)
	if err != nil {
		panic(err)
	}
	heads := la.Heads().Slice()
	hs := make([]cid.Cid, len(heads))
	for i, e := range heads {
		hs[i] = e.GetHash()
	}
	fmt.Fprintf(w.out, "HD %s\n", fmtLinks(hs))
	for round := 0; round < 3; round++ {
		// choose the poisoned blocks
		api.D.Faults = map[cid.Cid]mockstore.FaultKind{}
		bad := map[cid.Cid][]byte{}
		wouldCrash := false
		var names []string
		for _, e := range all {
			if r.Intn(4) != 0 {
				continue
			}
			raw, _ := api.D.Raw(e.GetHash())
			var b []byte
			kind := ""
			switch r.Intn(6) {
			case 0:
				kind = "random"
				b = randBytes(r, r.Intn(60))
			case 1:
				kind = "truncated"
				b = raw[:r.Intn(len(raw))]
			case 2:
				kind = "noclock"
				c := &cw{}
				c.head(5, 3)
				c.text("v")
				c.int(2)
				c.text("id")
				c.text("P")
				c.text("payload")
				c.text("x")
				b = c.b
			case 3:
				kind = "nosigs"
				c := &cw{}
				c.head(5, 3)
				c.text("v")
				c.int(2)
				c.text("clock")
				c.head(5, 2)
				c.text("id")
				c.text("00")
				c.text("time")
				c.int(1)
				c.text("identity")
				c.head(5, 1)
				c.text("id")
				c.text("x")
				b = c.b
			case 4:
				kind = "badhex"
				c := &cw{}
				c.head(5, 2)
				c.text("key")
				c.text("zz")
				c.text("clock")
				c.head(5, 1)
				c.text("id")
				c.text("00")
				b = c.b
			default:
				kind = "struct"
				b, _ = w.genStructured(r, pool)
			}
			// is the replacement (by accident) decodable?  then it is not a poisoned block.  A block
			// whose decoding panics would kill the process on a fetch worker goroutine: that is
			// recorded as the outcome of the loads instead of being executed.
			decodable, panics := false, false
			func() {
				defer func() {
					if rec := recover(); rec != nil {
						panics = true
					}
				}()
				_, err := w.io0.DecodeRawEntry(&rawNode{data: b}, e.GetHash(), nil)
				decodable = err == nil
			}()
			if panics {
				wouldCrash = true
			}
			if decodable {
				continue
			}
			bad[e.GetHash()] = b
			api.D.Faults[e.GetHash()] = mockstore.FaultCorrupt
			names = append(names, codecHx0(e.GetHash().Bytes())+":"+kind)
		}
		api.D.Corrupt = func(c cid.Cid) ipld.Node { return &rawNode{data: bad[c], c: c} }
		if len(names) == 0 {
			names = []string{"-"}
		}
		fmt.Fprintf(w.out, "XP %s\n", strings.Join(names, ","))
		load := func(tag string, roots []cid.Cid, f func() (*ipfslog.IPFSLog, error)) {
			w.st.PoisonLoads++
			res := ""
			if wouldCrash {
				w.st.Panics++
				fmt.Fprintf(w.out, "LD %s %s PANIC\n", tag, fmtLinks(roots))
				return
			}
			func() {
				defer func() {
					if rec := recover(); rec != nil {
						res = "PANIC"
						w.st.Panics++
					}
				}()
				l, err := f()
				if err != nil {
					res = "err"
					return
				}
				var got []string
				for _, e := range l.GetEntries().Slice() {
					got = append(got, codecHx0(e.GetHash().Bytes()))
				}
				sort.Strings(got)
				res = "ok " + lst(got)
				// the loaded log must be usable
				_ = l.Values().Slice()
				_ = l.Heads().Slice()
				_ = l.ToSnapshot()
			}()
			fmt.Fprintf(w.out, "LD %s %s %s\n", tag, fmtLinks(roots), res)
		}
		// few request slots and a deadline: bad blocks must neither use up the slots nor stall the load
		// (with a stall the deadline turns it into a truncated result, which the model does not predict)
		pconc := []int{0, 0, 1, 1, 2, 3}[r.Intn(6)]
		pto := 3 * time.Second
		load("mh", hs, func() (*ipfslog.IPFSLog, error) {
			return ipfslog.NewFromMultihash(w.ctx, api, idA, mhash, &ipfslog.LogOptions{}, &ipfslog.FetchOptions{Concurrency: pconc, Timeout: pto})
		})
		root := all[r.Intn(len(all))].GetHash()
		load("eh", []cid.Cid{root}, func() (*ipfslog.IPFSLog, error) {
			return ipfslog.NewFromEntryHash(w.ctx, api, idA, root, &ipfslog.LogOptions{ID: "P"}, &ipfslog.FetchOptions{Concurrency: pconc, Timeout: pto})
		})
		load("js", hs, func() (*ipfslog.IPFSLog, error) {
			return ipfslog.NewFromJSON(w.ctx, api, idA, &iface.JSONLog{ID: "P", Heads: hs}, &ipfslog.LogOptions{ID: "P"}, &entry.FetchOptions{Concurrency: pconc, Timeout: pto})
		})
	}
	// a poisoned manifest is an error, not a crash
	api.D.Faults = map[cid.Cid]mockstore.FaultKind{mhash: mockstore.FaultCorrupt}
	mb := randBytes(r, r.Intn(30))
	api.D.Corrupt = func(c cid.Cid) ipld.Node { return &rawNode{data: mb, c: c} }
	res := "ok"
	func() {
		defer func() {
			if rec := recover(); rec != nil {
				res = "PANIC"
				w.st.Panics++
			}
		}()
		if _, err := ipfslog.NewFromMultihash(w.ctx, api, idA, mhash, &ipfslog.LogOptions{}, &ipfslog.FetchOptions{}); err != nil {
			res = "err"
		}
	}()
	fmt.Fprintf(w.out, "LM2 %s\n", res)
}

// ---------------------------------------------------------------- pinned interoperability vectors (a TEST corpus)

func mustHex(s string) []byte {
	b := make([]byte, len(s)/2)
	for i := range b {
		v, _ := strconv.ParseUint(s[2*i:2*i+2], 16, 8)
		b[i] = byte(v)
	}
	return b
}

func mustCid(s string) cid.Cid {
	c, err := cid.Decode(s)
	if err != nil {
		panic(err)
	}
	return c
}

// runVectors replays the fixed identifiers of /repo/test/entry_test.go (fixture keys of test/utils.go).
func (w *codecWorld) runVectors() {
	fmt.Fprintf(w.out, "H -1 vec\n")
	api := mockstore.New()
	store := dssync.MutexWrap(ds.NewMapDatastore())
	for k, v := range map[string]string{
		"userA": "0a135ce157a9ccb8375c2fae0d472f1eade4b40b37704c02df923b78ca03c627",
		"userB": "855f70d3b5224e5af76c23db0792339ca8d968a5a802ff0c5b54d674ef01aaad",
		"userC": "291d4dc915d81e9ebe5627c3f5e7309e819e721ee75e63286baa913497d61c78",
		"userD": "faa2d697318a6f8daeb8f4189fc657e7ae1b24e18c91c3bb9b95ad3c0cc050f8",
		"02a38336e3a47f545a172c9f77674525471ebeda7d6c86140e7a778f67ded92260": "7c6140e9ae4c70eb11600b3d550cc6aac45511b5a660f4e75fe9a7c4e6d1c7b7",
		"03e0480538c2a39951d054e17ff31fde487cb1031d0044a037b53ad2e028a3e77c": "97f64ca2bf7bd6aa2136eb0aa3ce512433bd903b91d48b2208052d6ff286d080",
		"032f7b6ef0432b572b45fcaf27e7f6757cd4123ff5c5266365bec82129b8c5f214": "2b487a932233c8691024c951faaeac207be161797bdda7bd934c0125012a5551",
		"0358df8eb5def772917748fdf8a8b146581ad2041eae48d66cc6865f11783499a6": "1cd65d23d72932f5ca2328988d19a5b11fbab1f4c921ef2471768f1773bd56de",
	} {
		_ = store.Put(w.ctx, ds.NewKey(k), mustHex(v))
	}
	ks, err := keystore.NewKeystore(store)
	if err != nil {
		panic(err)
	}
	ident, err := idp.CreateIdentity(w.ctx, &idp.CreateIdentityOptions{Keystore: ks, ID: "userA", Type: "orbitdb"})
	if err != nil {
		panic(err)
	}
	pool := &cidPool{out: w.out, ann: map[string]bool{}}
	b32 := func(s string) string { return mustCid(s).String() }
	emit := func(name, want string, e iface.IPFSLogEntry, c cid.Cid, cborCoded bool) {
		w.st.Vectors++
		if cborCoded {
			for _, n := range e.GetNext() {
				pool.announce(n)
			}
			fmt.Fprintf(w.out, "P %s\n", fmtPlain(e))
			raw, _ := api.D.Raw(c)
			fmt.Fprintf(w.out, "W ok %s %s\n", codecHx0([]byte(c.String())), codecHx0(raw))
			w.jLine(raw)
			w.readLine("0", api, c, w.io0)
		}
		fmt.Fprintf(w.out, "T %s %s %s\n", name, b32(want), c.String())
	}
	create := func(in *entry.Entry) iface.IPFSLogEntry {
		e, err := entry.CreateEntry(w.ctx, api, ident, in, nil)
		if err != nil {
			panic(err)
		}
		return e
	}
	e1 := create(&entry.Entry{Payload: []byte("hello"), LogID: "A"})
	emit("create-empty", "zdpuAsPdzSyeux5mFsFV1y3WeHAShGNi4xo22cYBYWUdPtxVB", e1, e1.GetHash(), true)
	e2 := create(&entry.Entry{Payload: []byte("hello world"), LogID: "A"})
	emit("create-payload", "zdpuAyvJU3TS7LUdfRxwAnJorkz6NfpAWHGypsQEXLZxcCCRC", e2, e2.GetHash(), true)
	e2.(*entry.Entry).Clock.Tick()
	e3 := create(&entry.Entry{Payload: []byte("hello again"), LogID: "A", Next: []cid.Cid{e2.GetHash()}, Clock: e2.(*entry.Entry).Clock})
	emit("create-next", "zdpuAqsN9Py4EWSfrGYZS8tuokWuiTd9zhS8dhr9XpSGQajP2", e3, e3.GetHash(), true)
	e2b := create(&entry.Entry{Payload: []byte("hello world"), LogID: "A"})
	e4 := create(&entry.Entry{Payload: []byte("hello again"), LogID: "A", Next: []cid.Cid{e2b.GetHash()}})
	emit("frommultihash", "zdpuAnRGWKPkMHqumqdkRJtzbyW6qAGEiBRv61Zj3Ts4j9tQF", e4, e4.GetHash(), true)
	// v1 fixtures
	pk := mustHex("048bef2231e64d5c7147bd4b8afb84abd4126ee8d8335e4b069ac0a65c7be711cea5c1b8d47bc20ebaecdca588600ddf2894675e78b2ef17cf49e7bbaf98080361")
	v1id := &idp.Identity{
		ID:        "03e0480538c2a39951d054e17ff31fde487cb1031d0044a037b53ad2e028a3e77c",
		PublicKey: pk,
		Signatures: &idp.IdentitySignature{
			ID:        mustHex("3045022100f5f6f10571d14347aaf34e526ce3419fd64d75ffa7aa73692cbb6aeb6fbc147102203a3e3fa41fa8fcbb9fc7c148af5b640e2f704b20b3a4e0b93fc3a6d44dffb41e"),
			PublicKey: mustHex("3044022020982b8492be0c184dc29de0a3a3bd86a86ba997756b0bf41ddabd24b47c5acf02203745fda39d7df650a5a478e52bbe879f0cb45c074025a93471414a56077640a4"),
		},
		Type: "orbitdb",
	}
	f1 := &entry.Entry{Payload: []byte("one"), LogID: "A", Next: []cid.Cid{}, V: 1, Key: pk,
		Sig:      mustHex("3045022100f72546c99cf30eda1d394d91209bdb4569408a792caf9dc7c6415fef37a3118d0220645c4a6d218f8fc478af5bab175aaa99e1505d70c2a00997aacafa8de697944e"),
		Identity: v1id, Clock: entry.NewLamportClock(pk, 1)}
	c1, err := entry.ToMultihashWithIO(w.ctx, f1, api, nil, w.io0)
	if err == nil {
		emit("v1-one", "zdpuAsJDrLKrAiU8M518eu6mgv9HzS3e1pfH5XC7LUsFgsK5c", f1, c1, true)
	}
	f2 := &entry.Entry{Payload: []byte("two"), LogID: "A", Next: []cid.Cid{mustCid("zdpuAsJDrLKrAiU8M518eu6mgv9HzS3e1pfH5XC7LUsFgsK5c")}, V: 1, Key: pk,
		Sig:      mustHex("3045022100b85c85c59e6d0952f95e3839e48b43b4073ef26f6f4696d785ce64053cd5869a0220644a4a7a15ddcd2b152611b08bf23b9df7823846719f2d0e4b0aff64190ed146"),
		Identity: v1id, Clock: entry.NewLamportClock(pk, 2)}
	c2, err := w.io0.Write(w.ctx, api, f2, nil)
	if err == nil {
		emit("v1-two", "zdpuAxgKyiM9qkP9yPKCCqrHer9kCqYyr7KbhucsPwwfh6JB3", f2, c2, true)
	}
	// v0 fixtures through the legacy codec
	pbio, _ := pb.IO(&entry.Entry{}, &entry.LamportClock{})
	k0 := mustHex("0411a0d38181c9374eca3e480ecada96b1a4db9375c5e08c3991557759d22f6f2f902d0dc5364a948035002504d825308b0c257b7cbb35229c2076532531f8f4ef")
	s0 := mustHex("3044022062f4cfc8b8f3cc01283b25eab3eeb295614bb0faa8bd20f026c1487ae663121102207ce415bd7423b66d695338c17122e937259f77d1e86494d3146436f0959fccc6")
	h0 := &entry.Entry{Hash: mustCid("Qmc2DEiLirMH73kHpuFPbt3V65sBrnDWkJYSjUQHXXvghT"), LogID: "A", Payload: []byte("hello"), V: 0,
		Clock: entry.NewLamportClock(k0, 0), Sig: s0, Key: k0, Next: []cid.Cid{}}
	if c, err := entry.ToMultihashWithIO(w.ctx, h0, api, nil, pbio); err == nil {
		emit("v0-hello", "Qmc2DEiLirMH73kHpuFPbt3V65sBrnDWkJYSjUQHXXvghT", h0, c, false)
	}
	hw := &entry.Entry{Hash: mustCid("QmUKMoRrmsYAzQg1nQiD7Fzgpo24zXky7jVJNcZGiSAdhc"), LogID: "A", Payload: []byte("hello world"), V: 0,
		Clock: entry.NewLamportClock(k0, 0), Sig: s0, Key: k0, Next: []cid.Cid{}}
	if c, err := pbio.Write(w.ctx, api, hw, nil); err == nil {
		emit("v0-helloworld", "QmenUDpFksTa3Q9KmUJYjebqvHJcTF2sGQaCH7orY7bXKC", hw, c, false)
		// the legacy block decodes to the same fields
		got, err := entry.FromMultihashWithIO(w.ctx, api, c, ident.Provider, pbio)
		res := "err"
		if err == nil {
			res = fieldDiffV0(hw, got)
		}
		fmt.Fprintf(w.out, "T v0-decode ok %s\n", res)
	}
}

func fieldDiffV0(orig, got iface.IPFSLogEntry) string {
	oc, gc := clockOf(orig), clockOf(got)
	if !bytes.Equal(orig.GetPayload(), got.GetPayload()) || orig.GetLogID() != got.GetLogID() || orig.GetV() != got.GetV() ||
		!bytes.Equal(orig.GetKey(), got.GetKey()) || !bytes.Equal(orig.GetSig(), got.GetSig()) || !sameCids(orig.GetNext(), got.GetNext()) ||
		gc == nil || !bytes.Equal(oc.ID, gc.ID) || oc.Time != gc.Time {
		return "diff"
	}
	return "ok"
}

// ---------------------------------------------------------------- driver of the stream

func caseKind(h int) string {
	switch h % 10 {
	case 0, 1, 2, 3, 4:
		return "wf"
	case 5:
		return "lk"
	case 6, 7, 8:
		return "mal"
	default:
		return "poison"
	}
}

func runCodec(seed int64, n int, out *bufio.Writer, thorough bool) *codecStats {
	st := &codecStats{VHist: map[string]int{}, LinkCountHist: map[string]int{}, PayloadClass: map[string]int{}, TimeClass: map[string]int{},
		MalKinds: map[string]int{}, ErrKinds: map[string]int{}, shapes: map[string]bool{}}
	w := &codecWorld{ctx: context.Background(), out: out, st: st, io0: mustIO(), seed: seed, cids: map[int][]string{}, thorough: thorough}
	w.ids = hx.NewIdents(rand.New(rand.NewSource(seed ^ 0x5eed)))
	for _, name := range []string{"userA", "userB", "userC"} {
		w.idents = append(w.idents, w.ids.Identity(name))
	}
	if startCase == 0 && onlyCase < 0 {
		w.cur = -1
		w.runVectors()
		delete(w.cids, -1)
	}
	for h := 0; h < n; h++ {
		if skipCase(h) {
			continue
		}
		st.Cases++
		w.cur = h
		r := rand.New(rand.NewSource(seed*1000003 + int64(h)))
		switch caseKind(h) {
		case "wf":
			w.runWellFormed(h, r)
		case "lk":
			w.runLinkKey(h, r)
		case "mal":
			w.runMalformed(h, r)
		default:
			w.runPoison(h, r)
		}
	}
	// cross-process: the same case in a second process must produce the same identifiers
	if !codecChild && onlyCase < 0 {
		exe, err := os.Executable()
		if err == nil {
			var cand []int
			for h := range w.cids {
				cand = append(cand, h)
			}
			sort.Ints(cand)
			rr := rand.New(rand.NewSource(seed))
			nz := 4
			if thorough {
				nz = 16
			}
			for k := 0; k < nz && len(cand) > 0; k++ {
				h := cand[rr.Intn(len(cand))]
				cmd := exec.Command(exe, "codec", "-seed", strconv.FormatInt(seed, 10), "-n", strconv.Itoa(n), "-only", strconv.Itoa(h), "-nochild")
				outb, err := cmd.Output()
				res := "same"
				if err != nil {
					res = "childerr"
				} else {
					var got []string
					for _, ln := range strings.Split(string(outb), "\n") {
						f := strings.Fields(ln)
						if len(f) >= 3 && (f[0] == "W" || f[0] == "MW") && f[1] == "ok" {
							got = append(got, f[2])
						}
					}
					var want []string
					for _, c := range w.cids[h] {
						want = append(want, codecHx0([]byte(c)))
					}
					// the child prints only W/MW identifiers; compare those that both list
					wantSet := map[string]bool{}
					for _, c := range want {
						wantSet[c] = true
					}
					if len(got) == 0 {
						res = "diff"
					}
					for _, c := range got {
						if !wantSet[c] {
							res = "diff"
						}
					}
				}
				st.CrossProcess++
				fmt.Fprintf(out, "Z %d %s\n", h, res)
			}
		}
	}
	st.DistinctNontrivial = len(st.shapes)
	return st
}

// ceOpts: the options of an entry write — none, empty, or "pin the block" (pinning must change neither the block
// nor its identifier; PreSigned legitimately changes what is written and is never set here)
func ceOpts(r *rand.Rand, st *codecStats) *iface.CreateEntryOptions {
	switch r.Intn(4) {
	case 0:
		return &iface.CreateEntryOptions{}
	case 1:
		st.PinnedWrites++
		return &iface.CreateEntryOptions{Pin: true}
	}
	return nil
}
