package main

// core stream: random histories of appends, joins, bounded joins, loads, iterations over several
// replicas of one log, driven against the real library.  One line per operation with the
// implementation's canonicalised observation; the Lean driver replays the same lines on the model.

import (
	"bufio"
	"bytes"
	"context"
	"fmt"
	"math"
	"math/rand"
	"sort"
	"strconv"
	"strings"
	"time"

	ipfslog "berty.tech/go-ipfs-log"
	"berty.tech/go-ipfs-log/accesscontroller"
	"berty.tech/go-ipfs-log/enc"
	"berty.tech/go-ipfs-log/entry"
	"berty.tech/go-ipfs-log/entry/sorting"
	idp "berty.tech/go-ipfs-log/identityprovider"
	"berty.tech/go-ipfs-log/iface"
	"berty.tech/go-ipfs-log/io/cbor"
	"github.com/ipfs/go-cid"

	"verifharness/hx"
	"verifharness/mockstore"
)

// denyAC is an access controller that refuses entries written by the given identities and — when bang is set —
// every entry whose payload starts with '!' (a verdict that depends on the entry, not only on its writer).
type denyAC struct {
	denied map[string]bool
	bang   bool
}

func (d *denyAC) CanAppend(e accesscontroller.LogEntry, _ idp.Interface, _ accesscontroller.CanAppendAdditionalContext) error {
	id := e.GetIdentity()
	if id == nil {
		return fmt.Errorf("denied by verif access controller: an entry without identity")
	}
	if d.denied[hexs(id.PublicKey)] {
		return fmt.Errorf("denied by verif access controller")
	}
	if p := e.GetPayload(); d.bang && len(p) > 0 && p[0] == '!' {
		return fmt.Errorf("denied by verif access controller: reserved payload")
	}
	return nil
}

type replica struct {
	tampered bool // holds invalid entry objects: only ever used as the SOURCE of joins
	log      *ipfslog.IPFSLog
	writer   string
	sort     string
	id       string
}

type world struct {
	api    *mockstore.API
	ids    *hx.Idents
	reps   []*replica
	alias  map[string]string
	byAl   map[string]iface.IPFSLogEntry
	out    *bufio.Writer
	r      *rand.Rand
	stats  *coreStats
	ctx    context.Context
	nextPl int
	// shape of the history (operation kinds and operands, no hashes) and what makes it non-trivial
	shape         string
	forked        bool
	mergedOverlap bool
	reuseOpts     bool
	aliasOrder    []string
	lenPtrs       map[int]*int
	acl           bool // access-control history: some payloads are reserved ('!…')
	hung          bool // an operation did not return
	clock0        int  // initial clock time of the replicas of this history
	jsonFO        *entry.FetchOptions
	logConc       uint // LogOptions.Concurrency of the replicas of this history (0 = default)
	// codec configuration of the history: nil = default, otherwise link-encrypting with one shared key
	io        iface.IO
	ioDec     *cbor.IOCbor
	optsCache map[string]*ipfslog.LogOptions
	loadOpts  map[string]*ipfslog.LogOptions
}

type coreStats struct {
	Histories, Ops, Appends, Joins, JoinNs, Loads, Iters, SetIds, TieHists, Forks, Exchanges, DeniedAppends, BangAppends, RejectedJoins, AclHists, Tampers, KeyedHists, DerivedCodecs int
	OpHist                                                                                                                                                                            map[string]int
	DistinctNontrivial                                                                                                                                                                int
	shapes                                                                                                                                                                            map[string]bool
}

func sortFnOf(k string) iface.EntrySortFn {
	switch k {
	case "hash":
		return sorting.SortByEntryHash
	case "fww":
		return sorting.FirstWriteWins
	}
	return sorting.LastWriteWins
}

func hexs(b []byte) string { return fmt.Sprintf("%x", b) }

func (w *world) al(e iface.IPFSLogEntry) string {
	k := e.GetHash().String()
	if a, ok := w.alias[k]; ok {
		// another object with a known hash (read back from the store, or copied): its links and clock
		// must be the ones first seen under this hash
		if first, ok := w.byAl[a]; ok && first != e {
			if !sameCidList(first.GetNext(), e.GetNext()) || !sameCidList(first.GetRefs(), e.GetRefs()) ||
				first.GetClock().GetTime() != e.GetClock().GetTime() || string(first.GetClock().GetID()) != string(e.GetClock().GetID()) {
				fmt.Fprintf(w.out, "EX %s next=%d/%d refs=%d/%d\n", a, len(first.GetNext()), len(e.GetNext()), len(first.GetRefs()), len(e.GetRefs()))
			}
		}
		return a
	}
	a := "e" + strconv.Itoa(len(w.alias))
	w.alias[k] = a
	w.byAl[a] = e
	w.aliasOrder = append(w.aliasOrder, a)
	nx := make([]string, 0)
	for _, c := range e.GetNext() {
		nx = append(nx, w.alCid(c))
	}
	rf := make([]string, 0)
	for _, c := range e.GetRefs() {
		rf = append(rf, w.alCid(c))
	}
	fmt.Fprintf(w.out, "E %s %s %s %s %d %s %s\n", a, k, e.GetLogID(), hexs(e.GetClock().GetID()), e.GetClock().GetTime(), lst(nx), lst(rf))
	return a
}

// alCid gives the alias of a cid that may not be defined yet (dangling link): a placeholder
// alias is introduced with a U line.
func (w *world) alCid(c cid.Cid) string {
	k := c.String()
	if a, ok := w.alias[k]; ok {
		return a
	}
	// entries are always defined before anything links to them in this stream, except when a
	// loaded partial log names a block we have never looked at; read it from the store.
	n, err := w.api.D.Get(w.ctx, c)
	if err == nil {
		dec := w.ioDec
		if dec == nil {
			dec = mustIO()
		}
		if e, err := dec.DecodeRawEntry(n, c, nil); err == nil {
			return w.al(e)
		}
	}
	a := "u" + strconv.Itoa(len(w.alias))
	w.alias[k] = a
	fmt.Fprintf(w.out, "U %s %s\n", a, k)
	return a
}

func sameCidList(a, b []cid.Cid) bool {
	if len(a) != len(b) {
		return false
	}
	for i := range a {
		if !a[i].Equals(b[i]) {
			return false
		}
	}
	return true
}

func lst(xs []string) string {
	if len(xs) == 0 {
		return "-"
	}
	return strings.Join(xs, ",")
}

func (w *world) als(es []iface.IPFSLogEntry) []string {
	out := make([]string, 0, len(es))
	for _, e := range es {
		out = append(out, w.al(e))
	}
	return out
}

func (w *world) observe(i int) {
	if w.hung {
		return // an earlier operation never returned: its replica is locked for ever
	}
	l := w.reps[i].log
	ents := w.als(l.GetEntries().Slice())
	sort.Strings(ents)
	heads := w.als(l.Heads().Slice())
	raw := w.als(l.RawHeads().Slice())
	sort.Strings(raw)
	vals := w.als(l.Values().Slice())
	snap := l.ToSnapshot()
	sh := make([]string, 0)
	for _, c := range snap.Heads {
		sh = append(sh, w.alCid(c))
	}
	sort.Strings(sh)
	sv := w.als(snap.Values)
	jh := make([]string, 0)
	for _, c := range l.ToJSONLog().Heads {
		jh = append(jh, w.alCid(c))
	}
	fmt.Fprintf(w.out, "O %d %d %s %s %s %s %d %s %s %s\n", i, l.Len(), lst(ents), lst(heads), lst(raw), lst(vals),
		l.Clock.GetTime(), lst(sh), lst(sv), lst(jh))
	// point look-ups: a few known entries (in this log or not) through Has / Get
	if n := len(w.aliasOrder); n > 0 && !w.reps[i].tampered {
		for k := 0; k < 2; k++ {
			a := w.aliasOrder[w.r.Intn(n)]
			e := w.byAl[a]
			has := l.Has(e.GetHash())
			g, ok := l.Get(e.GetHash())
			same := "-"
			if ok && g != nil {
				same = "same"
				if !g.GetHash().Equals(e.GetHash()) || string(g.GetPayload()) != string(e.GetPayload()) || !sameCidList(g.GetNext(), e.GetNext()) {
					same = "differs"
				}
			}
			fmt.Fprintf(w.out, "G %d %s %v %v %s\n", i, a, has, ok, same)
		}
	}
}

func (w *world) newReplica(id, writer, sk string, deny []string) int {
	ident := w.ids.Identity(writer)
	opts := &ipfslog.LogOptions{ID: id, SortFn: sortFnOf(sk), IO: w.io, Concurrency: w.logConc}
	if w.clock0 != 0 {
		// the replica's clock starts far from zero (a clock seeded from wall-clock nanoseconds, or just
		// beyond 2^53 where float64 arithmetic stops being exact)
		opts.Clock = entry.NewLamportClock(ident.PublicKey, w.clock0)
	}
	if len(deny) == 0 && w.reuseOpts {
		// replicas created from one reused options value (NewLog writes its defaults back into it)
		if w.optsCache == nil {
			w.optsCache = map[string]*ipfslog.LogOptions{}
		}
		if o, ok := w.optsCache[id+"/"+sk]; ok {
			opts = o
		} else {
			w.optsCache[id+"/"+sk] = opts
		}
	}
	var dl []string
	if len(deny) > 0 {
		ac := &denyAC{denied: map[string]bool{}}
		for _, d := range deny {
			if d == "bang" {
				ac.bang = true
				dl = append(dl, "bang")
				continue
			}
			k := hexs(w.ids.Identity(d).PublicKey)
			ac.denied[k] = true
			dl = append(dl, k)
		}
		opts.AccessController = ac
	}
	l, err := ipfslog.NewLog(w.api, ident, opts)
	if err != nil {
		panic(err)
	}
	w.reps = append(w.reps, &replica{log: l, writer: writer, sort: sk, id: id})
	i := len(w.reps) - 1
	fmt.Fprintf(w.out, "N %d %s %s %s %s %d\n", i, id, hexs(ident.PublicKey), sk, lst(dl), w.clock0)
	return i
}

func (w *world) doAppend(i int, pc int) {
	if w.hung {
		return // an earlier operation never returned: its replica is locked for ever
	}
	l := w.reps[i].log
	w.nextPl++
	payload := []byte(fmt.Sprintf("p%d", w.nextPl))
	switch w.r.Intn(14) {
	case 0:
		payload = []byte{} // empty payloads are legal entries
	case 1:
		payload = []byte{0xff, 0x00, byte(w.nextPl), 0xfe} // binary
	}
	bang := ""
	if w.acl && w.r.Intn(4) == 0 {
		// a "reserved" payload: controllers with the bang rule refuse this entry whoever wrote it
		payload = []byte(fmt.Sprintf("!r%d", w.nextPl))
		bang = " bang"
		w.stats.BangAppends++
	}
	var opts *iface.AppendOptions
	if pc != 0 || w.r.Intn(2) == 0 {
		// a quarter of the appends ask for the block to be pinned: the entry and its identifier must not depend on it
		opts = &iface.AppendOptions{PointerCount: pc, Pin: w.r.Intn(4) == 0}
	}
	e, err := l.Append(w.ctx, payload, opts)
	if err != nil {
		tok := "!err"
		if strings.Contains(err.Error(), "denied") {
			tok = "!denied"
		}
		fmt.Fprintf(w.out, "A %d %d %s%s\n", i, pc, tok, bang)
		w.shape += fmt.Sprintf("A%d.%d!;", i, pc)
		w.stats.DeniedAppends++
		return
	}
	fmt.Fprintf(w.out, "A %d %d %s%s\n", i, pc, w.al(e), bang)
	w.shape += fmt.Sprintf("A%d.%d;", i, pc)
	w.stats.Appends++
}

func (w *world) doJoin(i, j, size int) {
	if w.hung {
		return // an earlier operation never returned: its replica is locked for ever
	}
	res := "ok"
	if i != j && w.reps[i].id == w.reps[j].id {
		a, b := w.reps[i].log, w.reps[j].log
		if a.Len() > 0 && b.Len() > 0 {
			common, onlyA, onlyB := 0, 0, 0
			for _, e := range a.GetEntries().Slice() {
				if b.Has(e.GetHash()) {
					common++
				} else {
					onlyA++
				}
			}
			onlyB = b.Len() - common
			if onlyA > 0 && onlyB > 0 {
				w.forked = true
				if common > 0 {
					w.mergedOverlap = true
				}
			}
		}
	}
	w.shape += fmt.Sprintf("J%d.%d.%d;", i, j, size)
	// observed on the source before the call: which of its entry OBJECTS carry no identity (an object is what a
	// merge hands over; the same hash can be an intact object in another replica)
	var noIdent []string
	for _, e := range w.reps[j].log.GetEntries().Slice() {
		if e.GetIdentity() == nil {
			noIdent = append(noIdent, w.al(e))
		}
	}
	done := make(chan string, 1)
	go func() {
		r := "ok"
		defer func() {
			if rec := recover(); rec != nil {
				r = "panic"
			}
			done <- r
		}()
		if _, err := w.reps[i].log.Join(w.reps[j].log, size); err != nil {
			r = "err"
		}
	}()
	select {
	case res = <-done:
	case <-time.After(20 * time.Second):
		// the merge does not return: it holds the replica's lock for ever, the history is abandoned
		res = "hang"
		w.hung = true
	}
	fmt.Fprintf(w.out, "J %d %d %d %s %s\n", i, j, size, res, lst(noIdent))
	if res == "err" {
		w.stats.RejectedJoins++
	}
	if size >= 0 {
		w.stats.JoinNs++
	} else {
		w.stats.Joins++
	}
}

// doNilCalls: the nil / zero-value arguments of the API: a nil log to merge, nil iterator options.  Each
// must be refused with an error and leave the replica alone (the following observation checks that).
func (w *world) doNilCalls(i int) {
	if w.hung {
		return
	}
	l := w.reps[i].log
	res := func(f func() error) (out string) {
		defer func() {
			if rec := recover(); rec != nil {
				out = "panic"
			}
		}()
		if err := f(); err != nil {
			return "err"
		}
		return "ok"
	}
	jn := res(func() error { _, err := l.Join(nil, -1); return err })
	ch := make(chan iface.IPFSLogEntry, 4)
	in := res(func() error { return l.Iterator(nil, ch) })
	fmt.Fprintf(w.out, "Q %d %s %s %d\n", i, jn, in, len(ch))
}

func (w *world) doSetIdentity(i int, writer string) {
	if w.hung {
		return // an earlier operation never returned: its replica is locked for ever
	}
	ident := w.ids.Identity(writer)
	w.reps[i].log.SetIdentity(ident)
	w.reps[i].writer = writer
	fmt.Fprintf(w.out, "S %d %s\n", i, hexs(ident.PublicKey))
	w.stats.SetIds++
}

// doTamper builds a new replica holding a copy of src's log in which some entries are replaced by
// invalid variants (same hash, different content): no signature, corrupted signature, no key, another
// writer's key, changed payload, or a different log id.  Joining from it exercises C06.
func (w *world) doTamper(src int, oldest bool) {
	if w.hung {
		return // an earlier operation never returned: its replica is locked for ever
	}
	s := w.reps[src]
	// any entry may be tampered with, heads included: since repair 17 `Join` computes its heads from the
	// entries it holds, so a forged head object (same hash, other content) can neither replace a checked
	// entry nor prune a head
	isHead := map[string]bool{}
	ents := s.log.GetEntries().Slice()
	if len(ents) == 0 {
		return
	}
	k := 1 + w.r.Intn(3)
	bad := map[string]string{}
	for x := 0; x < k; x++ {
		e := ents[w.r.Intn(len(ents))]
		if oldest {
			// one of the three oldest entries of the linearisation (deep in a long chain)
			vs := s.log.Values().Slice()
			if c := vs[w.r.Intn(minI(3, len(vs)))]; !isHead[c.GetHash().String()] {
				e = c
			}
		}
		bad[e.GetHash().String()] = []string{"nosig", "badsig", "nokey", "otherkey", "payload", "wrongid", "noident"}[w.r.Intn(7)]
	}
	om := entry.NewOrderedMap()
	var invalid, wrongid, noident []string
	mod := map[string]iface.IPFSLogEntry{}
	for _, e := range s.log.GetEntries().Slice() {
		kind, ok := bad[e.GetHash().String()]
		if !ok {
			om.Set(e.GetHash().String(), e)
			continue
		}
		c := e.Copy()
		switch kind {
		case "nosig":
			c.SetSig(nil)
		case "badsig":
			sg := append([]byte(nil), c.GetSig()...)
			sg[len(sg)/2] ^= 0x40
			c.SetSig(sg)
		case "nokey":
			c.SetKey(nil)
		case "otherkey":
			c.SetKey(w.ids.Identity("intruder").PublicKey)
		case "payload":
			c.SetPayload(append(append([]byte(nil), c.GetPayload()...), '!'))
		case "wrongid":
			c.SetLogID("Z")
		case "noident":
			// the identity is not signed: a correctly signed entry without it must still be refused by a
			// controller that decides by identity
			c.SetIdentity(nil)
		}
		mod[e.GetHash().String()] = c
		om.Set(e.GetHash().String(), c)
		switch kind {
		case "wrongid":
			wrongid = append(wrongid, w.al(e))
		case "noident":
			noident = append(noident, w.al(e))
		default:
			invalid = append(invalid, w.al(e))
		}
		w.stats.OpHist["tamper:"+kind]++
	}
	var heads []iface.IPFSLogEntry
	for _, h := range s.log.RawHeads().Slice() {
		if m, ok := mod[h.GetHash().String()]; ok {
			heads = append(heads, m)
		} else {
			heads = append(heads, h)
		}
	}
	ident := w.ids.Identity(s.writer)
	nl, err := ipfslog.NewLog(w.api, ident, &ipfslog.LogOptions{ID: s.id, Entries: om, Heads: heads, SortFn: sortFnOf(s.sort), IO: w.io})
	if err != nil {
		panic(err)
	}
	w.reps = append(w.reps, &replica{log: nl, writer: s.writer, sort: s.sort, id: s.id, tampered: true})
	fmt.Fprintf(w.out, "T %d %d %s %s %s\n", len(w.reps)-1, src, lst(invalid), lst(wrongid), lst(noident))
	w.stats.Tampers++
}

// doLoad builds a new replica from src with one of the four loaders.
func (w *world) doLoad(src int, kind string, n int, writer string, conc int) {
	if w.hung {
		return // an earlier operation never returned: its replica is locked for ever
	}
	s := w.reps[src]
	ident := w.ids.Identity(writer)
	// one limit variable per value and history, reused by every load with that limit, as a caller
	// keeping its options would: a loader must not write through the pointer
	var lp *int
	if n >= 0 {
		if w.lenPtrs == nil {
			w.lenPtrs = map[int]*int{}
		}
		if p, ok := w.lenPtrs[n]; ok {
			lp = p
		} else {
			v := n
			lp = &v
			w.lenPtrs[n] = lp
		}
	}
	want := n
	if n < 0 && w.r.Intn(3) == 0 {
		// "no limit" given explicitly: -1 or any other negative length
		v := -1 - w.r.Intn(3)*w.r.Intn(50)
		lp, want = &v, v
	}
	defer func() {
		if lp != nil && *lp != want {
			fmt.Fprintf(w.out, "LP %d %d\n", want, *lp)
		}
	}()
	var nl *ipfslog.IPFSLog
	var err error
	res := "ok"
	func() {
		defer func() {
			if r := recover(); r != nil {
				res = "panic"
			}
		}()
		// an application that keeps one LogOptions value per way of loading and passes it again and again
		// (a third of the histories): a loader must not leave anything of one load in it for the next
		lo := func(kind string, fresh *ipfslog.LogOptions) *ipfslog.LogOptions {
			if !w.reuseOpts {
				return fresh
			}
			if w.loadOpts == nil {
				w.loadOpts = map[string]*ipfslog.LogOptions{}
			}
			key := kind + "/" + s.sort + "/" + fresh.ID
			if o, ok := w.loadOpts[key]; ok {
				return o
			}
			w.loadOpts[key] = fresh
			return fresh
		}
		switch kind {
		case "mh":
			var h cid.Cid
			h, err = s.log.ToMultihash(w.ctx)
			if err != nil {
				return
			}
			nl, err = ipfslog.NewFromMultihash(w.ctx, w.api, ident, h, lo("mh", &ipfslog.LogOptions{SortFn: sortFnOf(s.sort), IO: w.io}),
				&ipfslog.FetchOptions{Length: lp, Concurrency: conc, SortFn: sorting.NoZeroes(sortFnOf(s.sort))})
		case "eh":
			hs := s.log.Heads().Slice()
			if len(hs) != 1 {
				err = fmt.Errorf("not single headed")
				return
			}
			nl, err = ipfslog.NewFromEntryHash(w.ctx, w.api, ident, hs[0].GetHash(), lo("eh", &ipfslog.LogOptions{ID: s.id, SortFn: sortFnOf(s.sort), IO: w.io}),
				&ipfslog.FetchOptions{Length: lp, Concurrency: conc})
		case "json":
			// one FetchOptions value per history, reused by every NewFromJSON (fresh LogOptions each time),
			// as a caller keeping its fetch options would
			if w.jsonFO == nil {
				w.jsonFO = &entry.FetchOptions{}
			}
			w.jsonFO.Length, w.jsonFO.Concurrency = lp, conc
			nl, err = ipfslog.NewFromJSON(w.ctx, w.api, ident, s.log.ToJSONLog(), lo("json", &ipfslog.LogOptions{SortFn: sortFnOf(s.sort), IO: w.io}), w.jsonFO)
		case "ent":
			nl, err = ipfslog.NewFromEntry(w.ctx, w.api, ident, s.log.Heads().Slice(), lo("ent", &ipfslog.LogOptions{SortFn: sortFnOf(s.sort), IO: w.io}),
				&entry.FetchOptions{Length: lp, Concurrency: conc})
		// in-memory copies through the constructor: the new replica must own its state, whatever the
		// caller handed in (the live entry map, an accessor result, a freshly built map)
		case "json0":
			// a manifest without heads: an empty log with the manifest's id
			nl, err = ipfslog.NewFromJSON(w.ctx, w.api, ident, &iface.JSONLog{ID: s.id}, &ipfslog.LogOptions{SortFn: sortFnOf(s.sort), IO: w.io},
				&entry.FetchOptions{Length: lp, Concurrency: conc})
		case "cpE":
			nl, err = ipfslog.NewLog(w.api, ident, &ipfslog.LogOptions{ID: s.id, SortFn: sortFnOf(s.sort), IO: w.io,
				Entries: s.log.Entries, Heads: s.log.Heads().Slice()})
		case "cpG":
			nl, err = ipfslog.NewLog(w.api, ident, &ipfslog.LogOptions{ID: s.id, SortFn: sortFnOf(s.sort), IO: w.io,
				Entries: s.log.GetEntries()})
		case "cpV":
			nl, err = ipfslog.NewLog(w.api, ident, &ipfslog.LogOptions{ID: s.id, SortFn: sortFnOf(s.sort), IO: w.io,
				Entries: entry.NewOrderedMapFromEntries(s.log.Values().Slice()), Heads: s.log.Heads().Slice()})
		}
	}()
	if res == "ok" && err != nil {
		res = "err"
	}
	if res != "ok" || nl == nil {
		fmt.Fprintf(w.out, "L - %s %d %d %s %s %s\n", kind, src, n, s.sort, hexs(ident.PublicKey), res)
		return
	}
	w.reps = append(w.reps, &replica{log: nl, writer: writer, sort: s.sort, id: nl.ID})
	i := len(w.reps) - 1
	fmt.Fprintf(w.out, "L %d %s %d %d %s %s %s\n", i, kind, src, n, s.sort, hexs(ident.PublicKey), res)
	w.stats.Loads++
	w.observe(i)
}

// past returns the causal past (inclusive) of the given entries inside log l, via next links.
func past(l *ipfslog.IPFSLog, roots []iface.IPFSLogEntry) []iface.IPFSLogEntry {
	seen := map[string]bool{}
	var out []iface.IPFSLogEntry
	st := append([]iface.IPFSLogEntry(nil), roots...)
	for len(st) > 0 {
		e := st[0]
		st = st[1:]
		k := e.GetHash().String()
		if seen[k] {
			continue
		}
		seen[k] = true
		out = append(out, e)
		for _, c := range e.GetNext() {
			if n, ok := l.Get(c); ok {
				st = append(st, n)
			}
		}
	}
	return out
}

func (w *world) doIter(i int) {
	if w.hung {
		return // an earlier operation never returned: its replica is locked for ever
	}
	l := w.reps[i].log
	all := l.Values().Slice()
	opts := &ipfslog.IteratorOptions{}
	lteS, ltS, gteS, gtS, amS := "*", "*", "-", "-", "-"
	var upper []iface.IPFSLogEntry
	switch c := w.r.Intn(10); {
	case c < 4 && len(all) > 0: // LTE with 1..3 bounds
		k := 1 + w.r.Intn(3)
		var cs []cid.Cid
		var names []string
		for x := 0; x < k; x++ {
			e := all[w.r.Intn(len(all))]
			cs = append(cs, e.GetHash())
			names = append(names, w.al(e))
			upper = append(upper, e)
		}
		if w.r.Intn(12) == 0 { // unknown bound
			u := unknownCid(w.r)
			cs = append(cs, u)
			names = append(names, w.alCid(u))
		}
		opts.LTE = cs
		lteS = lst(names)
	case c < 6 && len(all) > 0: // LT single
		e := all[w.r.Intn(len(all))]
		opts.LT = []cid.Cid{e.GetHash()}
		ltS = w.al(e)
		for _, c := range e.GetNext() {
			if n, ok := l.Get(c); ok {
				upper = append(upper, n)
			}
		}
		if w.r.Intn(12) == 0 {
			u := unknownCid(w.r)
			opts.LT = []cid.Cid{u}
			ltS = w.alCid(u)
		}
	case c == 6:
		opts.LTE = []cid.Cid{}
		lteS = "-"
	default:
		upper = l.Heads().Slice()
	}
	rng := past(l, upper)
	if len(rng) > 0 && w.r.Intn(2) == 0 {
		e := rng[w.r.Intn(len(rng))]
		if w.r.Intn(2) == 0 {
			opts.GTE = e.GetHash()
			gteS = w.al(e)
			// both lower bounds at once (no extra PRNG draw, so the histories of a seed are unchanged): the
			// code ends at GTE and drops it because GT is set (Props/C15 iter_range_gte_gt)
			if len(rng) >= 2 && (len(all)+len(rng))%3 == 0 {
				e2 := rng[(len(all)*7+len(rng))%len(rng)]
				opts.GT = e2.GetHash()
				gtS = w.al(e2)
			}
		} else {
			opts.GT = e.GetHash()
			gtS = w.al(e)
		}
	}
	if w.r.Intn(3) != 0 {
		a := w.r.Intn(len(all) + 4)
		if w.r.Intn(15) == 0 {
			a = -1 - w.r.Intn(3)
		}
		opts.Amount = &a
		amS = strconv.Itoa(a)
	}
	ch := make(chan iface.IPFSLogEntry, len(all)+8)
	res := "ok"
	var err error
	func() {
		defer func() {
			if r := recover(); r != nil {
				res = "panic"
			}
		}()
		err = l.Iterator(opts, ch)
	}()
	if res == "ok" && err != nil {
		res = "err:" + errClass(err)
	}
	// Iterator is synchronous and the channel is large enough never to block it: everything it
	// emitted is buffered now, and `closed` says whether it closed the channel.
	var outs []string
	closed := 0
drain:
	for {
		select {
		case e, ok := <-ch:
			if !ok {
				closed = 1
				break drain
			}
			outs = append(outs, w.al(e))
		default:
			break drain
		}
	}
	fmt.Fprintf(w.out, "I %d %s %s %s %s %s %s %d %s\n", i, lteS, ltS, gteS, gtS, amS, res, closed, lst(outs))
	w.stats.Iters++
}

// doIterConsume iterates the whole log over an UNBUFFERED channel while the consumer appends to the same
// log after each of the first few entries it receives (a reader that acknowledges what it reads).  The
// iteration must deliver the state at the call and end.  Returns false when it does not end (the replica
// is then unusable: the history is abandoned).
func (w *world) doIterConsume(i int) bool {
	l := w.reps[i].log
	ch := make(chan iface.IPFSLogEntry)
	errc := make(chan error, 1)
	go func() {
		defer func() {
			if r := recover(); r != nil {
				errc <- fmt.Errorf("panic")
			}
		}()
		errc <- l.Iterator(&ipfslog.IteratorOptions{}, ch)
	}()
	// the A lines of the appends are held back until the I line is out: the model iterates first
	saved := w.out
	var buf bytes.Buffer
	w.out = bufio.NewWriter(&buf)
	var got []iface.IPFSLogEntry
	closed, hang := 0, false
	acks := 0
recv:
	for {
		select {
		case e, ok := <-ch:
			if !ok {
				closed = 1
				break recv
			}
			got = append(got, e)
			if acks < 3 {
				acks++
				done := make(chan struct{})
				go func() {
					w.doAppend(i, 1)
					w.observe(i) // the appended entry is checked at the next observation of its replica
					close(done)
				}()
				select {
				case <-done:
				case <-time.After(4 * time.Second):
					hang = true
					break recv
				}
			}
		case <-time.After(4 * time.Second):
			hang = true
			break recv
		}
	}
	res := "ok"
	if hang {
		res = "hang"
	} else if err := <-errc; err != nil {
		res = "err:" + errClass(err)
	}
	appends := w.out
	w.out = saved
	var outs []string
	for _, e := range got {
		outs = append(outs, w.al(e))
	}
	fmt.Fprintf(w.out, "I %d * * - - - %s %d %s\n", i, res, closed, lst(outs))
	if !hang {
		appends.Flush()
		w.out.Write(buf.Bytes())
	}
	w.stats.Iters++
	w.stats.OpHist["iter:consume"]++
	return !hang
}

func errClass(err error) string {
	s := err.Error()
	switch {
	case strings.Contains(s, "LTE"), strings.Contains(s, "lte"):
		return "lte"
	case strings.Contains(s, "LT"), strings.Contains(s, "lt"):
		return "lt"
	}
	return "other"
}

func unknownCid(r *rand.Rand) cid.Cid {
	b := make([]byte, 16)
	for i := range b {
		b[i] = byte(r.Intn(256))
	}
	c, err := cid.V1Builder{Codec: cid.DagCBOR, MhType: 0x12}.Sum(b)
	if err != nil {
		panic(err)
	}
	return c
}

var pcChoices = []int{0, 0, 0, 1, 1, 2, 3, 4, 5, 8, 16, 64, -3, 1000}

func runCore(seed int64, nHist, nOps int, out *bufio.Writer, thorough bool) *coreStats {
	stats := &coreStats{OpHist: map[string]int{}, shapes: map[string]bool{}}
	for h := 0; h < nHist; h++ {
		if skipCase(h) {
			continue
		}
		hs := seed*1000003 + int64(h)
		r := rand.New(rand.NewSource(hs))
		w := &world{api: mockstore.New(), ids: hx.NewIdents(r), alias: map[string]string{}, byAl: map[string]iface.IPFSLogEntry{},
			out: out, r: r, stats: stats, ctx: context.Background()}
		nRep := 2 + r.Intn(3)
		if thorough {
			nRep = 2 + r.Intn(5)
		}
		nWr := 1 + r.Intn(4)
		sk := []string{"lww", "lww", "lww", "hash", "hash", "fww"}[r.Intn(6)]
		// ties arise when two replicas share a writer
		shared := r.Intn(4) == 0
		// one history in sixteen is WIDE: seven to nine replicas, each its own writer, so that merged logs have many
		// concurrent heads (more heads than the pointer count of an append, heads that are not the newest entries)
		wide := !shared && h%16 == 11
		if wide {
			nRep = 7 + int(hs%3)
			stats.OpHist["wideHistory"]++
		}
		// size-bounded joins under every ordering; length-limited loads only under the causality-respecting ones
		// (under first-write-wins "the most recent n" of a bounded fetch is not what sort-and-trim keeps)
		bounded := !shared && r.Intn(4) == 0
		ops := nOps
		if shared {
			ops = minI(nOps, 14) // keep every sorted slice ≤ 20 elements (see DESIGN §4.1 Sorting)
			stats.TieHists++
		}
		acl := !shared && r.Intn(4) == 0
		if acl {
			stats.AclHists++
		}
		// one history in twenty-five is LONG: a few hundred operations, mostly appends, so that logs of
		// hundreds of entries, deep reference chains and sorts far beyond 20 elements occur
		long := !shared && !acl && h%25 == 7
		if long {
			ops = maxI(nOps, 220)
			stats.OpHist["longHistory"]++
		}
		w.reuseOpts = r.Intn(3) == 0
		w.clock0 = []int{0, 0, 0, 0, 0, 0, 1<<53 - 2, 1<<53 + 7, 1758931200000000000, 1<<62 + 12345}[r.Intn(10)]
		w.logConc = []uint{0, 0, 1, 2, 3, 16, 64}[r.Intn(7)]
		w.ioDec = mustIO()
		keyed := r.Intn(4) == 0
		if keyed {
			kb := make([]byte, 32)
			for i := range kb {
				kb[i] = byte(r.Intn(256))
			}
			lk, _ := enc.NewSecretbox(kb)
			for i := range kb {
				kb[i] = 0 // the key buffer is wiped after construction: the SharedKey must own its bytes
			}
			keyedIO := mustIO().ApplyOptions(&cbor.Options{LinkKey: lk})
			w.ioDec = keyedIO
			w.io = w.ioDec
			stats.KeyedHists++
			// further codecs derived FROM the keyed one (a key-less codec for a public log, a decoder with the
			// same key): deriving must not change the codec the logs of this history go on using
			if r.Intn(2) == 0 {
				_ = keyedIO.ApplyOptions(&cbor.Options{})
				w.ioDec = keyedIO.ApplyOptions(&cbor.Options{LinkKey: lk})
				stats.DerivedCodecs++
			}
		}
		w.acl = acl
		// one history in four mixes orderings between its replicas
		mixed := sk != "fww" && h%4 == 1
		if mixed {
			stats.OpHist["mixedOrderings"]++
		}
		fmt.Fprintf(out, "H %d %d shared=%v bounded=%v sort=%s acl=%v keyed=%v\n", h, hs, shared, bounded, sk, acl, keyed)
		for i := 0; i < nRep; i++ {
			wr := fmt.Sprintf("w%d", i)
			if shared {
				wr = fmt.Sprintf("w%d", r.Intn(nWr))
			}
			id := "X"
			if i == nRep-1 && r.Intn(8) == 0 {
				id = "Y"
			}
			var deny []string
			if acl {
				for j := 0; j < nRep; j++ {
					if j != i && r.Intn(10) < 3 {
						deny = append(deny, fmt.Sprintf("w%d", j))
					}
				}
				if r.Intn(10) == 0 {
					deny = append(deny, wr)
				}
				// half of the controllers of an access-control history also refuse reserved payloads, whoever signs them
				if h%2 == 0 && (i+h/2)%2 == 0 {
					deny = append(deny, "bang")
				}
			}
			rsk := sk
			if mixed {
				// every replica its own ordering (both respect causality): a writer's head order need not be the reader's
				rsk = []string{"lww", "hash"}[r.Intn(2)]
			}
			w.newReplica(id, wr, rsk, deny)
		}
		if acl && r.Intn(3) == 0 {
			// a long chain with an invalid entry near its root, merged in one go into an empty replica:
			// more candidates in a single join than any worker pool size
			src := r.Intn(len(w.reps))
			cnt := 17 + r.Intn(24)
			for k := 0; k < cnt; k++ {
				w.doAppend(src, pcChoices[r.Intn(len(pcChoices))])
				w.observe(src)
			}
			w.doTamper(src, true)
			tam := len(w.reps) - 1
			dst := w.newReplica(w.reps[src].id, fmt.Sprintf("w%d", len(w.reps)), sk, nil)
			w.doJoin(dst, tam, -1)
			w.observe(dst)
			w.doJoin(dst, src, -1)
			w.observe(dst)
			stats.OpHist["bigTamperJoin"]++
		}
		if (shared || sk != "lww" || mixed) && h%3 == 1 {
			// flat start: every replica appends one entry, then two of them merge everybody — logs in which every
			// entry is a head (with equal clocks when writers are shared), observed before anything links them
			// (tampered copies are sources of joins only: they share their source's writer, an append there would tie)
			var live []int
			for i := range w.reps {
				if !w.reps[i].tampered {
					live = append(live, i)
				}
			}
			for _, i := range live {
				w.r = r
				w.doAppend(i, 0)
				w.observe(i)
			}
			for _, dst := range []int{live[0], live[len(live)-1]} {
				for _, j := range live {
					if j != dst {
						w.doJoin(dst, j, -1)
						w.observe(dst)
					}
				}
			}
			// then the first replica writes an entry naming all of them (in ITS order) and the last one takes it over:
			// a single head with several predecessors, linearised by a reader that may order them differently
			last := live[len(live)-1]
			w.r = r
			w.doAppend(live[0], 0)
			w.observe(live[0])
			w.doJoin(last, live[0], -1)
			w.observe(last)
			stats.OpHist["flatStart"]++
		}
		if maxOps >= 0 && ops > maxOps {
			ops = maxOps // same PRNG prefix: the history is a prefix of the full one
		}
		aborted := false
		base := r
		for k := 0; k < ops && !aborted; k++ {
			if dropOps[k] {
				continue // shrinking: this operation is left out; the others keep their own random choices
			}
			// every operation draws from its own PRNG (history seed, operation index): leaving one out
			// or truncating the history does not change the choices of the others
			r := rand.New(rand.NewSource(hs*1000003 + int64(k)*7919 + 17))
			w.r = r
			n := len(w.reps)
			i := r.Intn(n)
			for w.reps[i].tampered {
				i = r.Intn(n)
			}
			c := r.Intn(100)
			if long && c >= 45 && c < 94 && r.Intn(3) != 0 {
				c = r.Intn(45) // mostly appends
			}
			switch {
			case wide && c >= 60 && c < 72:
				// gather: the replica merges most of the others one after the other (many concurrent heads, chains of
				// different lengths) and appends with a small pointer count
				for j := 0; j < n; j++ {
					if j != i && !w.reps[j].tampered && r.Intn(4) != 0 {
						w.doJoin(i, j, -1)
						w.observe(i)
					}
				}
				w.doAppend(i, []int{0, 1, 1, 2, 3}[r.Intn(5)])
				stats.OpHist["gatherAppend"]++
			case c < 45:
				w.doAppend(i, pcChoices[r.Intn(len(pcChoices))])
				stats.OpHist["append"]++
			case c < 70:
				j := r.Intn(n)
				sz := -1
				if r.Intn(10) == 0 {
					sz = -2 - r.Intn(8) // every negative bound means "no bound"
				}
				w.doJoin(i, j, sz)
				stats.OpHist["join"]++
				if r.Intn(25) == 0 {
					w.doNilCalls(i)
				}
			case c < 80 && bounded:
				j := r.Intn(n)
				tot := w.reps[i].log.Len() + w.reps[j].log.Len()
				bound := r.Intn(tot + 4)
				if r.Intn(12) == 0 {
					// bounds far beyond any log size behave like the unbounded merge
					bound = []int{1 << 20, 1 << 44, 1<<53 + 1, math.MaxInt64}[r.Intn(4)]
				}
				w.doJoin(i, j, bound)
				stats.OpHist["joinN"]++
				// a burst of further bounded joins into the same (now trimmed) replica, from arbitrary —
				// often stale — replicas, with bounds around its current size
				for b := r.Intn(4); b > 0; b-- {
					w.observe(i)
					k2 := r.Intn(n)
					w.doJoin(i, k2, r.Intn(w.reps[i].log.Len()+4))
					stats.OpHist["joinN"]++
				}
			case c < 86:
				if r.Intn(6) == 0 {
					if !w.doIterConsume(i) {
						aborted = true
					}
				} else {
					w.doIter(i)
				}
				stats.OpHist["iter"]++
			case c < 90 && len(w.reps) < 9:
				kind := []string{"mh", "eh", "json", "ent", "cpE", "cpG", "cpV"}[r.Intn(7)]
				if r.Intn(30) == 0 {
					kind = "json0"
				}
				nn := -1
				if bounded && sk != "fww" && r.Intn(2) == 0 && !shared && kind[0] != 'c' {
					nn = r.Intn(w.reps[i].log.Len() + 4)
				}
				conc := []int{0, 1, 2, 4, 32}[r.Intn(5)]
				wr := fmt.Sprintf("w%d", len(w.reps))
				if shared {
					wr = w.reps[i].writer
				}
				w.doLoad(i, kind, nn, wr, conc)
				stats.OpHist["load:"+kind]++
				continue
			case c < 94 && c >= 92 && acl && len(w.reps) < 9:
				w.doTamper(i, false)
				stats.OpHist["tamper"]++
				continue
			case c < 92 && (shared || acl):
				if acl {
					// a fresh identity: sharing a writer between replicas would create clock ties
					w.doSetIdentity(i, fmt.Sprintf("s%d_%d", i, k))
				} else {
					w.doSetIdentity(i, fmt.Sprintf("w%d", r.Intn(nWr)))
				}
				stats.OpHist["setid"]++
			default:
				w.doAppend(i, 0)
				stats.OpHist["append"]++
			}
			if w.hung {
				aborted = true
			}
			if aborted {
				break // an operation did not end: the replica holds its lock for ever
			}
			w.observe(i)
			stats.Ops++
		}
		w.r = base
		if aborted {
			fmt.Fprintf(out, "X abort\n")
			stats.Histories++
			out.Flush()
			continue
		}
		// every replica is rebuilt once from what it publishes (a random loader, no limit) and the
		// rebuilt log is compared with it; the rebuilt replica is then forgotten
		for i := 0; i < len(w.reps); i++ {
			if w.reps[i].tampered || w.reps[i].log.Len() == 0 || len(w.reps) >= 16 {
				continue
			}
			before := len(w.reps)
			kinds := []string{"mh", "json", "ent"}
			if w.reps[i].log.Heads().Len() == 1 {
				kinds = append(kinds, "eh")
			}
			wr := fmt.Sprintf("ld%d", i)
			if shared {
				wr = w.reps[i].writer
			}
			w.doLoad(i, kinds[r.Intn(len(kinds))], -1, wr, []int{0, 1, 2, 4, 32}[r.Intn(5)])
			if len(w.reps) > before {
				fmt.Fprintf(out, "Z %d\n", len(w.reps)-1)
				w.reps = w.reps[:before]
			}
			stats.OpHist["load:final"]++
		}
		// complete exchange in a PRNG order, until nothing changes
		fmt.Fprintf(out, "X begin\n")
		for round := 0; round < 6; round++ {
			changed := false
			pairs := [][2]int{}
			for i := range w.reps {
				for j := range w.reps {
					if i != j && !w.reps[i].tampered {
						pairs = append(pairs, [2]int{i, j})
					}
				}
			}
			r.Shuffle(len(pairs), func(a, b int) { pairs[a], pairs[b] = pairs[b], pairs[a] })
			for _, p := range pairs {
				before := w.reps[p[0]].log.Len()
				w.doJoin(p[0], p[1], -1)
				if w.reps[p[0]].log.Len() != before {
					changed = true
				}
			}
			if !changed {
				break
			}
		}
		for i := range w.reps {
			w.observe(i)
		}
		fmt.Fprintf(out, "X end\n")
		if keyed {
			// with a link key no entry block may carry traversable links (manifests do: their heads)
			linked, blocks := 0, 0
			for c, nd := range w.api.D.Blocks {
				if _, ok := w.alias[c.String()]; !ok {
					continue
				}
				blocks++
				if len(nd.Links()) > 0 {
					linked++
				}
			}
			fmt.Fprintf(out, "K %d %d\n", blocks, linked)
		}
		stats.Exchanges++
		stats.Histories++
		if w.forked && w.mergedOverlap {
			if !stats.shapes[w.shape] {
				stats.shapes[w.shape] = true
				stats.DistinctNontrivial++
			}
		}
		out.Flush()
	}
	return stats
}

func maxI(a, b int) int {
	if a > b {
		return a
	}
	return b
}

func minI(a, b int) int {
	if a < b {
		return a
	}
	return b
}

var _ = idp.IsSupported
