package main

// crash stream (C17): replicas sharing one block store; every block write (and removal) is recorded
// in order; every identifier returned to a caller (entry hash from Append, manifest from ToMultihash)
// is recorded with the log state at that moment.  Afterwards the store is rebuilt at the moment each
// identifier was returned and at the end, and the identifier is loaded from it.

import (
	"math"
	"bufio"
	"context"
	"fmt"
	"math/rand"
	"sort"
	"strconv"
	"sync"

	ipfslog "berty.tech/go-ipfs-log"
	"berty.tech/go-ipfs-log/iface"
	"github.com/ipfs/go-cid"
	ipld "github.com/ipfs/go-ipld-format"

	"verifharness/hx"
	"verifharness/mockstore"
)

type crashStats struct {
	Cases, DistinctNontrivial, Ops, Appends, DeniedAppends, Joins, Publishes, Writes, Removes, Returned, Loads, IdenticalBlocks, NegLengths, Outages int
	shapes                                                                                                                    map[string]bool
}

type storeEvent struct {
	remove bool
	c      cid.Cid
	node   ipld.Node
}

type returned struct {
	kind   string // eh | mh
	c      cid.Cid
	at     int // number of store events when it was returned
	state  []string
	heads  []string
	logID  string
	sortFn string
	// the log had been truncated by a size-bounded merge (directly or through a merge from such a
	// log): an unbounded load of what it published then returns a superset of its entries
	partial bool
}

func runCrash(seed int64, n int, out *bufio.Writer, thorough bool) *crashStats {
	st := &crashStats{shapes: map[string]bool{}}
	for h := 0; h < n; h++ {
		if skipCase(h) {
			continue
		}
		r := rand.New(rand.NewSource(seed*7919 + int64(h)))
		ctx := context.Background()
		api := mockstore.New()
		ids := hx.NewIdents(r)
		var mu sync.Mutex
		var events []storeEvent
		api.D.OnAdd = func(c cid.Cid, _ int) {
			mu.Lock()
			nd := api.D.Blocks[c]
			events = append(events, storeEvent{c: c, node: nd})
			mu.Unlock()
		}
		api.D.OnRemove = func(c cid.Cid) {
			mu.Lock()
			events = append(events, storeEvent{remove: true, c: c})
			mu.Unlock()
		}
		alias := map[string]string{}
		al := func(c cid.Cid) string {
			k := c.String()
			if a, ok := alias[k]; ok {
				return a
			}
			a := "b" + strconv.Itoa(len(alias))
			alias[k] = a
			return a
		}
		als := func(es []iface.IPFSLogEntry) []string {
			o := make([]string, 0, len(es))
			for _, e := range es {
				o = append(o, al(e.GetHash()))
			}
			sort.Strings(o)
			return o
		}
		fmt.Fprintf(out, "H %d %d\n", h, seed*7919+int64(h))
		nRep := 2 + r.Intn(3)
		nWr := 1 + r.Intn(2) // few writers: replicas often share an identity, so identical blocks arise
		type rep struct {
			log     *ipfslog.IPFSLog
			writer  string
			partial bool
		}
		var reps []*rep
		for i := 0; i < nRep; i++ {
			wr := fmt.Sprintf("w%d", r.Intn(nWr))
			opts := &ipfslog.LogOptions{ID: "X"}
			if r.Intn(4) == 0 {
				// a read-only replica: its controller refuses its own writer
				opts.AccessController = &denyAC{denied: map[string]bool{hexs(ids.Identity(wr).PublicKey): true}}
			}
			l, err := ipfslog.NewLog(api, ids.Identity(wr), opts)
			if err != nil {
				panic(err)
			}
			reps = append(reps, &rep{log: l, writer: wr})
		}
		var rets []returned
		held := map[string]iface.IPFSLogEntry{} // the entry objects Append returned, by hash
		shape := ""
		nOps := 12 + r.Intn(20)
		payloads := []string{"x", "y", "z", ""} // the empty payload is a legal entry
		for k := 0; k < nOps; k++ {
			i := r.Intn(len(reps))
			l := reps[i].log
			switch c := r.Intn(10); {
			case c < 6:
				pl := payloads[r.Intn(len(payloads))]
				if r.Intn(3) == 0 {
					pl = fmt.Sprintf("p%d", k)
				}
				pc := []int{0, 1, 2, 4, 8}[r.Intn(5)]
				// one append in eight meets a store outage: its block write is refused.  It must fail and leave
				// the replica as it was — an append acknowledged without its block breaks closure at the next write
				outage := r.Intn(8) == 0
				if outage {
					api.D.SetFailNext(1)
					st.Outages++
				}
				e, err := l.Append(ctx, []byte(pl), &iface.AppendOptions{PointerCount: pc, Pin: r.Intn(3) == 0})
				if outage {
					api.D.SetFailNext(0)
				}
				shape += fmt.Sprintf("A%d.%s;", i, pl)
				if err != nil {
					st.DeniedAppends++
					fmt.Fprintf(out, "D %d\n", i)
					continue
				}
				st.Appends++
				held[e.GetHash().String()] = e
				mu.Lock()
				at := len(events)
				mu.Unlock()
				rets = append(rets, returned{kind: "eh", c: e.GetHash(), at: at, state: als(l.GetEntries().Slice()), heads: als(l.RawHeads().Slice()), logID: l.ID, partial: reps[i].partial})
			case c < 8:
				j := r.Intn(len(reps))
				size := -1
				if r.Intn(3) == 0 {
					// a size-bounded merge: the log may shrink back to an earlier length
					size = r.Intn(l.Len() + reps[j].log.Len() + 2)
				}
				func() {
					defer func() { _ = recover() }()
					_, _ = l.Join(reps[j].log, size)
				}()
				st.Joins++
				shape += fmt.Sprintf("J%d.%d.%d;", i, j, size)
				if size >= 0 || reps[j].partial {
					reps[i].partial = true
				}
				if size >= 0 && l.Len() > 0 && r.Intn(2) == 0 {
					// publish right after a bounded merge
					if c, err := l.ToMultihash(ctx); err == nil {
						st.Publishes++
						mu.Lock()
						at := len(events)
						mu.Unlock()
						rets = append(rets, returned{kind: "mh", c: c, at: at, state: als(l.GetEntries().Slice()), heads: als(l.RawHeads().Slice()), logID: l.ID, partial: reps[i].partial})
					}
				}
			default:
				if l.Len() == 0 {
					continue
				}
				c, err := l.ToMultihash(ctx)
				if err != nil {
					continue
				}
				st.Publishes++
				shape += fmt.Sprintf("P%d;", i)
				mu.Lock()
				at := len(events)
				mu.Unlock()
				rets = append(rets, returned{kind: "mh", c: c, at: at, state: als(l.GetEntries().Slice()), heads: als(l.RawHeads().Slice()), logID: l.ID, partial: reps[i].partial})
			}
			st.Ops++
		}
		// the write log
		mu.Lock()
		evs := append([]storeEvent(nil), events...)
		mu.Unlock()
		io := mustIO()
		seen := map[string]bool{}
		for idx, ev := range evs {
			if ev.remove {
				fmt.Fprintf(out, "X %d %s\n", idx, al(ev.c))
				st.Removes++
				continue
			}
			st.Writes++
			if seen[ev.c.String()] {
				st.IdenticalBlocks++
			}
			seen[ev.c.String()] = true
			if e, err := io.DecodeRawEntry(ev.node, ev.c, nil); err == nil && e.GetClock() != nil && len(e.GetLogID()) > 0 {
				nx, rf := []string{}, []string{}
				for _, c := range e.GetNext() {
					nx = append(nx, al(c))
				}
				for _, c := range e.GetRefs() {
					rf = append(rf, al(c))
				}
				fmt.Fprintf(out, "W %d E %s %s %s\n", idx, al(ev.c), lst(nx), lst(rf))
			} else if m, err := io.DecodeRawJSONLog(ev.node); err == nil {
				hs := []string{}
				for _, c := range m.Heads {
					hs = append(hs, al(c))
				}
				fmt.Fprintf(out, "W %d M %s %s\n", idx, al(ev.c), lst(hs))
			} else {
				fmt.Fprintf(out, "W %d ? %s\n", idx, al(ev.c))
			}
		}
		// returned identifiers, and what loading them gives at the moment of return and at the end
		if len(rets) > 14 {
			r.Shuffle(len(rets), func(a, b int) { rets[a], rets[b] = rets[b], rets[a] })
			rets = rets[:14]
		}
		for _, rt := range rets {
			st.Returned++
			pf := 0
			if rt.partial {
				pf = 1
			}
			fmt.Fprintf(out, "R %s %s %d %s %s %d\n", rt.kind, al(rt.c), rt.at, lst(rt.state), lst(rt.heads), pf)
			for _, upto := range []int{rt.at, len(evs)} {
				snap := mockstore.New()
				for _, ev := range evs[:upto] {
					if ev.remove {
						delete(snap.D.Blocks, ev.c)
					} else {
						snap.D.Blocks[ev.c] = ev.node
					}
				}
				res, ents, heads := "ok", []string{}, []string{}
				var fieldDiffs []string
				joinRes := "ok"
				func() {
					defer func() {
						if rec := recover(); rec != nil {
							res = "panic"
						}
					}()
					var nl *ipfslog.IPFSLog
					var err error
					ident := ids.Identity("loader")
					// every spelling of "no limit": no Length at all, -1, and any other negative number
					var lp *int
					switch r.Intn(5) {
					case 1:
						v := -1
						lp = &v
					case 2:
						v := -2 - r.Intn(1000)
						lp = &v
						st.NegLengths++
					case 3:
						v := math.MinInt64
						lp = &v
						st.NegLengths++
					}
					conc := []int{0, 1, 3}[r.Intn(3)]
					if rt.kind == "mh" {
						nl, err = ipfslog.NewFromMultihash(ctx, snap, ident, rt.c, &ipfslog.LogOptions{}, &ipfslog.FetchOptions{Length: lp, Concurrency: conc})
					} else {
						nl, err = ipfslog.NewFromEntryHash(ctx, snap, ident, rt.c, &ipfslog.LogOptions{ID: rt.logID}, &ipfslog.FetchOptions{Length: lp, Concurrency: conc})
					}
					if err != nil {
						res = "err"
						return
					}
					ents = als(nl.GetEntries().Slice())
					heads = als(nl.RawHeads().Slice())
					// "loads to exactly the state": every loaded entry equals, field by field, the entry
					// Append returned under that hash, and the loaded log can be merged by a peer
					for _, le := range nl.GetEntries().Slice() {
						he, ok := held[le.GetHash().String()]
						if !ok {
							continue
						}
						switch {
						case string(le.GetSig()) != string(he.GetSig()):
							fieldDiffs = append(fieldDiffs, al(le.GetHash())+":sig")
						case string(le.GetKey()) != string(he.GetKey()):
							fieldDiffs = append(fieldDiffs, al(le.GetHash())+":key")
						case string(le.GetPayload()) != string(he.GetPayload()):
							fieldDiffs = append(fieldDiffs, al(le.GetHash())+":payload")
						case le.GetLogID() != he.GetLogID() || le.GetV() != he.GetV():
							fieldDiffs = append(fieldDiffs, al(le.GetHash())+":id/v")
						case le.GetClock().GetTime() != he.GetClock().GetTime() || string(le.GetClock().GetID()) != string(he.GetClock().GetID()):
							fieldDiffs = append(fieldDiffs, al(le.GetHash())+":clock")
						case !sameCidList(le.GetNext(), he.GetNext()) || !sameCidList(le.GetRefs(), he.GetRefs()):
							fieldDiffs = append(fieldDiffs, al(le.GetHash())+":links")
						}
					}
					peer, perr := ipfslog.NewLog(snap, ids.Identity("peer"), &ipfslog.LogOptions{ID: nl.ID})
					if perr == nil {
						if _, jerr := peer.Join(nl, -1); jerr != nil {
							joinRes = "err"
						}
					}
				}()
				st.Loads++
				fmt.Fprintf(out, "L %s %s %d %s %s %s\n", rt.kind, al(rt.c), upto, res, lst(ents), lst(heads))
				if res == "ok" {
					fmt.Fprintf(out, "LF %s %s %s\n", al(rt.c), lst(fieldDiffs), joinRes)
				}
			}
		}
		st.Cases++
		if st.Appends > 0 && !st.shapes[shape] {
			st.shapes[shape] = true
			st.DistinctNontrivial++
		}
		out.Flush()
	}
	return st
}
