package main

// lockShape: for the API methods of *IPFSLog, the sequence of lock operations, hook points, channel
// sends and closes on the MAIN PATH of the function — the path that takes no early return — with the
// calls to other locking methods of a log inlined.  "l" is the receiver's log, "o" any other log.
//
//   Lock(l) Unlock(l) RLock(l) RUnlock(l) … (o)    hook:<name>    send    close
//
// A branch whose block ends in `return` or `panic` is an error path and is skipped (the calls in its
// condition are not); other branches, loop bodies and switch cases contribute once, in source order.
// `defer` puts its events at the end.  Goroutine literals are skipped.  Purely syntactic.

import (
	"fmt"
	"go/ast"
	"go/token"
	"strings"
)

type shaper struct {
	fset  *token.FileSet
	funcs map[string]*ast.FuncDecl // "M" for methods of IPFSLog, "f" for plain functions
	memo  map[string][]string
	busy  map[string]bool
}

func isLogType(e ast.Expr) bool {
	t := typeString(e)
	return t == "*IPFSLog" || t == "iface.IPFSLog" || t == "IPFSLog"
}

func (s *shaper) key(fd *ast.FuncDecl) string {
	if fd.Recv != nil {
		return "M:" + fd.Name.Name
	}
	return "f:" + fd.Name.Name
}

func endsInReturn(b *ast.BlockStmt) bool {
	if b == nil || len(b.List) == 0 {
		return false
	}
	switch x := b.List[len(b.List)-1].(type) {
	case *ast.ReturnStmt:
		return true
	case *ast.ExprStmt:
		if c, ok := x.X.(*ast.CallExpr); ok {
			if id, ok := c.Fun.(*ast.Ident); ok && id.Name == "panic" {
				return true
			}
		}
	case *ast.BranchStmt:
		return x.Tok == token.CONTINUE || x.Tok == token.BREAK
	}
	return false
}

// shape of fd with its log-typed receiver/parameters named by env (ident -> "l"/"o")
func (s *shaper) shape(fd *ast.FuncDecl, env map[string]string) []string {
	var out, deferred []string
	var expr func(e ast.Expr)
	var stmt func(st ast.Stmt)
	var block func(b *ast.BlockStmt)
	call := func(c *ast.CallExpr) {
		for _, a := range c.Args {
			expr(a)
		}
		switch fn := c.Fun.(type) {
		case *ast.Ident:
			switch fn.Name {
			case "close":
				out = append(out, "close")
				return
			case "verifHook":
				if len(c.Args) > 0 {
					if bl, ok := c.Args[0].(*ast.BasicLit); ok {
						out = append(out, "hook:"+strings.Trim(bl.Value, "\""))
					}
				}
				return
			}
			if callee, ok := s.funcs["f:"+fn.Name]; ok {
				out = append(out, s.inline(callee, c, nil, env)...)
			}
		case *ast.SelectorExpr:
			expr(fn.X)
			chain := selChain(fn)
			// x.lock.Lock()
			for _, op := range []string{"RLock", "RUnlock", "Lock", "Unlock"} {
				if strings.HasSuffix(chain, ".lock."+op) {
					base := strings.TrimSuffix(chain, ".lock."+op)
					who, ok := env[base]
					if !ok {
						who = "?" + base
					}
					out = append(out, op+"("+who+")")
					return
				}
			}
			// x.M(...) with x a log variable
			if id, ok := fn.X.(*ast.Ident); ok {
				if who, isLog := env[id.Name]; isLog {
					if callee, ok := s.funcs["M:"+fn.Sel.Name]; ok {
						out = append(out, s.inline(callee, c, &who, env)...)
					}
				}
			}
		case *ast.FuncLit:
			block(fn.Body)
		}
	}
	expr = func(e ast.Expr) {
		if e == nil {
			return
		}
		ast.Inspect(e, func(n ast.Node) bool {
			switch x := n.(type) {
			case *ast.CallExpr:
				call(x)
				return false
			case *ast.FuncLit:
				return false // a function value that is not called here
			}
			return true
		})
	}
	block = func(b *ast.BlockStmt) {
		if b == nil {
			return
		}
		for _, st := range b.List {
			stmt(st)
		}
	}
	stmt = func(st ast.Stmt) {
		switch x := st.(type) {
		case *ast.ExprStmt:
			expr(x.X)
		case *ast.AssignStmt:
			for _, r := range x.Rhs {
				expr(r)
			}
		case *ast.DeclStmt:
			if gd, ok := x.Decl.(*ast.GenDecl); ok {
				for _, sp := range gd.Specs {
					if vs, ok := sp.(*ast.ValueSpec); ok {
						for _, v := range vs.Values {
							expr(v)
						}
					}
				}
			}
		case *ast.ReturnStmt:
			for _, r := range x.Results {
				expr(r)
			}
		case *ast.SendStmt:
			expr(x.Value)
			out = append(out, "send")
		case *ast.DeferStmt:
			saved := out
			out = nil
			call(x.Call)
			deferred = append(append([]string{}, out...), deferred...)
			out = saved
		case *ast.GoStmt:
			// concurrent: not on this goroutine's path
		case *ast.IfStmt:
			if x.Init != nil {
				stmt(x.Init)
			}
			expr(x.Cond)
			if !endsInReturn(x.Body) {
				block(x.Body)
			}
			switch el := x.Else.(type) {
			case *ast.BlockStmt:
				if !endsInReturn(el) {
					block(el)
				}
			case *ast.IfStmt:
				stmt(el)
			}
		case *ast.ForStmt:
			if x.Init != nil {
				stmt(x.Init)
			}
			expr(x.Cond)
			block(x.Body)
		case *ast.RangeStmt:
			expr(x.X)
			block(x.Body)
		case *ast.BlockStmt:
			block(x)
		case *ast.SwitchStmt:
			if x.Init != nil {
				stmt(x.Init)
			}
			expr(x.Tag)
			for _, cc := range x.Body.List {
				if c, ok := cc.(*ast.CaseClause); ok {
					b := &ast.BlockStmt{List: c.Body}
					if !endsInReturn(b) {
						block(b)
					}
				}
			}
		case *ast.SelectStmt:
			for _, cc := range x.Body.List {
				if c, ok := cc.(*ast.CommClause); ok {
					if c.Comm != nil {
						stmt(c.Comm)
					}
					b := &ast.BlockStmt{List: c.Body}
					if !endsInReturn(b) {
						block(b)
					}
				}
			}
		case *ast.LabeledStmt:
			stmt(x.Stmt)
		}
	}
	block(fd.Body)
	return append(out, deferred...)
}

// inline the callee's shape at a call site: the callee's receiver is `recv` (if a method), its
// log-typed parameters are bound to what the caller passes
func (s *shaper) inline(callee *ast.FuncDecl, c *ast.CallExpr, recv *string, callerEnv map[string]string) []string {
	env := map[string]string{}
	if callee.Recv != nil && len(callee.Recv.List) == 1 && len(callee.Recv.List[0].Names) == 1 && recv != nil {
		env[callee.Recv.List[0].Names[0].Name] = *recv
	}
	i := 0
	for _, f := range callee.Type.Params.List {
		for _, nm := range f.Names {
			if isLogType(f.Type) && i < len(c.Args) {
				if id, ok := c.Args[i].(*ast.Ident); ok {
					if who, ok := callerEnv[id.Name]; ok {
						env[nm.Name] = who
					} else {
						env[nm.Name] = "o"
					}
				} else {
					env[nm.Name] = "o"
				}
			}
			i++
		}
	}
	k := s.key(callee) + fmt.Sprint(env)
	if r, ok := s.memo[k]; ok {
		return r
	}
	if s.busy[k] {
		return nil
	}
	s.busy[k] = true
	r := s.shape(callee, env)
	s.busy[k] = false
	s.memo[k] = r
	return r
}

func renderLockShape(fset *token.FileSet, files []*ast.File) string {
	s := &shaper{fset: fset, funcs: map[string]*ast.FuncDecl{}, memo: map[string][]string{}, busy: map[string]bool{}}
	for _, f := range files {
		for _, d := range f.Decls {
			fd, ok := d.(*ast.FuncDecl)
			if !ok || fd.Body == nil {
				continue
			}
			if fd.Recv != nil {
				if len(fd.Recv.List) != 1 || typeString(fd.Recv.List[0].Type) != "*IPFSLog" {
					continue
				}
			}
			s.funcs[s.key(fd)] = fd
		}
	}
	api := []string{"Append", "Join", "SetIdentity", "Values", "Heads", "RawHeads", "Get", "Has", "Len", "GetEntries",
		"ToSnapshot", "ToJSONLog", "ToMultihash", "ToString", "Iterator"}
	var b strings.Builder
	b.WriteString("\n/-- main-path lock operations, hook points, channel sends and closes of the API methods, calls to\n    locking methods inlined (`l` = the receiver's log, `o` = another log) -/\n")
	b.WriteString("def lockShape : List (String × List String) := [\n")
	first := true
	for _, name := range api {
		fd, ok := s.funcs["M:"+name]
		if !ok {
			continue
		}
		env := map[string]string{}
		if len(fd.Recv.List[0].Names) == 1 {
			env[fd.Recv.List[0].Names[0].Name] = "l"
		}
		for _, f := range fd.Type.Params.List {
			for _, nm := range f.Names {
				if isLogType(f.Type) {
					env[nm.Name] = "o"
				}
			}
		}
		sh := s.shape(fd, env)
		if !first {
			b.WriteString(",\n")
		}
		first = false
		fmt.Fprintf(&b, "  (%s, [%s])", q(name), joinQ(sh))
	}
	b.WriteString("\n]\n")
	return b.String()
}
