package main

// effectOrder: for Append and Join, the observable side effects in source order — validation calls
// (CanAppend, Verify), the barrier (wg.Wait), the block-store write (CreateEntryWithIO) and the
// in-memory publications (Entries.Set, Next.Set, assignments to heads / Entries).  Events inside a
// `go func` literal are prefixed with "go:".  Purely syntactic.

import (
	"fmt"
	"go/ast"
	"strings"
)

func selChain(e ast.Expr) string {
	switch x := e.(type) {
	case *ast.Ident:
		return x.Name
	case *ast.SelectorExpr:
		return selChain(x.X) + "." + x.Sel.Name
	case *ast.CallExpr:
		return selChain(x.Fun) + "()"
	}
	return "?"
}

func effectsOf(fd *ast.FuncDecl) []string {
	var out []string
	var walk func(n ast.Node, inGo bool)
	emit := func(inGo bool, s string) {
		if inGo {
			s = "go:" + s
		}
		out = append(out, s)
	}
	walk = func(n ast.Node, inGo bool) {
		ast.Inspect(n, func(m ast.Node) bool {
			switch x := m.(type) {
			case *ast.GoStmt:
				walk(x.Call.Fun, true)
				for _, a := range x.Call.Args {
					walk(a, inGo)
				}
				return false
			case *ast.AssignStmt:
				for _, r := range x.Rhs {
					walk(r, inGo)
				}
				for _, l := range x.Lhs {
					c := selChain(l)
					if strings.HasSuffix(c, ".heads") {
						emit(inGo, "heads=")
					} else if strings.HasSuffix(c, ".Entries") {
						emit(inGo, "Entries=")
					} else if strings.HasSuffix(c, ".Next") {
						emit(inGo, "Next=")
					}
				}
				return false
			case *ast.CallExpr:
				// arguments first (they are evaluated before the call)
				for _, a := range x.Args {
					walk(a, inGo)
				}
				if fl, ok := x.Fun.(*ast.FuncLit); ok {
					walk(fl.Body, inGo)
					return false
				}
				c := selChain(x.Fun)
				switch {
				case strings.HasSuffix(c, ".CanAppend"):
					emit(inGo, "CanAppend")
				case strings.HasSuffix(c, ".Verify"):
					emit(inGo, "Verify")
				case strings.HasSuffix(c, "wg.Wait"), strings.HasSuffix(c, ".Wait") && strings.Contains(c, "wg"):
					emit(inGo, "Wait")
				case strings.HasSuffix(c, "CreateEntryWithIO"):
					emit(inGo, "CreateEntryWithIO")
				case strings.HasSuffix(c, ".Entries.Set"):
					emit(inGo, "Entries.Set")
				case strings.HasSuffix(c, ".Next.Set"):
					emit(inGo, "Next.Set")
				case strings.HasSuffix(c, ".Dag().Remove"), strings.HasSuffix(c, ".Remove") && strings.Contains(c, "Dag"):
					emit(inGo, "Store.Remove")
				}
				if sel, ok := x.Fun.(*ast.SelectorExpr); ok {
					walk(sel.X, inGo)
				}
				return false
			}
			return true
		})
	}
	if fd.Body != nil {
		walk(fd.Body, false)
	}
	return out
}

func renderEffects(files []*ast.File) string {
	var b strings.Builder
	b.WriteString("\n/-- (function, side effects in source order; `go:` = inside a goroutine literal) -/\n")
	b.WriteString("def effectOrder : List (String × List String) := [\n")
	first := true
	for _, name := range []string{"Append", "Join"} {
		for _, f := range files {
			for _, d := range f.Decls {
				fd, ok := d.(*ast.FuncDecl)
				if !ok || fd.Name.Name != name || fd.Recv == nil {
					continue
				}
				if !first {
					b.WriteString(",\n")
				}
				first = false
				fmt.Fprintf(&b, "  (%s, [%s])", q(name), joinQ(effectsOf(fd)))
			}
		}
	}
	b.WriteString("\n]\n")
	return b.String()
}
