package main

// A second, imperative translator: the slice and map helpers of the library — log_io.go (entryLastN,
// entryLastNKeeping, entrySliceRange), entry/utils.go (Difference, FindHeads), log.go
// (maxClockTimeForEntries) and entry/entry.go (uniqueCIDs) — become Lean definitions in
// lean/Generated/Slices.lean; Props/SlicesGen.lean proves them equal to the hand-written model
// (`lastN`, `lastNKeeping`, `entryDifference`, `findHeads`, `maxTime`, …).  Outside the subset below
// the translation fails loudly (the generated file does not elaborate: an obligation violation).
//
//   values      []iface.IPFSLogEntry, []Entry, iface.IPFSLogOrderedEntries → List Entry (an ordered map is
//               the list of its values, keyed by hash);  []cid.Cid → List Hash;  int → Int;  string keys → Hash;
//               map[string]bool / map[string]struct{} → List Hash (a set: only membership and size are
//               used; ranging over a map is rejected);  map[string]string → List (Hash × Hash)
//   statements  x := e   var x T   x = e   x++   x--   m[k] = v   a, ok := m[k]
//               if [_, ok := m[k];] c { … } [else …]     (a branch that ends in return/continue is an early exit;
//               a branch without exits updates the variables it assigns)
//               for _, v := range xs { … }  → List.foldl over the assigned variables
//               for _, k := range m.Keys() { … m.UnsafeGet(k) … }  → the same over the values (k ↦ its hash)
//               for i := len(xs) - 1; i >= 0; i-- { … xs[i] … }  → List.foldl over xs.reverse
//               continue   return e   return xs[a:b] (→ Option: `none` is Go's slice-bounds panic)
//               sorting.Reverse(xs)   sort.SliceStable(xs, func(a, b int) bool { return … xs[a] … xs[b] … })
//   A mutable variable is a shadowing `let`; nothing is aliased in the subset (a slice that is appended to is
//   not read through another name).

import (
	"fmt"
	"go/ast"
	"go/parser"
	"go/token"
	"path/filepath"
	"sort"
	"strings"
)

type tr2 struct {
	guards     []string // source text of the enclosing `for cond` conditions
	fset       *token.FileSet
	errs       []string
	kinds      map[string]string // Go variable → kind
	subst      map[string]string // source text of an expression → Lean replacement (xs[i] in an index loop, result[a] in a less function)
	partial    bool              // the function slices or returns (value, error): it returns Option
	recv       string            // receiver name (its fields Entries / SortFn become parameters)
	brk        string            // inside a `for cond` body: what `break` evaluates to ("" = not allowed)
	loops      []string          // auxiliary loop definitions emitted in front of the function
	fn         string            // Lean name of the function being translated
	params     []string          // its parameters (binders) and their names, for the loop definitions
	pnames     []string
	usesFuel   bool
	postStmt   *ast.AssignStmt // the post statement of the three-clause loop being translated
	helperDefs []string
	file       *ast.File         // the file being translated (helpers and constants are looked up in it)
	helpers    map[string]string // package-level helper functions translated on demand: Go name → result kind
	aliases    map[string]string // slice variable → the other name of the same backing array (while neither is reassigned)
	joinN      int
	hasFuel    bool   // the function takes a fuel parameter (it has a `for cond` loop or calls traverse)
	retType    string // Lean type of the function's result
	monadic    int    // > 0 inside a loop translated as a fold in the Option monad: an error return is `none`
	emitter    string // name of the output channel of an emitter (a function with a channel parameter and an error result)
	noResult   string // a function without results evaluates to the tuple of what it assigns
	declPos    map[string]token.Pos
	views      bool // translating the view functions of the log: l.values() is the translated `values`, not a parameter
}

var leanTypeOfKind = map[string]string{"ents": "List Entry", "omap": "List Entry", "int": "Int", "cids": "List Hash",
	"set": "List Hash", "smap": "List (Hash × Hash)", "entry": "Entry", "hash": "Hash", "bool": "Bool", "bytes": "Bytes", "key": "Entry", "log": "Unit", "queue": "Q", "optentry": "Option Entry", "chan": "List Entry", "iteropts": "Unit", "appendopts": "Unit", "fetchopts": "Unit", "identity": "Unit", "logopts": "Unit", "manifest": "Unit", "snapdata": "Unit", "sortfn": "Unit"}

func (t *tr2) fail(n ast.Node, why string) string {
	t.errs = append(t.errs, fmt.Sprintf("%s: %s", why, src(t.fset, n)))
	return "(untranslatable)"
}

func kindOfType(e ast.Expr) string {
	switch x := e.(type) {
	case *ast.ChanType:
		if typeString(x.Value) == "iface.IPFSLogEntry" {
			return "chan"
		}
	case *ast.ArrayType:
		switch typeString(x.Elt) {
		case "iface.IPFSLogEntry", "Entry":
			return "ents"
		case "cid.Cid", "string":
			return "cids"
		}
	case *ast.MapType:
		if typeString(x.Key) == "string" {
			switch v := x.Value.(type) {
			case *ast.Ident:
				if v.Name == "bool" {
					return "set"
				}
				if v.Name == "string" {
					return "smap"
				}
			case *ast.StructType:
				if v.Fields == nil || len(v.Fields.List) == 0 {
					return "set"
				}
			}
		}
	default:
		switch typeString(e) {
		case "*IPFSLog":
			return "log"
		case "processQueue":
			return "queue"
		case "*IteratorOptions":
			return "iteropts"
		case "context.Context":
			return "ctx"
		case "iface.IPFSLogOrderedEntries":
			return "omap"
		case "int":
			return "int"
		case "iface.IPFSLogEntry", "Entry":
			return "entry"
		case "string":
			return "hash"
		case "bool":
			return "bool"
		}
	}
	return ""
}

func zeroOfKind(k string) string {
	switch k {
	case "ents", "omap", "cids", "set", "smap", "hash", "bytes":
		return "([] : " + leanTypeOfKind[k] + ")"
	case "int":
		return "(0 : Int)"
	case "bool":
		return "false"
	}
	return ""
}

func leanName(s string) string {
	if i := strings.Index(s, "."); i > 0 {
		return s[:i] + strings.ToUpper(s[i+1:i+2]) + s[i+2:]
	}
	switch s {
	case "from", "to", "end", "at", "in", "do", "then", "else", "max", "min", "fun", "have", "show", "open":
		return s + "'"
	}
	return lowerFirst(s)
}

// expr translates an expression and reports its kind
func (t *tr2) expr(e ast.Expr) (string, string) {
	if r, ok := t.subst[src(t.fset, e)]; ok {
		return r, "entry"
	}
	switch x := e.(type) {
	case *ast.ParenExpr:
		s, k := t.expr(x.X)
		return "(" + s + ")", k
	case *ast.Ident:
		switch x.Name {
		case "true", "false":
			return x.Name, "bool"
		case "nil":
			return "[]", "nil"
		}
		k, ok := t.kinds[x.Name]
		if !ok {
			if v, isConst := t.intConst(x.Name); isConst {
				return "(" + v + " : Int)", "int"
			}
			return t.fail(e, "unknown variable"), ""
		}
		if k == "key" {
			return leanName(x.Name) + ".hash", "hash"
		}
		return leanName(x.Name), k
	case *ast.BasicLit:
		if x.Kind == token.INT {
			return "(" + x.Value + " : Int)", "int"
		}
		if x.Kind == token.STRING && x.Value == `""` {
			return "([] : Hash)", "hash"
		}
		return t.fail(e, "literal"), ""
	case *ast.UnaryExpr:
		s, k := t.expr(x.X)
		if x.Op == token.NOT && k == "bool" {
			return "(!" + s + ")", "bool"
		}
		if x.Op == token.SUB && k == "int" {
			return "(-" + s + ")", "int"
		}
		return t.fail(e, "unary operator"), ""
	case *ast.BinaryExpr:
		if x.Op == token.EQL || x.Op == token.NEQ {
			if id, ok := x.X.(*ast.Ident); ok && isNil(x.Y) && t.kinds[id.Name] == "omap" {
				// the ordered maps of a log are set by NewLog and replaced by non-nil ones only: never nil
				if x.Op == token.EQL {
					return "false", "bool"
				}
				return "true", "bool"
			}
			if sel, ok := x.X.(*ast.SelectorExpr); ok && isNil(x.Y) {
				if id, ok := sel.X.(*ast.Ident); ok && t.kinds[id.Name] == "logopts" && sel.Sel.Name == "Clock" {
					if x.Op == token.EQL {
						return "optClockTime.isNone", "bool"
					}
					return "optClockTime.isSome", "bool"
				}
				if id, ok := sel.X.(*ast.Ident); ok && t.kinds[id.Name] == "fetchopts" && sel.Sel.Name == "Length" {
					if x.Op == token.EQL {
						return "optLength.isNone", "bool"
					}
					return "optLength.isSome", "bool"
				}
				if id, ok := sel.X.(*ast.Ident); ok && t.kinds[id.Name] == "iteropts" {
					switch sel.Sel.Name {
					case "Amount", "LTE", "LT":
						if x.Op == token.EQL {
							return "opt" + sel.Sel.Name + ".isNone", "bool"
						}
						return "opt" + sel.Sel.Name + ".isSome", "bool"
					}
				}
			}
		}
		a, ka := t.expr(x.X)
		b, kb := t.expr(x.Y)
		switch x.Op {
		case token.ADD, token.SUB, token.MUL:
			if ka == "int" && kb == "int" {
				return "(" + a + " " + x.Op.String() + " " + b + ")", "int"
			}
		case token.LAND, token.LOR:
			if ka == "bool" && kb == "bool" {
				return "(" + a + " " + x.Op.String() + " " + b + ")", "bool"
			}
		case token.LSS, token.GTR, token.LEQ, token.GEQ:
			if ka == "int" && kb == "int" {
				op := map[token.Token]string{token.LSS: "<", token.GTR: ">", token.LEQ: "≤", token.GEQ: "≥"}[x.Op]
				return "(decide (" + a + " " + op + " " + b + "))", "bool"
			}
		case token.EQL, token.NEQ:
			if kb == "nil" && (ka == "iteropts" || ka == "chan" || ka == "appendopts") {
				// the options and the channel are given (their nil tests are the caller's contract)
				if x.Op == token.EQL {
					return "false", "bool"
				}
				return "true", "bool"
			}
			if kb == "nil" && ka == "optentry" {
				if x.Op == token.EQL {
					return "(" + a + ").isNone", "bool"
				}
				return "(" + a + ").isSome", "bool"
			}
			if kb == "nil" && (ka == "omap" || ka == "entry" || ka == "log") {
				// the nil-ness of an interface value is not represented: callers pass a value
				if x.Op == token.EQL {
					return "false", "bool"
				}
				return "true", "bool"
			}
			if ka == kb && (ka == "int" || ka == "hash" || ka == "bytes") {
				if x.Op == token.EQL {
					return "(" + a + " == " + b + ")", "bool"
				}
				return "(" + a + " != " + b + ")", "bool"
			}
		}
		return t.fail(e, "binary operator"), ""
	case *ast.SelectorExpr:
		if id, ok := x.X.(*ast.Ident); ok && id.Name == t.recv && t.recv != "" && x.Sel.Name == "Entries" {
			return "lEntries", "omap"
		}
		if id, ok := x.X.(*ast.Ident); ok && id.Name == t.recv && t.recv != "" {
			if k, ok := t.kinds[id.Name+"."+x.Sel.Name]; ok {
				return leanName(id.Name + "." + x.Sel.Name), k
			}
		}
		if id, ok := x.X.(*ast.Ident); ok && t.kinds[id.Name] == "manifest" && x.Sel.Name == "Heads" {
			return "manifestHeads", "cids"
		}
		if id, ok := x.X.(*ast.Ident); ok && t.kinds[id.Name] == "snapdata" {
			switch x.Sel.Name {
			case "Values":
				return "dataValues", "ents"
			case "Heads":
				return "dataHeads", "cids"
			}
		}
		if id, ok := x.X.(*ast.Ident); ok && t.kinds[id.Name] == "logopts" {
			switch x.Sel.Name {
			case "Heads":
				return "optHeads", "ents"
			case "Entries":
				return "optEntries", "omap"
			}
		}
		if id, ok := x.X.(*ast.Ident); ok && t.kinds[id.Name] == "identity" && x.Sel.Name == "PublicKey" {
			return leanName(id.Name) + "PublicKey", "bytes"
		}
		if id, ok := x.X.(*ast.Ident); ok && t.kinds[id.Name] == "fetchopts" && x.Sel.Name == "Exclude" {
			return "optExclude", "ents"
		}
		if id, ok := x.X.(*ast.Ident); ok && t.kinds[id.Name] == "appendopts" && x.Sel.Name == "PointerCount" {
			return "optsPointerCount", "int"
		}
		if id, ok := x.X.(*ast.Ident); ok && t.kinds[id.Name] == "iteropts" {
			switch x.Sel.Name {
			case "LTE", "LT":
				return "(opt" + x.Sel.Name + ".getD [])", "cids"
			}
		}
		if id, ok := x.X.(*ast.Ident); ok && t.kinds[id.Name] == "log" {
			switch x.Sel.Name {
			case "Entries":
				return leanName(id.Name) + "Entries", "omap"
			case "ID":
				return leanName(id.Name) + "ID", "bytes"
			}
		}
		return t.fail(e, "selector"), ""
	case *ast.StarExpr:
		if sel, ok := x.X.(*ast.SelectorExpr); ok && sel.Sel.Name == "Length" {
			if id, ok := sel.X.(*ast.Ident); ok && t.kinds[id.Name] == "fetchopts" {
				return "(optLength.getD 0)", "int"
			}
		}
		if sel, ok := x.X.(*ast.SelectorExpr); ok && sel.Sel.Name == "Amount" {
			if id, ok := sel.X.(*ast.Ident); ok && t.kinds[id.Name] == "iteropts" {
				return "(optAmount.getD 0)", "int"
			}
		}
		return t.fail(e, "pointer dereference"), ""
	case *ast.CompositeLit:
		if k := kindOfType(x.Type); k != "" && len(x.Elts) == 0 {
			return zeroOfKind(k), k
		}
		if k := kindOfType(x.Type); (k == "ents" || k == "cids") && len(x.Elts) > 0 {
			var es []string
			for _, el := range x.Elts {
				v, kv := t.expr(el)
				if (k == "ents" && kv != "entry") || (k == "cids" && kv != "hash") {
					return t.fail(e, "composite literal element"), ""
				}
				es = append(es, v)
			}
			return "[" + strings.Join(es, ", ") + "]", k
		}
		if st, ok := x.Type.(*ast.StructType); ok && (st.Fields == nil || len(st.Fields.List) == 0) {
			return "()", "unit"
		}
		return t.fail(e, "composite literal"), ""
	case *ast.IndexExpr:
		m, km := t.expr(x.X)
		k, kk := t.expr(x.Index)
		if kk == "hash" && km == "set" {
			return "(" + m + ".contains " + k + ")", "bool"
		}
		if kk == "hash" && km == "smap" {
			return "(mapGet " + m + " " + k + ")", "hash"
		}
		return t.fail(e, "index expression"), ""
	case *ast.CallExpr:
		return t.call(x)
	}
	return t.fail(e, "expression"), ""
}

// intConst: a package-level `const name = <integer literal>` of the current file
func (t *tr2) intConst(name string) (string, bool) {
	if t.file == nil {
		return "", false
	}
	for _, d := range t.file.Decls {
		gd, ok := d.(*ast.GenDecl)
		if !ok || gd.Tok != token.CONST {
			continue
		}
		for _, sp := range gd.Specs {
			vs, ok := sp.(*ast.ValueSpec)
			if !ok || len(vs.Names) != len(vs.Values) {
				continue
			}
			for i, n := range vs.Names {
				if n.Name != name {
					continue
				}
				v := src(t.fset, vs.Values[i])
				digits := strings.TrimPrefix(v, "-")
				if digits != "" && strings.Trim(digits, "0123456789") == "" {
					if strings.HasPrefix(v, "-") {
						return "-" + digits, true
					}
					return digits, true
				}
			}
		}
	}
	return "", false
}

// helper: a call of an unexported package-level function of the same file — translated on demand into its own
// definition (tagged `gohelper`, so that the equality proofs can unfold whatever helpers the code has)
func (t *tr2) helper(x *ast.CallExpr, name string) (string, string, bool) {
	if t.file == nil {
		return "", "", false
	}
	fd := findFunc(t.file, name)
	if fd == nil || fd.Body == nil || fd.Type.Results == nil || len(fd.Type.Results.List) != 1 {
		return "", "", false
	}
	rk := kindOfType(fd.Type.Results.List[0].Type)
	if rk == "" || leanTypeOfKind[rk] == "" {
		return "", "", false
	}
	var args []string
	i := 0
	for _, f := range fd.Type.Params.List {
		for range f.Names {
			if i >= len(x.Args) {
				return "", "", false
			}
			a, ka := t.expr(x.Args[i])
			if ka != kindOfType(f.Type) {
				return "", "", false
			}
			args = append(args, a)
			i++
		}
	}
	if i != len(x.Args) {
		return "", "", false
	}
	if t.helpers == nil {
		t.helpers = map[string]string{}
	}
	if _, done := t.helpers[name]; !done {
		sub := &tr2{fset: t.fset, file: t.file, helpers: t.helpers}
		t.helpers[name] = rk
		def := sub.funcDecl(fd, lowerFirst(name))
		if sub.hasFuel || usesSlicing(fd) {
			t.errs = append(t.errs, "helper "+name+" needs fuel or slices")
		}
		t.errs = append(t.errs, sub.errs...)
		t.helperDefs = append(t.helperDefs, "@[gohelper] "+def)
	}
	return "(" + lowerFirst(name) + " " + strings.Join(args, " ") + ")", rk, true
}

func (t *tr2) call(x *ast.CallExpr) (string, string) {
	if id, ok := x.Fun.(*ast.Ident); ok {
		if _, builtin := map[string]bool{"len": true, "append": true, "make": true, "maxInt": true, "minInt": true, "maxClockTimeForEntries": true, "getEveryPow2": true, "entryLastNKeeping": true, "entrySliceRange": true, "entryLastN": true}[id.Name]; !builtin {
			if r, k, ok := t.helper(x, id.Name); ok {
				return r, k
			}
		}
		switch id.Name {
		case "len":
			if len(x.Args) == 1 {
				s, k := t.expr(x.Args[0])
				if k == "ents" || k == "cids" || k == "set" || k == "smap" || k == "omap" {
					return "(" + s + ".length : Int)", "int"
				}
			}
		case "append":
			if len(x.Args) == 2 {
				s, k := t.expr(x.Args[0])
				a, ka := t.expr(x.Args[1])
				if x.Ellipsis != token.NoPos && ka == k && (k == "ents" || k == "cids") {
					return "(" + s + " ++ " + a + ")", k
				}
				if x.Ellipsis == token.NoPos && ((k == "ents" && ka == "entry") || (k == "cids" && ka == "hash")) {
					return "(" + s + " ++ [" + a + "])", k
				}
				if x.Ellipsis == token.NoPos && k == "ents" && ka == "optentry" {
					return "(" + s + " ++ [" + a + ".getD default])", k
				}
			}
		case "make":
			if len(x.Args) >= 1 {
				if k := kindOfType(x.Args[0]); k != "" {
					// make([]T, 0, cap): the length must be the literal 0
					if _, isArr := x.Args[0].(*ast.ArrayType); isArr && (len(x.Args) < 2 || src(t.fset, x.Args[1]) != "0") {
						return t.fail(x, "make with a non-zero length"), ""
					}
					return zeroOfKind(k), k
				}
			}
		case "entryLastNKeeping":
			if len(x.Args) == 3 {
				a, ka := t.expr(x.Args[0])
				b, kb := t.expr(x.Args[1])
				c, kc := t.expr(x.Args[2])
				if ka == "ents" && kb == "int" && kc == "ents" {
					return "(entryLastNKeeping " + a + " " + b + " " + c + ")", "ents"
				}
			}
		case "getEveryPow2":
			if len(x.Args) == 2 {
				a, ka := t.expr(x.Args[0])
				b, kb := t.expr(x.Args[1])
				if ka == "omap" && kb == "int" {
					return "(getEveryPow2 fuel " + a + " " + b + ")", "ents"
				}
			}
		case "maxClockTimeForEntries":
			if len(x.Args) == 2 {
				a, ka := t.expr(x.Args[0])
				b, kb := t.expr(x.Args[1])
				if ka == "ents" && kb == "int" {
					return "(maxClockTimeForEntries " + a + " " + b + ")", "int"
				}
			}
		case "maxInt", "minInt":
			if len(x.Args) == 2 {
				a, ka := t.expr(x.Args[0])
				b, kb := t.expr(x.Args[1])
				if ka == "int" && kb == "int" {
					return "(" + id.Name + " " + a + " " + b + ")", "int"
				}
			}
		}
		return t.fail(x, "call"), ""
	}
	s := selChain(x.Fun)
	if s == "bytes.Compare" && len(x.Args) == 2 {
		a, ka := t.expr(x.Args[0])
		b, kb := t.expr(x.Args[1])
		if ka == "bytes" && kb == "bytes" {
			return "(cmpBytes " + a + " " + b + ")", "int"
		}
		return t.fail(x, "bytes.Compare"), ""
	}
	if parts := strings.Split(s, "."); len(parts) == 3 && t.kinds[parts[0]] == "logopts" && parts[1] == "Clock" && parts[2] == "GetTime" && len(x.Args) == 0 {
		return "(optClockTime.getD 0)", "int"
	}
	if parts := strings.Split(s, "."); len(parts) == 3 && t.kinds[parts[0]] == "iteropts" && (parts[1] == "GTE" || parts[1] == "GT") && len(x.Args) == 0 {
		switch parts[2] {
		case "Defined":
			return "opt" + parts[1] + ".isSome", "bool"
		case "String":
			return "(opt" + parts[1] + ".getD [])", "hash"
		}
	}
	if t.recv != "" && s == t.recv+".sortedHeads" && len(x.Args) == 1 {
		a, ka := t.expr(x.Args[0])
		if ka == "ents" {
			return "(sortedHeads lEntries sortDesc " + a + ")", "omap"
		}
	}
	if s == "entry.NewOrderedMap" && len(x.Args) == 0 {
		return "([] : List Entry)", "omap"
	}
	if s == "entry.Difference" && len(x.Args) == 2 {
		a, ka := t.expr(x.Args[0])
		b, kb := t.expr(x.Args[1])
		if ka == "ents" && kb == "ents" {
			return "(entryDifference " + a + " " + b + ")", "ents"
		}
	}
	if (s == "entry.FindHeads" || s == "entry.NewOrderedMapFromEntries") && len(x.Args) == 1 {
		// FindHeads is translated itself (GenHeads); NewOrderedMapFromEntries is the model's omFromList (it also
		// skips nil and undefined entries: slices of the subset hold neither, see the nil-marking loop)
		a, ka := t.expr(x.Args[0])
		if ka == "omap" || ka == "ents" {
			if s == "entry.FindHeads" {
				return "(findHeads " + a + ")", "ents"
			}
			return "(omFromList " + a + ")", "omap"
		}
	}
	if t.recv != "" && s == t.recv+".values" && len(x.Args) == 0 {
		// the linearisation of the current state: a parameter (IPFSLog.values = traverse from the heads, reversed)
		e1, _ := t.expr(&ast.SelectorExpr{X: &ast.Ident{Name: t.recv}, Sel: &ast.Ident{Name: "Entries"}})
		h1, _ := t.expr(&ast.SelectorExpr{X: &ast.Ident{Name: t.recv}, Sel: &ast.Ident{Name: "heads"}})
		return "(valuesOf " + e1 + " " + h1 + ")", "omap"
	}
	if t.recv != "" && (s == t.recv+".Clock.GetTime" || s == t.recv+".Clock.GetID") && len(x.Args) == 0 {
		if s == t.recv+".Clock.GetTime" {
			return leanName(t.recv + ".ClockTime"), "int"
		}
		return leanName(t.recv + ".ClockID"), "bytes"
	}
	if id, ok := x.Fun.(*ast.Ident); ok && id.Name == "maxClockTimeForEntries" && len(x.Args) == 2 {
		a, ka := t.expr(x.Args[0])
		b, kb := t.expr(x.Args[1])
		if ka == "ents" && kb == "int" {
			return "(maxClockTimeForEntries " + a + " " + b + ")", "int"
		}
	}
	sel, ok := x.Fun.(*ast.SelectorExpr)
	if !ok {
		return t.fail(x, "call"), ""
	}
	// method chains on a translated receiver
	recv, kr := "", ""
	switch r := sel.X.(type) {
	case *ast.CallExpr:
		rs := selChain(r.Fun)
		if !(strings.HasSuffix(rs, ".GetHash") || strings.HasSuffix(rs, ".GetClock")) {
			recv, kr = t.expr(r)
		}
		if strings.HasSuffix(rs, ".GetHash") || strings.HasSuffix(rs, ".GetClock") {
			inner, ki := t.expr(r.Fun.(*ast.SelectorExpr).X)
			if ki == "optentry" {
				inner, ki = "("+inner+".getD default)", "entry"
			}
			if ki == "entry" && len(r.Args) == 0 {
				if strings.HasSuffix(rs, ".GetHash") {
					recv, kr = inner+".hash", "cid"
				} else {
					recv, kr = inner+".clock", "clock"
				}
			}
		}
	default:
		recv, kr = t.expr(sel.X)
	}
	if len(x.Args) == 0 {
		switch {
		case sel.Sel.Name == "GetHash" && (kr == "entry" || kr == "optentry"):
			if kr == "optentry" {
				return "(" + recv + ".getD default).hash", "hash"
			}
			return recv + ".hash", "hash"
		case sel.Sel.Name == "String" && (kr == "cid" || kr == "hash"):
			return recv, "hash"
		case sel.Sel.Name == "Len" && kr == "omap":
			return "(" + recv + ".length : Int)", "int"
		case sel.Sel.Name == "GetLogID" && kr == "entry":
			return recv + ".logId", "bytes"
		case sel.Sel.Name == "GetNext" && kr == "entry":
			return recv + ".next", "cids"
		case sel.Sel.Name == "GetRefs" && kr == "entry":
			return recv + ".refs", "cids"
		case sel.Sel.Name == "GetTime" && kr == "clock":
			return recv + ".time", "int"
		case sel.Sel.Name == "GetID" && kr == "clock":
			return recv + ".id", "bytes"
		}
	}
	if sel.Sel.Name == "Slice" && kr == "omap" && len(x.Args) == 0 {
		return recv, "ents"
	}
	if sel.Sel.Name == "Reverse" && kr == "omap" && len(x.Args) == 0 {
		// OrderedMap.Reverse reverses the key slice in place and returns the receiver (Props/OMapRefine.abs_reverse)
		return recv + ".reverse", "omap"
	}
	if sel.Sel.Name == "At" && kr == "omap" && len(x.Args) == 1 {
		// m.At(uint(i)): the i-th value or nil; a negative i converts to a huge index, i.e. nil (i.toNat = 0 is in
		// range only for a non-empty map, where i = -1 cannot arise from Len()-1 … the proofs cover the cases)
		if conv, ok := x.Args[0].(*ast.CallExpr); ok && src(t.fset, conv.Fun) == "uint" && len(conv.Args) == 1 {
			i, ki := t.expr(conv.Args[0])
			if ki == "int" {
				return "(if decide (" + i + " < 0) then none else " + recv + "[(" + i + ").toNat]?)", "optentry"
			}
		}
	}
	if sel.Sel.Name == "Defined" && (kr == "entry" || kr == "optentry") && len(x.Args) == 0 {
		return "true", "bool" // every entry of the model is defined
	}
	if sel.Sel.Name == "Equals" && kr == "cid" && len(x.Args) == 1 {
		a, ka := t.expr(x.Args[0])
		if ka == "hash" {
			return "(" + recv + " == " + a + ")", "bool"
		}
	}
	if sel.Sel.Name == "Merge" && kr == "omap" && len(x.Args) == 1 {
		// OrderedMap.Merge: the model's omMerge (not translated: tied by the core stream)
		a, ka := t.expr(x.Args[0])
		if ka == "omap" {
			return "(omMerge " + recv + " " + a + ")", "omap"
		}
	}
	if s == "entry.NewOrderedMap" && len(x.Args) == 0 {
		return "([] : List Entry)", "omap"
	}
	if sel.Sel.Name == "UnsafeGet" && kr == "omap" && len(x.Args) == 1 {
		if id, ok := x.Args[0].(*ast.Ident); ok && t.kinds[id.Name] == "key" {
			return leanName(id.Name), "entry"
		}
	}
	return t.fail(x, "method call"), ""
}

// ---- statement analysis ------------------------------------------------------------------------

func isTerminator(s ast.Stmt) bool {
	switch x := s.(type) {
	case *ast.ReturnStmt:
		return true
	case *ast.BranchStmt:
		return x.Tok == token.CONTINUE || x.Tok == token.BREAK
	}
	return false
}

func terminates(stmts []ast.Stmt) bool {
	if len(stmts) == 0 {
		return false
	}
	last := stmts[len(stmts)-1]
	if isTerminator(last) {
		return true
	}
	if ifs, ok := last.(*ast.IfStmt); ok && ifs.Else != nil {
		return terminates(ifs.Body.List) && terminates(elseStmts(ifs))
	}
	return false
}

func elseStmts(ifs *ast.IfStmt) []ast.Stmt {
	switch e := ifs.Else.(type) {
	case *ast.BlockStmt:
		return e.List
	case *ast.IfStmt:
		return []ast.Stmt{e}
	}
	return nil
}

func hasTerminator(stmts []ast.Stmt) bool {
	found := false
	for _, s := range stmts {
		ast.Inspect(s, func(n ast.Node) bool {
			switch x := n.(type) {
			case *ast.FuncLit:
				return false
			case *ast.ForStmt, *ast.RangeStmt:
				// a `continue`/`break` in there belongs to that loop; a `return` leaves the function
				_ = x
				if hasReturn([]ast.Stmt{n.(ast.Stmt)}) {
					found = true
				}
				return false
			case *ast.ReturnStmt:
				found = true
			case *ast.BranchStmt:
				found = true
			case *ast.AssignStmt:
				// xs = ys[a:b] may panic: an exit (`none`)
				if len(x.Rhs) == 1 {
					if _, ok := x.Rhs[0].(*ast.SliceExpr); ok {
						found = true
					}
					// a call of a translated function that is itself partial (it slices)
					ast.Inspect(x.Rhs[0], func(m ast.Node) bool {
						if c, ok := m.(*ast.CallExpr); ok {
							if id, ok := c.Fun.(*ast.Ident); ok && (id.Name == "entryLastN" || id.Name == "entrySliceRange") {
								found = true
							}
						}
						return true
					})
				}
			}
			return true
		})
	}
	return found
}

// assignedOuter: the variables a statement list assigns that it does not declare itself
func assignedOuter(stmts []ast.Stmt) []string {
	set := map[string]bool{}
	var walk func(stmts []ast.Stmt, declared map[string]bool)
	mark := func(e ast.Expr, declared map[string]bool) {
		if ix, ok := e.(*ast.IndexExpr); ok {
			e = ix.X
		}
		if id, ok := e.(*ast.Ident); ok && id.Name != "_" && !declared[id.Name] {
			set[id.Name] = true
		}
		if sel, ok := e.(*ast.SelectorExpr); ok {
			if id, ok := sel.X.(*ast.Ident); ok && id.Name == "options" && sel.Sel.Name == "Heads" {
				set["optHeads"] = true
				return
			}
			if id, ok := sel.X.(*ast.Ident); ok {
				if sel.Sel.Name == "Clock" {
					set[id.Name+".ClockID"] = true
					set[id.Name+".ClockTime"] = true
				} else {
					set[id.Name+"."+sel.Sel.Name] = true
				}
			}
		}
	}
	walk = func(stmts []ast.Stmt, outer map[string]bool) {
		declared := map[string]bool{}
		for k := range outer {
			declared[k] = true
		}
		for _, s := range stmts {
			switch x := s.(type) {
			case *ast.AssignStmt:
				for _, l := range x.Lhs {
					if x.Tok == token.DEFINE {
						if id, ok := l.(*ast.Ident); ok {
							declared[id.Name] = true
						}
					} else {
						mark(l, declared)
					}
				}
			case *ast.DeclStmt:
				if gd, ok := x.Decl.(*ast.GenDecl); ok {
					for _, sp := range gd.Specs {
						if vs, ok := sp.(*ast.ValueSpec); ok {
							for _, n := range vs.Names {
								declared[n.Name] = true
							}
						}
					}
				}
			case *ast.SendStmt:
				mark(x.Chan, declared)
			case *ast.IncDecStmt:
				mark(x.X, declared)
			case *ast.ExprStmt:
				if c, ok := x.X.(*ast.CallExpr); ok {
					s := selChain(c.Fun)
					if (s == "sorting.Reverse" || s == "sort.SliceStable") && len(c.Args) >= 1 {
						mark(c.Args[0], declared)
					}
					if s == "sorting.Sort" && len(c.Args) == 3 {
						mark(c.Args[1], declared)
					}
					if sel, ok := c.Fun.(*ast.SelectorExpr); ok && sel.Sel.Name == "Set" {
						mark(sel.X, declared)
					}
					if sel, ok := c.Fun.(*ast.SelectorExpr); ok && (sel.Sel.Name == "addHashToQueue" || sel.Sel.Name == "addHashesToQueue") && len(c.Args) >= 1 {
						mark(c.Args[0], declared)
					}
				}
			case *ast.IfStmt:
				inner := map[string]bool{}
				for k := range declared {
					inner[k] = true
				}
				if as, ok := x.Init.(*ast.AssignStmt); ok && as.Tok == token.DEFINE {
					for _, l := range as.Lhs {
						if id, ok := l.(*ast.Ident); ok {
							inner[id.Name] = true
						}
					}
				}
				walk(x.Body.List, inner)
				walk(elseStmts(x), inner)
			case *ast.RangeStmt:
				inner := map[string]bool{}
				for k := range declared {
					inner[k] = true
				}
				if id, ok := x.Value.(*ast.Ident); ok {
					inner[id.Name] = true
				}
				if id, ok := x.Key.(*ast.Ident); ok {
					inner[id.Name] = true
				}
				walk(x.Body.List, inner)
			case *ast.ForStmt:
				inner := map[string]bool{}
				for k := range declared {
					inner[k] = true
				}
				if as, ok := x.Init.(*ast.AssignStmt); ok && as.Tok == token.DEFINE {
					for _, l := range as.Lhs {
						if id, ok := l.(*ast.Ident); ok {
							inner[id.Name] = true
						}
					}
				}
				walk(x.Body.List, inner)
			case *ast.BlockStmt:
				walk(x.List, declared)
			}
		}
	}
	walk(stmts, map[string]bool{})
	var out []string
	for k := range set {
		out = append(out, k)
	}
	sort.Strings(out)
	return out
}

// ordered: the variables in the order of their declarations in the source (stable under renaming), the
// receiver's fields last in name order
func (t *tr2) ordered(vars []string) []string {
	out := append([]string{}, vars...)
	sort.SliceStable(out, func(i, j int) bool {
		pi, oki := t.declPos[out[i]]
		pj, okj := t.declPos[out[j]]
		if oki != okj {
			return oki
		}
		if !oki {
			return out[i] < out[j]
		}
		return pi < pj
	})
	return out
}

func tupleOf(vars []string) string {
	var ns []string
	for _, v := range vars {
		ns = append(ns, leanName(v))
	}
	if len(ns) == 1 {
		return ns[0]
	}
	return "(" + strings.Join(ns, ", ") + ")"
}

// ---- statements --------------------------------------------------------------------------------

// block translates a statement list; `fall` is what it evaluates to when control reaches its end
// ("" at function level: the function must return), inLoop says that `continue` (→ fall) is allowed
func (t *tr2) block(stmts []ast.Stmt, fall string, inLoop bool) string {
	if len(stmts) == 0 {
		if fall == "" {
			return t.fail(&ast.BlockStmt{}, "function falls off its end")
		}
		return fall
	}
	st, rest := stmts[0], stmts[1:]
	let := func(name, val string) string {
		return "(let " + name + " := " + val + ";\n    " + t.block(rest, fall, inLoop) + ")"
	}
	switch x := st.(type) {
	case *ast.ReturnStmt:
		if t.emitter != "" && len(x.Results) == 1 {
			// an emitter returns only an error: nil = what was sent so far, anything else = `none`
			if isNil(x.Results[0]) {
				if inLoop {
					return t.fail(st, "successful return inside a loop")
				}
				return "(some " + leanName(t.emitter) + ")"
			}
			return "none"
		}
		if inLoop && t.monadic > 0 && len(x.Results) == 2 && !isNil(x.Results[1]) {
			return "none"
		}
		if len(x.Results) == 0 && !inLoop && t.noResult != "" {
			return t.noResult
		}
		if len(x.Results) == 2 && !inLoop && t.partial && isNil(x.Results[1]) {
			if u, ok := x.Results[0].(*ast.UnaryExpr); ok && u.Op == token.AND {
				if cl, ok := u.X.(*ast.CompositeLit); ok && src(t.fset, cl.Type) == "Snapshot" && (len(cl.Elts) == 2 || len(cl.Elts) == 3) {
					f := map[string]string{}
					for _, el := range cl.Elts {
						if kv, ok := el.(*ast.KeyValueExpr); ok {
							f[src(t.fset, kv.Key)] = src(t.fset, kv.Value)
						}
					}
					v := f["Values"]
					if hv := f["Heads"]; len(cl.Elts) == 3 && v != "" && t.kinds[v] == "ents" && f["ID"] == "logHeads.ID" && t.kinds[hv] == "cids" {
						return "(some (" + leanName(v) + ", " + leanName(hv) + "))"
					}
					if cl2 := len(cl.Elts); cl2 == 3 || cl2 == 2 {
						if v != "" && t.kinds[v] == "ents" && f["ID"] == "jsonLog.ID" && (f["Heads"] == "jsonLog.Heads" || cl2 == 2) {
							// id and heads are handed through from the caller's manifest: the entries are the result
							return "(some " + leanName(v) + ")"
						}
					}
					if v != "" && t.kinds[v] == "ents" && f["ID"] == v+"[len("+v+")-1].GetLogID()" {
						// indexing the last element panics on an empty slice: `none`
						return "(match " + leanName(v) + ".getLast? with | none => none | some last__ => (some (last__.logId, " + leanName(v) + ")))"
					}
				}
				return t.fail(st, "returned struct")
			}
		}
		if len(x.Results) == 2 && !inLoop && t.partial {
			// (value, error): an error is `none`
			if isNil(x.Results[1]) {
				v, _ := t.expr(x.Results[0])
				return "(some " + v + ")"
			}
			return "none"
		}
		if inLoop || len(x.Results) != 1 {
			return t.fail(st, "return inside a loop, or not exactly one result")
		}
		if u, ok := x.Results[0].(*ast.UnaryExpr); ok && u.Op == token.AND && t.views {
			// &iface.JSONLog{ID: l.ID, Heads: …} / &Snapshot{ID: l.ID, Heads: …, Values: …}: the id is the log's own,
			// the result is the tuple of the other fields in the order Heads, Values
			if cl, ok := u.X.(*ast.CompositeLit); ok && (src(t.fset, cl.Type) == "iface.JSONLog" || src(t.fset, cl.Type) == "Snapshot") {
				f := map[string]ast.Expr{}
				for _, el := range cl.Elts {
					kv, ok := el.(*ast.KeyValueExpr)
					if !ok {
						return t.fail(st, "returned struct without field names")
					}
					f[src(t.fset, kv.Key)] = kv.Value
				}
				want := []string{"Heads"}
				if src(t.fset, cl.Type) == "Snapshot" {
					want = []string{"Heads", "Values"}
				}
				if f["ID"] == nil || src(t.fset, f["ID"]) != t.recv+".ID" || len(f) != len(want)+1 {
					return t.fail(st, "returned struct: fields")
				}
				var parts []string
				bind := ""
				for _, w := range want {
					if f[w] == nil {
						return t.fail(st, "returned struct: field "+w)
					}
					if src(t.fset, f[w]) == t.recv+".values().Slice()" {
						bind = "vals__"
						parts = append(parts, "vals__")
						continue
					}
					v, k := t.expr(f[w])
					if (w == "Heads" && k != "cids") || (w == "Values" && k != "ents") {
						return t.fail(st, "returned struct: kind of "+w)
					}
					parts = append(parts, v)
				}
				res := "(" + strings.Join(parts, ", ") + ")"
				if bind != "" {
					t.usesFuel = true
					return "(match (values fuel lEntries sortDesc lHeads) with | none => none | some vals__ => (some " + res + "))"
				}
				if t.partial {
					return "(some " + res + ")"
				}
				return res
			}
			return t.fail(st, "returned struct")
		}
		if sl, ok := x.Results[0].(*ast.SliceExpr); ok {
			if !t.partial || sl.Slice3 {
				return t.fail(st, "slice expression")
			}
			xs, kx := t.expr(sl.X)
			if kx != "ents" && kx != "cids" {
				return t.fail(st, "slice of a non-slice")
			}
			lo, hi := "(0 : Int)", "("+xs+".length : Int)"
			if sl.Low != nil {
				s, k := t.expr(sl.Low)
				if k != "int" {
					return t.fail(st, "slice bound")
				}
				lo = s
			}
			if sl.High != nil {
				s, k := t.expr(sl.High)
				if k != "int" {
					return t.fail(st, "slice bound")
				}
				hi = s
			}
			return "(slice? " + xs + " " + lo + " " + hi + ")"
		}
		s, _ := t.expr(x.Results[0])
		if t.partial {
			return "(some " + s + ")"
		}
		return s
	case *ast.BranchStmt:
		if x.Tok == token.CONTINUE && inLoop && x.Label == nil {
			return fall
		}
		if x.Tok == token.BREAK && inLoop && x.Label == nil && t.brk != "" {
			return t.brk
		}
		return t.fail(st, "branch statement")
	case *ast.DeclStmt:
		gd, ok := x.Decl.(*ast.GenDecl)
		if !ok || gd.Tok != token.VAR || len(gd.Specs) != 1 {
			return t.fail(st, "declaration")
		}
		vs := gd.Specs[0].(*ast.ValueSpec)
		if len(vs.Names) != 1 || len(vs.Values) != 0 || vs.Type == nil {
			return t.fail(st, "declaration")
		}
		k := kindOfType(vs.Type)
		if zeroOfKind(k) == "" {
			return t.fail(st, "declaration type")
		}
		t.kinds[vs.Names[0].Name] = k
		return let(leanName(vs.Names[0].Name), zeroOfKind(k))
	case *ast.IncDecStmt:
		id, ok := x.X.(*ast.Ident)
		if !ok || t.kinds[id.Name] != "int" {
			return t.fail(st, "increment")
		}
		op := " + 1"
		if x.Tok == token.DEC {
			op = " - 1"
		}
		return let(leanName(id.Name), "("+leanName(id.Name)+op+")")
	case *ast.AssignStmt:
		// e := xs[0]; xs = xs[1:]   (inside `for len(xs) > 0 && …`): take the head
		if r, ok := t.headPattern(x, rest, fall, inLoop, false); ok {
			return r
		}
		return t.assign(x, rest, fall, inLoop)
	case *ast.ExprStmt:
		c, ok := x.X.(*ast.CallExpr)
		if !ok {
			return t.fail(st, "expression statement")
		}
		if sc := selChain(c.Fun); sc == "verifHook" || sc == "close" || (t.recv != "" && strings.HasPrefix(sc, t.recv+".lock.") && len(c.Args) == 0) {
			// hooks, the log's lock (regenerated lock facts cover it) and close(output) of an emitter
			if sc == "close" && (len(c.Args) != 1 || src(t.fset, c.Args[0]) != t.emitter) {
				return t.fail(st, "close")
			}
			return t.block(rest, fall, inLoop)
		}
		if sc := selChain(c.Fun); t.recv != "" && strings.HasPrefix(sc, t.recv+".mu") && (strings.HasSuffix(sc, ".Lock") || strings.HasSuffix(sc, ".Unlock")) && len(c.Args) == 0 {
			// locking is not represented here (the regenerated lock and synchronisation facts cover it)
			return t.block(rest, fall, inLoop)
		}
		if sel, ok := c.Fun.(*ast.SelectorExpr); ok && src(t.fset, sel.X) == t.recv && t.recv != "" && len(c.Args) >= 1 {
			if q, ok := c.Args[0].(*ast.Ident); ok && t.kinds[q.Name] == "queue" {
				switch {
				case sel.Sel.Name == "addHashToQueue" && len(c.Args) == 3:
					// the priority (second argument) is not represented: the model's queue is unordered
					h, kh := t.expr(c.Args[2])
					if kh == "hash" {
						return let(leanName(q.Name), "(add "+leanName(q.Name)+" "+h+")")
					}
				case sel.Sel.Name == "addHashesToQueue" && len(c.Args) == 2 && c.Ellipsis != token.NoPos:
					hs, kh := t.expr(c.Args[1])
					if kh == "cids" {
						return let(leanName(q.Name), "(("+hs+").foldl add "+leanName(q.Name)+")")
					}
				}
				return t.fail(st, "queue call")
			}
		}
		if sel, ok := c.Fun.(*ast.SelectorExpr); ok && sel.Sel.Name == "Set" && len(c.Args) == 2 {
			// m.Set(e.GetHash().String(), e) on an ordered map (a local, or a field of the receiver)
			key := ""
			if id, ok := sel.X.(*ast.Ident); ok {
				key = id.Name
			} else if fs, ok := sel.X.(*ast.SelectorExpr); ok {
				if r, ok := fs.X.(*ast.Ident); ok && r.Name == t.recv && t.recv != "" {
					key = r.Name + "." + fs.Sel.Name
				}
			}
			if key != "" && t.kinds[key] == "omap" {
				k, kk := t.expr(c.Args[0])
				v, kv := t.expr(c.Args[1])
				if kk == "hash" && kv == "entry" && k == v+".hash" {
					return let(leanName(key), "(omSet "+leanName(key)+" "+v+")")
				}
				if kk == "hash" && kv == "entry" {
					return let(leanName(key), "(omSetK "+leanName(key)+" "+k+" "+v+")")
				}
			}
			if key != "" && t.kinds[key] == "set" {
				// an index of which only the key set is ever read (IPFSLog.Next)
				k, kk := t.expr(c.Args[0])
				if _, kv := t.expr(c.Args[1]); kk == "hash" && kv == "entry" {
					return let(leanName(key), "(setInsert "+leanName(key)+" "+k+")")
				}
			}
			return t.fail(st, "Set on something that is not an ordered map of the subset")
		}
		// an in-place mutation of a slice that has another name changes what both names denote
		letIP := func(goName, val string) string {
			if p, ok := t.aliases[goName]; ok {
				return "(let " + leanName(goName) + " := " + val + "; (let " + leanName(p) + " := " + leanName(goName) + "; " + t.block(rest, fall, inLoop) + "))"
			}
			return let(leanName(goName), val)
		}
		switch selChain(c.Fun) {
		case "sorting.Sort":
			// sorting.Sort(sorting.Compare, xs, false): ascending by clock (the model's clockAsc: Compare is
			// LamportClock.Compare on defined entries, Sort's ascending less-function is `ret < 0`)
			if len(c.Args) == 3 && src(t.fset, c.Args[0]) == "sorting.Compare" && src(t.fset, c.Args[2]) == "false" {
				if id, ok := c.Args[1].(*ast.Ident); ok && t.kinds[id.Name] == "ents" {
					return letIP(id.Name, "(goSort clockAsc "+leanName(id.Name)+")")
				}
			}
			// sorting.Sort(sortFn, xs, false) with the comparison function chosen before: its ascending less-function is
			// the parameter sortAsc
			if len(c.Args) == 3 && src(t.fset, c.Args[2]) == "false" {
				if fn, ok := c.Args[0].(*ast.Ident); ok && t.kinds[fn.Name] == "sortfn" {
					if id, ok := c.Args[1].(*ast.Ident); ok && t.kinds[id.Name] == "ents" {
						return letIP(id.Name, "(goSort sortAsc "+leanName(id.Name)+")")
					}
				}
			}
			// sorting.Sort(l.SortFn, xs, true): the log's descending order (parameter sortDesc)
			if len(c.Args) == 3 && src(t.fset, c.Args[0]) == t.recv+".SortFn" && src(t.fset, c.Args[2]) == "true" {
				if id, ok := c.Args[1].(*ast.Ident); ok && t.kinds[id.Name] == "ents" {
					return letIP(id.Name, "(goSort sortDesc "+leanName(id.Name)+")")
				}
			}
		case "sorting.Reverse":
			if id, ok := c.Args[0].(*ast.Ident); ok && len(c.Args) == 1 && t.kinds[id.Name] == "ents" {
				return letIP(id.Name, leanName(id.Name)+".reverse")
			}
		case "sort.SliceStable":
			// sort.SliceStable(xs, func(a, b int) bool { return <less of xs[a], xs[b]> }): the stable
			// insertion sort of the model (`goSort`) under that strict order
			id, ok := c.Args[0].(*ast.Ident)
			fl, ok2 := c.Args[1].(*ast.FuncLit)
			if ok && ok2 && len(c.Args) == 2 && t.kinds[id.Name] == "ents" && len(fl.Body.List) == 1 {
				var ps []string
				for _, f := range fl.Type.Params.List {
					for _, n := range f.Names {
						ps = append(ps, n.Name)
					}
				}
				ret, isRet := fl.Body.List[0].(*ast.ReturnStmt)
				if len(ps) == 2 && isRet && len(ret.Results) == 1 {
					old := t.subst
					t.subst = map[string]string{}
					for k, v := range old {
						t.subst[k] = v
					}
					t.subst[id.Name+"["+ps[0]+"]"] = "sa"
					t.subst[id.Name+"["+ps[1]+"]"] = "sb"
					less, k := t.expr(ret.Results[0])
					t.subst = old
					if k == "bool" {
						return letIP(id.Name, "(goSort (fun (sa sb : Entry) => "+less+") "+leanName(id.Name)+")")
					}
				}
			}
		}
		return t.fail(st, "call statement")
	case *ast.DeferStmt:
		if sc := selChain(x.Call.Fun); t.recv != "" && strings.HasPrefix(sc, t.recv+".lock.") {
			return t.block(rest, fall, inLoop) // the deferred release of the log's lock
		}
		return t.fail(st, "defer")
	case *ast.SendStmt:
		if src(t.fset, x.Chan) == t.emitter && t.emitter != "" {
			v, kv := t.expr(x.Value)
			if kv == "entry" {
				return let(leanName(t.emitter), "("+leanName(t.emitter)+" ++ ["+v+"])")
			}
		}
		return t.fail(st, "send")
	case *ast.IfStmt:
		return t.ifStmt(x, rest, fall, inLoop)
	case *ast.SwitchStmt:
		// a tagless switch is an if / else-if chain (no fallthrough in the subset)
		if chain := switchToIf(x); chain != nil {
			return t.block(append([]ast.Stmt{chain}, rest...), fall, inLoop)
		}
		if len(x.Body.List) == 1 && x.Tag == nil && x.Init == nil { // only a default clause
			return t.block(append(append([]ast.Stmt{}, x.Body.List[0].(*ast.CaseClause).Body...), rest...), fall, inLoop)
		}
		return t.fail(st, "switch")
	case *ast.RangeStmt:
		return t.rangeStmt(x, rest, fall, inLoop)
	case *ast.ForStmt:
		return t.forStmt(x, rest, fall, inLoop)
	}
	return t.fail(st, "statement")
}

func (t *tr2) assign(x *ast.AssignStmt, rest []ast.Stmt, fall string, inLoop bool) string {
	// a name that is given a new value stops being another name of the old array
	if len(x.Lhs) == 1 && len(x.Rhs) == 1 && (x.Tok == token.ASSIGN || x.Tok == token.DEFINE) {
		if id, ok := x.Lhs[0].(*ast.Ident); ok {
			if _, bare := x.Rhs[0].(*ast.Ident); !bare {
				if p, ok := t.aliases[id.Name]; ok {
					delete(t.aliases, id.Name)
					delete(t.aliases, p)
				}
			}
		}
	}
	// xs := make([]T, len(ys)); for i, e := range ys { xs[i] = f(e) }   →   xs := ys.map f
	if x.Tok == token.DEFINE && len(x.Lhs) == 1 && len(x.Rhs) == 1 && len(rest) > 0 {
		if mk, ok := x.Rhs[0].(*ast.CallExpr); ok && src(t.fset, mk.Fun) == "make" && len(mk.Args) == 2 {
			if rg, ok := rest[0].(*ast.RangeStmt); ok && rg.Tok == token.DEFINE && len(rg.Body.List) == 1 {
				xs := src(t.fset, x.Lhs[0])
				ki, okk := rg.Key.(*ast.Ident)
				ve, okv := rg.Value.(*ast.Ident)
				st, oks := rg.Body.List[0].(*ast.AssignStmt)
				if okk && okv && oks && st.Tok == token.ASSIGN && len(st.Lhs) == 1 && len(st.Rhs) == 1 &&
					src(t.fset, mk.Args[1]) == "len("+src(t.fset, rg.X)+")" && src(t.fset, st.Lhs[0]) == xs+"["+ki.Name+"]" {
					k := kindOfType(mk.Args[0])
					ys, ky := t.expr(rg.X)
					elemKind := map[string]string{"ents": "entry", "cids": "hash"}[ky]
					if (k == "cids" || k == "ents") && elemKind != "" {
						saved := t.saveKinds()
						t.kinds[ve.Name] = elemKind
						f, kf := t.expr(st.Rhs[0])
						t.kinds = saved
						uses := false
						ast.Inspect(st.Rhs[0], func(n ast.Node) bool {
							if id, ok := n.(*ast.Ident); ok && id.Name == ki.Name {
								uses = true
							}
							return true
						})
						if !uses && ((k == "cids" && kf == "hash") || (k == "ents" && kf == "entry")) {
							t.kinds[xs] = k
							return "(let " + leanName(xs) + " := (" + ys + ").map (fun " + leanName(ve.Name) + " => " + f + ");\n    " + t.block(rest[1:], fall, inLoop) + ")"
						}
					}
				}
			}
		}
	}
	cont := func() string { return t.block(rest, fall, inLoop) }
	// m, err := l.traverse(roots, amount, endHash); [unlock;] if err != nil { return … }   →   a bind
	if len(x.Lhs) == 2 && len(x.Rhs) == 1 && x.Tok == token.DEFINE && src(t.fset, x.Lhs[1]) == "err" && t.recv != "" {
		if c, ok := x.Rhs[0].(*ast.CallExpr); ok && selChain(c.Fun) == t.recv+".traverse" && len(c.Args) == 3 {
			a0, k0 := t.expr(c.Args[0])
			a1, k1 := t.expr(c.Args[1])
			a2, k2 := t.expr(c.Args[2])
			// the error test must follow (lock releases in between are skipped)
			j := 0
			for j < len(rest) {
				if es, ok := rest[j].(*ast.ExprStmt); ok {
					if cc, ok := es.X.(*ast.CallExpr); ok && strings.HasPrefix(selChain(cc.Fun), t.recv+".lock.") {
						j++
						continue
					}
				}
				break
			}
			if j < len(rest) {
				if ifs, ok := rest[j].(*ast.IfStmt); ok && ifs.Init == nil && ifs.Else == nil && src(t.fset, ifs.Cond) == "err != nil" && terminates(ifs.Body.List) && k0 == "omap" && k1 == "int" && k2 == "hash" {
					v := x.Lhs[0].(*ast.Ident).Name
					t.kinds[v] = "omap"
					t.usesFuel = true
					return "(match (traverse fuel lEntries sortDesc " + a0 + " " + a1 + " " + a2 + ") with | none => none | some " + leanName(v) + " => " + t.block(rest[j+1:], fall, inLoop) + ")"
				}
			}
			return t.fail(x, "traverse call without the error test")
		}
	}
	// m, _ := l.traverse(roots, amount, endHash): the error is ignored — what follows uses m, which is nil after an
	// error (a method call on it panics): `none`
	if len(x.Lhs) == 2 && len(x.Rhs) == 1 && x.Tok == token.DEFINE && src(t.fset, x.Lhs[1]) == "_" && t.recv != "" && t.partial {
		if c, ok := x.Rhs[0].(*ast.CallExpr); ok && selChain(c.Fun) == t.recv+".traverse" && len(c.Args) == 3 {
			a0, k0 := t.expr(c.Args[0])
			a1, k1 := t.expr(c.Args[1])
			a2, k2 := t.expr(c.Args[2])
			if id, ok := x.Lhs[0].(*ast.Ident); ok && k0 == "omap" && k1 == "int" && k2 == "hash" {
				t.kinds[id.Name] = "omap"
				t.usesFuel = true
				return "(match (traverse fuel lEntries sortDesc " + a0 + " " + a1 + " " + a2 + ") with | none => none | some " + leanName(id.Name) + " => " + t.block(rest, fall, inLoop) + ")"
			}
			return t.fail(x, "traverse call with ignored error")
		}
	}
	// v, ok := m.Get(k) on an ordered map
	if len(x.Lhs) == 2 && len(x.Rhs) == 1 && x.Tok == token.DEFINE {
		if c, ok := x.Rhs[0].(*ast.CallExpr); ok {
			sel, ok := c.Fun.(*ast.SelectorExpr)
			if !ok || sel.Sel.Name != "Get" || len(c.Args) != 1 {
				return t.fail(x, "two-value call")
			}
			m, km := t.expr(sel.X)
			k, kk := t.expr(c.Args[0])
			v, okv := x.Lhs[0].(*ast.Ident)
			o, oko := x.Lhs[1].(*ast.Ident)
			if km == "set" && kk == "hash" && okv && oko && v.Name == "_" && o.Name != "_" {
				t.kinds[o.Name] = "bool"
				return "(let " + leanName(o.Name) + " := (" + m + ".contains " + k + "); " + cont() + ")"
			}
			if km != "omap" || kk != "hash" || !okv || !oko {
				return t.fail(x, "Get on something that is not an ordered map")
			}
			out, closing := "", ""
			if o.Name != "_" {
				t.kinds[o.Name] = "bool"
				out += "(let " + leanName(o.Name) + " := (get? " + m + " " + k + ").isSome;\n    "
				closing += ")"
			}
			if v.Name != "_" {
				t.kinds[v.Name] = "entry"
				out += "(let " + leanName(v.Name) + " := (get? " + m + " " + k + ").getD default;\n    "
				closing += ")"
			}
			return out + cont() + closing
		}
	}
	// a, ok := m[k]
	if len(x.Lhs) == 2 && len(x.Rhs) == 1 && x.Tok == token.DEFINE {
		ix, ok := x.Rhs[0].(*ast.IndexExpr)
		if !ok {
			return t.fail(x, "assignment")
		}
		m, km := t.expr(ix.X)
		k, kk := t.expr(ix.Index)
		if kk != "hash" || (km != "set" && km != "smap") {
			return t.fail(x, "map read")
		}
		out := ""
		closing := ""
		if id, ok := x.Lhs[0].(*ast.Ident); ok && id.Name != "_" {
			if km == "set" {
				t.kinds[id.Name] = "bool"
				out += "(let " + leanName(id.Name) + " := (" + m + ".contains " + k + ");\n    "
			} else {
				t.kinds[id.Name] = "hash"
				out += "(let " + leanName(id.Name) + " := (mapGet " + m + " " + k + ");\n    "
			}
			closing += ")"
		}
		if id, ok := x.Lhs[1].(*ast.Ident); ok && id.Name != "_" {
			t.kinds[id.Name] = "bool"
			has := "(" + m + ".contains " + k + ")"
			if km == "smap" {
				has = "(mapHas " + m + " " + k + ")"
			}
			out += "(let " + leanName(id.Name) + " := " + has + ";\n    "
			closing += ")"
		}
		return out + cont() + closing
	}
	if len(x.Lhs) != 1 || len(x.Rhs) != 1 {
		return t.fail(x, "assignment")
	}
	// m[k] = v
	if ix, ok := x.Lhs[0].(*ast.IndexExpr); ok && x.Tok == token.ASSIGN {
		mid, ok := ix.X.(*ast.Ident)
		if !ok {
			return t.fail(x, "map write")
		}
		m, km := t.expr(ix.X)
		k, kk := t.expr(ix.Index)
		v, kv := t.expr(x.Rhs[0])
		if kk == "hash" && km == "set" && (v == "true" || kv == "unit") {
			return "(let " + leanName(mid.Name) + " := (setInsert " + m + " " + k + ");\n    " + cont() + ")"
		}
		if kk == "hash" && km == "smap" && kv == "hash" {
			return "(let " + leanName(mid.Name) + " := (mapSet " + m + " " + k + " " + v + ");\n    " + cont() + ")"
		}
		return t.fail(x, "map write")
	}
	// options.Heads = …: the caller's option value is a local of the translation
	if sel, isSel := x.Lhs[0].(*ast.SelectorExpr); isSel && x.Tok == token.ASSIGN && sel.Sel.Name == "Heads" {
		if id, ok := sel.X.(*ast.Ident); ok && t.kinds[id.Name] == "logopts" {
			v, kv := t.expr(x.Rhs[0])
			if kv == "ents" {
				return "(let optHeads := " + v + "; " + cont() + ")"
			}
		}
	}
	// l.Identity = identity: which identity signs is not part of the translated state (the clock id is)
	if sel, isSel := x.Lhs[0].(*ast.SelectorExpr); isSel && x.Tok == token.ASSIGN && src(t.fset, sel) == t.recv+".Identity" && t.recv != "" {
		if id, ok := x.Rhs[0].(*ast.Ident); ok && t.kinds[id.Name] == "identity" {
			return cont()
		}
	}
	// l.Clock = entry.NewLamportClock(id, time): the clock is its two components
	if sel, isSel := x.Lhs[0].(*ast.SelectorExpr); isSel && x.Tok == token.ASSIGN && src(t.fset, sel) == t.recv+".Clock" && t.recv != "" {
		if c, ok := x.Rhs[0].(*ast.CallExpr); ok && selChain(c.Fun) == "entry.NewLamportClock" && len(c.Args) == 2 {
			a, ka := t.expr(c.Args[0])
			b, kb := t.expr(c.Args[1])
			if ka == "bytes" && kb == "int" {
				return "(let " + leanName(t.recv+".ClockID") + " := " + a + "; (let " + leanName(t.recv+".ClockTime") + " := " + b + "; " + cont() + "))"
			}
		}
		return t.fail(x, "clock assignment")
	}
	// x = entryLastN(xs, n): the translated entryLastN is partial (its slice expression)
	if c, isCall := x.Rhs[0].(*ast.CallExpr); isCall && src(t.fset, c.Fun) == "entryLastN" && len(c.Args) == 2 && t.partial {
		if id, ok := x.Lhs[0].(*ast.Ident); ok {
			a0, k0 := t.expr(c.Args[0])
			a1, k1 := t.expr(c.Args[1])
			if k0 == "ents" && k1 == "int" && (x.Tok == token.DEFINE || t.kinds[id.Name] == "ents") {
				t.kinds[id.Name] = "ents"
				return "(match (entryLastN " + a0 + " " + a1 + ") with | none => none | some " + leanName(id.Name) + " => " + cont() + ")"
			}
		}
		return t.fail(x, "entryLastN call")
	}
	// x := append(A, entrySliceRange(xs, a, b)...): the translated entrySliceRange is partial (its slice expression)
	if ap, isCall := x.Rhs[0].(*ast.CallExpr); isCall && src(t.fset, ap.Fun) == "append" && len(ap.Args) == 2 && ap.Ellipsis != token.NoPos && t.partial {
		if inner, ok := ap.Args[1].(*ast.CallExpr); ok && src(t.fset, inner.Fun) == "entrySliceRange" && len(inner.Args) == 3 {
			if id, ok := x.Lhs[0].(*ast.Ident); ok {
				a0, k0 := t.expr(ap.Args[0])
				i0, j0 := t.expr(inner.Args[0])
				i1, j1 := t.expr(inner.Args[1])
				i2, j2 := t.expr(inner.Args[2])
				if k0 == "ents" && j0 == "ents" && j1 == "int" && j2 == "int" {
					t.kinds[id.Name] = "ents"
					return "(match (entrySliceRange " + i0 + " " + i1 + " " + i2 + ") with | none => none | some tmp__ => (let " + leanName(id.Name) + " := (" + a0 + " ++ tmp__); " + cont() + "))"
				}
			}
		}
	}
	// xs = ys[a:b]  (not in return position): `none` when Go would panic
	if sl, isSl := x.Rhs[0].(*ast.SliceExpr); isSl && t.partial && !sl.Slice3 {
		if id, ok := x.Lhs[0].(*ast.Ident); ok {
			xs, kx := t.expr(sl.X)
			if kx == "ents" || kx == "cids" {
				lo, hi := "(0 : Int)", "("+xs+".length : Int)"
				okb := true
				if sl.Low != nil {
					v, k := t.expr(sl.Low)
					lo, okb = v, okb && k == "int"
				}
				if sl.High != nil {
					v, k := t.expr(sl.High)
					hi, okb = v, okb && k == "int"
				}
				if okb && (x.Tok == token.DEFINE || t.kinds[id.Name] == kx) {
					t.kinds[id.Name] = kx
					return "(match (slice? " + xs + " " + lo + " " + hi + ") with | none => none | some " + leanName(id.Name) + " => " + cont() + ")"
				}
			}
		}
		return t.fail(x, "slice assignment")
	}
	id, ok := x.Lhs[0].(*ast.Ident)
	if sel, isSel := x.Lhs[0].(*ast.SelectorExpr); isSel && !ok {
		if r, isId := sel.X.(*ast.Ident); isId && r.Name == t.recv && t.recv != "" {
			if _, known := t.kinds[r.Name+"."+sel.Sel.Name]; known && x.Tok == token.ASSIGN {
				id, ok = &ast.Ident{Name: r.Name + "." + sel.Sel.Name}, true
			}
		}
	}
	if !ok {
		return t.fail(x, "assignment target")
	}
	v, kv := t.expr(x.Rhs[0])
	if op, isOp := map[token.Token]string{token.MUL_ASSIGN: "*", token.ADD_ASSIGN: "+", token.SUB_ASSIGN: "-"}[x.Tok]; isOp {
		if t.kinds[id.Name] == "int" && kv == "int" {
			return "(let " + leanName(id.Name) + " := (" + leanName(id.Name) + " " + op + " " + v + "); " + cont() + ")"
		}
		return t.fail(x, "operator assignment")
	}
	if rid, isIdent := x.Rhs[0].(*ast.Ident); isIdent && (kv == "ents" || kv == "cids") && (x.Tok == token.DEFINE || x.Tok == token.ASSIGN) {
		// two names for one backing array: an in-place mutation through either is a mutation of both
		if t.aliases == nil {
			t.aliases = map[string]string{}
		}
		if _, taken := t.aliases[rid.Name]; taken {
			return t.fail(x, "a third name for one slice")
		}
		t.aliases[id.Name] = rid.Name
		t.aliases[rid.Name] = id.Name
	}
	switch x.Tok {
	case token.DEFINE:
		if kv == "" || kv == "nil" || kv == "unit" {
			return t.fail(x, "definition of unknown kind")
		}
		t.kinds[id.Name] = kv
	case token.ASSIGN:
		if k := t.kinds[id.Name]; k != kv && !(kv == "nil" && (k == "ents" || k == "cids")) {
			return t.fail(x, "assignment changes the kind")
		}
	default:
		return t.fail(x, "assignment operator")
	}
	return "(let " + leanName(id.Name) + " := " + v + ";\n    " + cont() + ")"
}

func (t *tr2) ifStmt(x *ast.IfStmt, rest []ast.Stmt, fall string, inLoop bool) string {
	// if len(xs) == 0 { break }; e := xs[0]; xs = xs[1:]
	if x.Init == nil && x.Else == nil && len(x.Body.List) == 1 && len(rest) >= 2 {
		if br, ok := x.Body.List[0].(*ast.BranchStmt); ok && br.Tok == token.BREAK {
			if as, ok := rest[0].(*ast.AssignStmt); ok && len(as.Rhs) == 1 {
				if ix, ok := as.Rhs[0].(*ast.IndexExpr); ok && src(t.fset, x.Cond) == "len("+src(t.fset, ix.X)+") == 0" {
					if r, ok := t.headPattern(as, rest[1:], fall, inLoop, true); ok {
						return r
					}
				}
			}
		}
	}
	prefix, closing := "", ""
	if x.Init != nil {
		as, ok := x.Init.(*ast.AssignStmt)
		if !ok || as.Tok != token.DEFINE {
			return t.fail(x, "if initialiser")
		}
		// translate the initialiser as a statement in front of a copy of the `if` without it; its names
		// are fresh in the subset (checked: they must not exist yet)
		for _, l := range as.Lhs {
			if id, ok := l.(*ast.Ident); ok && id.Name != "_" {
				if _, exists := t.kinds[id.Name]; exists {
					return t.fail(x, "if initialiser shadows a variable")
				}
			}
		}
		y := *x
		y.Init = nil
		return t.assign(as, append([]ast.Stmt{&y}, rest...), fall, inLoop)
	}
	c, kc := t.expr(x.Cond)
	if kc != "bool" {
		return t.fail(x.Cond, "condition")
	}
	body, els := x.Body.List, elseStmts(x)
	if c == "false" && len(els) == 0 {
		// dead under the translation's assumption (a nil test of a value that is never nil)
		return t.block(rest, fall, inLoop)
	}
	switch {
	case !hasTerminator(body) && !hasTerminator(els):
		vars := t.ordered(assignedOuter(append(append([]ast.Stmt{}, body...), els...)))
		if len(vars) == 0 {
			return prefix + t.block(rest, fall, inLoop) + closing
		}
		tup := tupleOf(vars)
		saved := t.saveKinds()
		th := t.block(body, tup, false)
		t.kinds = saved
		el := tup
		if len(els) > 0 {
			saved := t.saveKinds()
			el = t.block(els, tup, false)
			t.kinds = saved
		}
		return prefix + "(let " + tup + " := (if " + c + " then " + th + " else " + el + ");\n    " + t.block(rest, fall, inLoop) + ")" + closing
	case terminates(body):
		saved := t.saveKinds()
		th := t.block(body, fall, inLoop)
		t.kinds = saved
		return prefix + "(if " + c + " then " + th + "\n    else " + t.block(append(append([]ast.Stmt{}, els...), rest...), fall, inLoop) + ")" + closing
	}
	// exits on some paths only: the continuation is duplicated into both branches, provided no name
	// declared at the top of a branch is visible to it
	if !captures(body, rest) && !captures(els, rest) {
		if !inLoop && t.monadic == 0 && len(rest) > 0 && t.retType != "" {
			// outside loops the continuation becomes a join point: an auxiliary definition over the variables in
			// scope, called from both branches (one copy, and a name for the proofs)
			live := t.liveVars()
			var bind, args []string
			for _, v := range live {
				bind = append(bind, "("+leanName(v)+" : "+leanTypeOfKind[t.kinds[v]]+")")
				args = append(args, leanName(v))
			}
			t.joinN++
			name := fmt.Sprintf("%s_join%d", t.fn, t.joinN)
			fuelB, fuelA := "", ""
			if t.hasFuel {
				fuelB, fuelA = "(fuel : Nat) ", "fuel "
			}
			saved := t.saveKinds()
			restTr := strings.Join(strings.Fields(t.block(rest, fall, inLoop)), " ")
			t.kinds = saved
			t.loops = append(t.loops, fmt.Sprintf("def %s %s%s %s : %s :=\n  %s\n", name, fuelB, strings.Join(t.params, " "), strings.Join(bind, " "), t.retType, restTr))
			call := "(" + name + " " + fuelA + strings.Join(t.pnames, " ") + " " + strings.Join(args, " ") + ")"
			saved = t.saveKinds()
			th := t.block(body, call, inLoop)
			t.kinds = saved
			saved = t.saveKinds()
			el := t.block(els, call, inLoop)
			t.kinds = saved
			return prefix + "(if " + c + " then " + th + "\n    else " + el + ")" + closing
		}
		{
			saved := t.saveKinds()
			th := t.block(append(append([]ast.Stmt{}, body...), rest...), fall, inLoop)
			t.kinds = saved
			saved = t.saveKinds()
			el := t.block(append(append([]ast.Stmt{}, els...), rest...), fall, inLoop)
			t.kinds = saved
			return prefix + "(if " + c + " then " + th + "\n    else " + el + ")" + closing
		}
	}
	return t.fail(x, "if with an exit on some paths only, and declarations")
}

// headPattern: `e := xs[0]; xs = xs[1:]` → a match on the list; allowed where the list is known to be
// non-empty in Go: the enclosing loop condition has the conjunct len(xs) > 0, or (guarded = true) the
// statement in front was `if len(xs) == 0 { break }`
func (t *tr2) headPattern(x *ast.AssignStmt, rest []ast.Stmt, fall string, inLoop bool, guarded bool) (string, bool) {
	if len(rest) == 0 || x.Tok != token.DEFINE || len(x.Lhs) != 1 || len(x.Rhs) != 1 {
		return "", false
	}
	ix, ok := x.Rhs[0].(*ast.IndexExpr)
	if !ok || src(t.fset, ix.Index) != "0" {
		return "", false
	}
	xs, ok := ix.X.(*ast.Ident)
	if !ok || (t.kinds[xs.Name] != "ents" && t.kinds[xs.Name] != "cids") {
		return "", false
	}
	nx, ok := rest[0].(*ast.AssignStmt)
	if !ok || nx.Tok != token.ASSIGN || src(t.fset, nx) != xs.Name+" = "+xs.Name+"[1:]" {
		return "", false
	}
	if !inLoop || t.brk == "" || !(guarded || strings.Contains(strings.Join(t.guards, "|"), "len("+xs.Name+") > 0")) {
		return t.fail(x, "head of a slice that is not known to be non-empty"), true
	}
	e := x.Lhs[0].(*ast.Ident).Name
	t.kinds[e] = map[string]string{"ents": "entry", "cids": "hash"}[t.kinds[xs.Name]]
	return "(match " + leanName(xs.Name) + " with\n    | [] => " + t.brk + "\n    | " + leanName(e) + " :: " + leanName(xs.Name) + " =>\n    " + t.block(rest[1:], fall, inLoop) + ")", true
}

// switchToIf: `switch { case a: A; case b: B; default: D }` as `if a { A } else if b { B } else { D }`
// (nil when the switch has a tag, an initialiser, a fallthrough, or nothing but a default)
func switchToIf(x *ast.SwitchStmt) ast.Stmt {
	if x.Tag != nil || x.Init != nil {
		return nil
	}
	var cases []*ast.CaseClause
	var def *ast.CaseClause
	for _, c := range x.Body.List {
		cc := c.(*ast.CaseClause)
		for _, st := range cc.Body {
			if br, ok := st.(*ast.BranchStmt); ok && br.Tok == token.FALLTHROUGH {
				return nil
			}
		}
		if cc.List == nil {
			def = cc
			continue
		}
		cases = append(cases, cc)
	}
	if len(cases) == 0 {
		return nil
	}
	var tail ast.Stmt
	if def != nil {
		tail = &ast.BlockStmt{List: def.Body}
	}
	for i := len(cases) - 1; i >= 0; i-- {
		cond := cases[i].List[0]
		for _, c := range cases[i].List[1:] {
			cond = &ast.BinaryExpr{X: cond, Op: token.LOR, Y: c}
		}
		tail = &ast.IfStmt{Cond: cond, Body: &ast.BlockStmt{List: cases[i].Body}, Else: tail}
	}
	return tail
}

// liveVars: the locals in scope (not parameters, not receiver fields), in declaration order
func (t *tr2) liveVars() []string {
	isParam := map[string]bool{}
	for _, p := range t.pnames {
		isParam[p] = true
	}
	var vs []string
	for v, k := range t.kinds {
		if strings.Contains(v, ".") || isParam[leanName(v)] || leanTypeOfKind[k] == "" || k == "log" || k == "iteropts" || k == "appendopts" || k == "fetchopts" || k == "identity" || k == "logopts" || k == "manifest" || k == "snapdata" || k == "sortfn" || k == "ctx" || k == "key" {
			continue
		}
		vs = append(vs, v)
	}
	sort.Strings(vs)
	return t.ordered(vs)
}

func (t *tr2) saveKinds() map[string]string {
	m := map[string]string{}
	for k, v := range t.kinds {
		m[k] = v
	}
	return m
}

func (t *tr2) loop(list string, elemName, elemKind string, body []ast.Stmt, rest []ast.Stmt, fall string, inLoop bool) string {
	if hasReturn(body) && !t.partial && !inLoop && len(assignedOuter(body)) == 0 {
		// a search loop of a total function: every statement of the body is `if c { return e }` and nothing is
		// assigned — the first hit is the result, otherwise the function goes on
		var arms []string
		saved := t.saveKinds()
		t.kinds[elemName] = elemKind
		okShape := true
		for _, st := range body {
			ifs, ok := st.(*ast.IfStmt)
			if !ok || ifs.Init != nil || ifs.Else != nil || len(ifs.Body.List) != 1 {
				okShape = false
				break
			}
			ret, ok := ifs.Body.List[0].(*ast.ReturnStmt)
			if !ok || len(ret.Results) != 1 {
				okShape = false
				break
			}
			c, kc := t.expr(ifs.Cond)
			v, _ := t.expr(ret.Results[0])
			if kc != "bool" {
				okShape = false
				break
			}
			arms = append(arms, "(if "+c+" then some "+v+" else none)")
		}
		t.kinds = saved
		if okShape && len(arms) > 0 {
			// (Option.or / Option.getD rather than `match`: lemmas about the shape can then be stated once)
			step := "hit__"
			for _, a := range arms {
				step = "(" + step + ".or " + a + ")"
			}
			return "(((" + list + ").foldl (fun hit__ " + leanName(elemName) + " => " + step + ") none).getD " + t.block(rest, fall, inLoop) + ")"
		}
	}
	if hasReturn(body) {
		// a loop that may leave the function with an error: a fold in the Option monad (`none` = the error)
		if !t.partial {
			return t.fail(&ast.BlockStmt{List: body}, "return inside a loop")
		}
		vars := t.ordered(assignedOuter(body))
		tup := "()"
		if len(vars) > 0 {
			tup = tupleOf(vars)
		}
		saved := t.saveKinds()
		t.kinds[elemName] = elemKind
		t.monadic++
		b := t.block(body, "(some "+tup+")", true)
		t.monadic--
		t.kinds = saved
		return "(match (" + list + ").foldlM (fun " + tup + " " + leanName(elemName) + " => " + b + ") " + tup + " with | none => none | some " + tup + " => " + t.block(rest, fall, inLoop) + ")"
	}
	vars := t.ordered(assignedOuter(body))
	if len(vars) == 0 {
		return t.block(rest, fall, inLoop)
	}
	tup := tupleOf(vars)
	if hasBreak(body) {
		// `break` in a range loop: the fold carries a flag; once it is set the remaining iterations do nothing
		btup := "(" + strings.TrimSuffix(strings.TrimPrefix(tupleOf(append([]string{"brk__"}, vars...)), "("), ")") + ")"
		saved := t.saveKinds()
		t.kinds[elemName] = elemKind
		oldBrk := t.brk
		t.brk = strings.Replace(btup, "(brk__,", "(true,", 1)
		b := t.block(body, btup, true)
		t.brk = oldBrk
		t.kinds = saved
		return "(let " + btup + " := (" + list + ").foldl (fun " + btup + " " + leanName(elemName) + " => (if brk__ then " + btup + " else " + b + ")) " + strings.Replace(btup, "(brk__,", "(false,", 1) + "; " + t.block(rest, fall, inLoop) + ")"
	}
	saved := t.saveKinds()
	t.kinds[elemName] = elemKind
	b := t.block(body, tup, true)
	t.kinds = saved
	return "(let " + tup + " := (" + list + ").foldl (fun " + tup + " " + leanName(elemName) + " =>\n    " + b + ") " + tup + ";\n    " + t.block(rest, fall, inLoop) + ")"
}

// captures: a name declared at the top of `branch` is used in `rest` (appending rest to the branch would then
// make the declaration visible to it)
func captures(branch, rest []ast.Stmt) bool {
	declared := map[string]bool{}
	for _, s := range branch {
		switch x := s.(type) {
		case *ast.AssignStmt:
			if x.Tok == token.DEFINE {
				for _, l := range x.Lhs {
					if id, ok := l.(*ast.Ident); ok {
						declared[id.Name] = true
					}
				}
			}
		case *ast.DeclStmt:
			if gd, ok := x.Decl.(*ast.GenDecl); ok {
				for _, sp := range gd.Specs {
					if vs, ok := sp.(*ast.ValueSpec); ok {
						for _, n := range vs.Names {
							declared[n.Name] = true
						}
					}
				}
			}
		}
	}
	hit := false
	var walk func(n ast.Node)
	walk = func(root ast.Node) {
		ast.Inspect(root, func(n ast.Node) bool {
			if sel, ok := n.(*ast.SelectorExpr); ok {
				walk(sel.X) // not the field name
				return false
			}
			if id, ok := n.(*ast.Ident); ok && declared[id.Name] {
				hit = true
			}
			return true
		})
	}
	for _, s := range rest {
		walk(s)
	}
	return hit
}

func declaresAny(stmts []ast.Stmt) bool {
	for _, s := range stmts {
		switch x := s.(type) {
		case *ast.AssignStmt:
			if x.Tok == token.DEFINE {
				return true
			}
		case *ast.DeclStmt:
			return true
		}
	}
	return false
}

// hasBreak: a `break` that belongs to this loop body (not to a nested loop)
func hasBreak(stmts []ast.Stmt) bool {
	found := false
	for _, s := range stmts {
		ast.Inspect(s, func(n ast.Node) bool {
			switch x := n.(type) {
			case *ast.ForStmt, *ast.RangeStmt, *ast.FuncLit, *ast.SwitchStmt:
				return false
			case *ast.BranchStmt:
				if x.Tok == token.BREAK {
					found = true
				}
			}
			return true
		})
	}
	return found
}

func hasReturn(stmts []ast.Stmt) bool {
	found := false
	for _, s := range stmts {
		ast.Inspect(s, func(n ast.Node) bool {
			if _, ok := n.(*ast.FuncLit); ok {
				return false
			}
			if _, ok := n.(*ast.ReturnStmt); ok {
				found = true
			}
			return true
		})
	}
	return found
}

// nilMarking: `for idx, e := range xs { if c1 { xs[idx] = nil }; if c2 { xs[idx] = nil } … }` where xs is afterwards only
// handed to entry.NewOrderedMapFromEntries (which skips nil entries)  →  xs := xs.filter (fun e => !c1 && !c2 …)
func (t *tr2) nilMarking(x *ast.RangeStmt, rest []ast.Stmt, fall string, inLoop bool) (string, bool) {
	ki, ok1 := x.Key.(*ast.Ident)
	ve, ok2 := x.Value.(*ast.Ident)
	xs, ok3 := x.X.(*ast.Ident)
	if !ok1 || !ok2 || !ok3 || ki.Name == "_" || x.Tok != token.DEFINE || t.kinds[xs.Name] != "ents" || len(x.Body.List) == 0 {
		return "", false
	}
	var conds []string
	saved := t.saveKinds()
	t.kinds[ve.Name] = "entry"
	for _, st := range x.Body.List {
		ifs, ok := st.(*ast.IfStmt)
		if !ok || ifs.Else != nil || len(ifs.Body.List) != 1 || src(t.fset, ifs.Body.List[0]) != xs.Name+"["+ki.Name+"] = nil" {
			t.kinds = saved
			return "", false
		}
		// the condition, possibly with an initialiser `_, ok := m[k]` / `_, ok := m.Get(k)`
		pre := ""
		if ifs.Init != nil {
			as, ok := ifs.Init.(*ast.AssignStmt)
			if !ok {
				t.kinds = saved
				return t.fail(ifs, "nil-marking loop: initialiser"), true
			}
			marker := "@@COND@@"
			y := &ast.ExprStmt{X: &ast.Ident{Name: marker}}
			_ = y
			// translate the initialiser in front of a placeholder and cut the placeholder out again
			w := t.assign(as, nil, "@@HOLE@@", true)
			if !strings.Contains(w, "@@HOLE@@") {
				t.kinds = saved
				return t.fail(ifs, "nil-marking loop: initialiser"), true
			}
			pre = w
		}
		c, kc := t.expr(ifs.Cond)
		if kc != "bool" {
			t.kinds = saved
			return t.fail(ifs.Cond, "nil-marking loop: condition"), true
		}
		if pre != "" {
			c = strings.Replace(pre, "@@HOLE@@", c, 1)
		}
		conds = append(conds, "(!"+c+")")
	}
	t.kinds = saved
	// afterwards xs may only feed NewOrderedMapFromEntries
	okUse := true
	for _, st := range rest {
		ast.Inspect(st, func(n ast.Node) bool {
			if c, ok := n.(*ast.CallExpr); ok && selChain(c.Fun) == "entry.NewOrderedMapFromEntries" && len(c.Args) == 1 && src(t.fset, c.Args[0]) == xs.Name {
				return false
			}
			if id, ok := n.(*ast.Ident); ok && id.Name == xs.Name {
				okUse = false
			}
			return true
		})
	}
	if !okUse {
		return t.fail(x, "nil-marked slice used other than through NewOrderedMapFromEntries"), true
	}
	return "(let " + leanName(xs.Name) + " := (" + leanName(xs.Name) + ").filter (fun " + leanName(ve.Name) + " => " + strings.Join(conds, " && ") + "); " + t.block(rest, fall, inLoop) + ")", true
}

func (t *tr2) rangeStmt(x *ast.RangeStmt, rest []ast.Stmt, fall string, inLoop bool) string {
	if r, ok := t.nilMarking(x, rest, fall, inLoop); ok {
		return r
	}
	// for i := range xs { output <- xs[i] }
	if ki, ok := x.Key.(*ast.Ident); ok && x.Value == nil && x.Tok == token.DEFINE && len(x.Body.List) == 1 && t.emitter != "" {
		if snd, ok := x.Body.List[0].(*ast.SendStmt); ok && src(t.fset, snd.Chan) == t.emitter && src(t.fset, snd.Value) == src(t.fset, x.X)+"["+ki.Name+"]" {
			xs, kx := t.expr(x.X)
			if kx == "ents" {
				return "(let " + leanName(t.emitter) + " := (" + leanName(t.emitter) + " ++ " + xs + "); " + t.block(rest, fall, inLoop) + ")"
			}
		}
	}
	if _, ok := x.Key.(*ast.Ident); !ok || x.Tok != token.DEFINE {
		// (an index variable stays unknown to the translation: any translated use of it fails)
		return t.fail(x, "range with an index")
	}
	v, ok := x.Value.(*ast.Ident)
	if !ok {
		return t.fail(x, "range value")
	}
	// for _, k := range m.Keys()
	if c, ok := x.X.(*ast.CallExpr); ok && len(c.Args) == 0 {
		if sel, ok := c.Fun.(*ast.SelectorExpr); ok && sel.Sel.Name == "Keys" {
			m, km := t.expr(sel.X)
			if km == "omap" {
				return t.loop(m, v.Name, "key", x.Body.List, rest, fall, inLoop)
			}
		}
	}
	xs, kx := t.expr(x.X)
	switch kx {
	case "ents":
		return t.loop(xs, v.Name, "entry", x.Body.List, rest, fall, inLoop)
	case "cids":
		return t.loop(xs, v.Name, "hash", x.Body.List, rest, fall, inLoop)
	}
	return t.fail(x, "range over something that is not a slice (map iteration order is not modelled)")
}

// for i := len(xs) - 1; i >= 0; i-- { … xs[i] … }
func (t *tr2) forStmt(x *ast.ForStmt, rest []ast.Stmt, fall string, inLoop bool) string {
	if x.Init == nil && x.Post == nil {
		return t.whileStmt(x, rest, fall, inLoop)
	}
	init, ok := x.Init.(*ast.AssignStmt)
	post, ok2 := x.Post.(*ast.IncDecStmt)
	if pa, isAssign := x.Post.(*ast.AssignStmt); ok && isAssign && init.Tok == token.DEFINE && len(init.Lhs) == 1 && x.Cond != nil && len(pa.Lhs) == 1 &&
		src(t.fset, pa.Lhs[0]) == src(t.fset, init.Lhs[0]) {
		// for i := a; cond; i op= b { body }: the initialisation, then a `for cond` loop whose every iteration
		// (also one cut short by `continue`) ends with the post statement
		t.postStmt = pa
		w := &ast.ForStmt{Cond: x.Cond, Body: x.Body, For: x.For}
		out := t.assign(init, append([]ast.Stmt{w}, rest...), fall, inLoop)
		t.postStmt = nil
		return out
	}
	if !ok || !ok2 || init.Tok != token.DEFINE || len(init.Lhs) != 1 || x.Cond == nil {
		return t.fail(x, "for loop")
	}
	i := src(t.fset, init.Lhs[0])
	rhs := src(t.fset, init.Rhs[0])
	if !strings.HasPrefix(rhs, "len(") || !strings.HasSuffix(rhs, ") - 1") || src(t.fset, x.Cond) != i+" >= 0" ||
		post.Tok != token.DEC || src(t.fset, post.X) != i {
		return t.fail(x, "for loop that is not a backward index scan")
	}
	xsName := strings.TrimSuffix(strings.TrimPrefix(rhs, "len("), ") - 1")
	if t.kinds[xsName] != "ents" {
		return t.fail(x, "backward scan of something that is not an entry slice")
	}
	// the index may only occur as xs[i], and xs is not assigned in the body
	uses, indexed := 0, 0
	ast.Inspect(x.Body, func(n ast.Node) bool {
		switch y := n.(type) {
		case *ast.Ident:
			if y.Name == i {
				uses++
			}
		case *ast.IndexExpr:
			if src(t.fset, y) == xsName+"["+i+"]" {
				indexed++
			}
		}
		return true
	})
	for _, a := range assignedOuter(x.Body.List) {
		if a == xsName || a == i {
			return t.fail(x, "the scanned slice or the index is assigned in the loop")
		}
	}
	if uses != indexed {
		return t.fail(x, "the index is used other than as "+xsName+"["+i+"]")
	}
	old := t.subst
	t.subst = map[string]string{}
	for k, v := range old {
		t.subst[k] = v
	}
	elem := xsName + "_i"
	t.subst[xsName+"["+i+"]"] = leanName(elem)
	out := t.loop(leanName(xsName)+".reverse", elem, "entry", x.Body.List, rest, fall, inLoop)
	t.subst = old
	return out
}

// for cond { … }  →  an auxiliary definition by recursion on fuel over the variables the body assigns:
//
//	def f_loopN params : Nat → T → T | 0, st => st | fuel+1, vars => if cond then body else vars
//
// `continue` and the end of the body call it again with the remaining fuel, `break` returns the variables.
// (Not inside another loop.  The function gets a `fuel` parameter: what it computes when the fuel is
// exhausted is the state reached so far — the theorems about it quantify over the fuel.)
func (t *tr2) whileStmt(x *ast.ForStmt, rest []ast.Stmt, fall string, inLoop bool) string {
	if inLoop {
		return t.fail(x, "for-cond loop inside a loop")
	}
	if hasReturn(x.Body.List) {
		return t.fail(x, "return inside a loop")
	}
	post := t.postStmt
	t.postStmt = nil
	bodyForVars := x.Body.List
	if post != nil {
		bodyForVars = append(append([]ast.Stmt{}, x.Body.List...), post)
	}
	vars := t.ordered(assignedOuter(bodyForVars))
	if len(vars) == 0 {
		return t.fail(x, "for-cond loop that assigns nothing")
	}
	tup := tupleOf(vars)
	var tys []string
	for _, v := range vars {
		ty := leanTypeOfKind[t.kinds[v]]
		if ty == "" {
			return t.fail(x, "loop variable of unknown kind: "+v)
		}
		tys = append(tys, ty)
	}
	tupTy := strings.Join(tys, " × ")
	name := fmt.Sprintf("%s_loop%d", t.fn, len(t.loops)+1)
	call := "(" + name + " " + strings.Join(t.pnames, " ") + " fuel " + tup + ")"
	if post != nil {
		// the post statement runs before the next test
		saved0 := t.saveKinds()
		call = t.assign(post, nil, call, true)
		t.kinds = saved0
	}
	saved := t.saveKinds()
	c, kc, guard := "true", "bool", ""
	if x.Cond != nil {
		c, kc = t.expr(x.Cond)
		guard = src(t.fset, x.Cond)
	}
	if kc != "bool" {
		return t.fail(x.Cond, "loop condition")
	}
	oldBrk := t.brk
	t.brk = tup
	t.guards = append(t.guards, guard)
	body := t.block(x.Body.List, call, true)
	t.guards = t.guards[:len(t.guards)-1]
	t.brk = oldBrk
	t.kinds = saved
	t.usesFuel = true
	t.loops = append(t.loops, fmt.Sprintf("def %s %s : Nat → %s → %s\n  | 0, st => st\n  | fuel + 1, %s =>\n    if %s then\n    %s\n    else %s\n",
		name, strings.Join(t.params, " "), tupTy, tupTy, tup, c, body, tup))
	return "(let " + tup + " := (" + name + " " + strings.Join(t.pnames, " ") + " fuel " + tup + ");\n    " + t.block(rest, fall, inLoop) + ")"
}

// uniquify the names an `if` initialiser declares (they may shadow: `if _, ok := m[k]; ok` after an
// earlier `ok`), so that a shadowing `let` cannot capture a later use of the outer variable
func uniquifyIfInits(fd *ast.FuncDecl) {
	n := 0
	ast.Inspect(fd.Body, func(node ast.Node) bool {
		ifs, ok := node.(*ast.IfStmt)
		if !ok || ifs.Init == nil {
			return true
		}
		as, ok := ifs.Init.(*ast.AssignStmt)
		if !ok || as.Tok != token.DEFINE {
			return true
		}
		for _, l := range as.Lhs {
			id, ok := l.(*ast.Ident)
			if !ok || id.Name == "_" {
				continue
			}
			n++
			old, fresh := id.Name, fmt.Sprintf("%s%d", id.Name, n)
			var rename func(root ast.Node)
			rename = func(root ast.Node) {
				if root == nil {
					return
				}
				ast.Inspect(root, func(m ast.Node) bool {
					if sel, ok := m.(*ast.SelectorExpr); ok {
						rename(sel.X) // not the field name
						return false
					}
					if i, ok := m.(*ast.Ident); ok && i.Name == old {
						i.Name = fresh
					}
					return true
				})
			}
			id.Name = fresh
			rename(ifs.Cond)
			rename(ifs.Body)
			if ifs.Else != nil {
				rename(ifs.Else)
			}
		}
		return true
	})
}

// ---- functions ---------------------------------------------------------------------------------

func usesSlicing(fd *ast.FuncDecl) bool {
	found := false
	ast.Inspect(fd.Body, func(n ast.Node) bool {
		if _, ok := n.(*ast.SliceExpr); ok {
			found = true
		}
		return true
	})
	return found
}

func (t *tr2) funcDecl(fd *ast.FuncDecl, name string) string {
	t.prepare(fd)
	t.kinds = map[string]string{}
	t.subst = map[string]string{}
	t.loops = nil
	t.usesFuel = false
	t.fn = name
	t.brk = ""
	t.recv = ""
	t.partial = usesSlicing(fd) || (fd.Type.Results != nil && len(fd.Type.Results.List) == 2)
	if t.views {
		// a traversal whose error is ignored, or a call of the (partial) `values`
		ast.Inspect(fd.Body, func(n ast.Node) bool {
			switch x := n.(type) {
			case *ast.AssignStmt:
				if len(x.Lhs) == 2 && len(x.Rhs) == 1 && src(t.fset, x.Lhs[1]) == "_" {
					if c, ok := x.Rhs[0].(*ast.CallExpr); ok && strings.HasSuffix(selChain(c.Fun), ".traverse") {
						t.partial = true
					}
				}
			case *ast.CallExpr:
				if strings.HasSuffix(selChain(x.Fun), ".values") {
					t.partial = true
				}
			}
			return true
		})
	}
	var ps, names []string
	t.noResult = ""
	t.emitter = ""
	t.aliases = nil
	t.monadic = 0
	t.joinN = 0
	t.retType = ""
	t.hasFuel = needsFuel(fd)
	if fd.Recv != nil && len(fd.Recv.List) == 1 && len(fd.Recv.List[0].Names) == 1 && typeString(fd.Recv.List[0].Type) == "*Fetcher" {
		// a method of the fetcher: its integer fields are parameters (and results, when assigned); its queue
		// operations go through the parameter `add` (insertion into the unordered queue of the model)
		t.recv = fd.Recv.List[0].Names[0].Name
		ps = append(ps, "{Q : Type}", "(add : Q → Hash → Q)")
		for _, fld := range []string{"length", "maxClock", "minClock"} {
			t.kinds[t.recv+"."+fld] = "int"
			ps = append(ps, "("+leanName(t.recv+"."+fld)+" : Int)")
			names = append(names, leanName(t.recv+"."+fld))
		}
		names = append([]string{"add"}, names...)
	} else if fd.Recv != nil && len(fd.Recv.List) == 1 && len(fd.Recv.List[0].Names) == 1 {
		// a method of the log: the fields it reads are parameters — `Entries` (the entry map) and the
		// descending less-function sorting.Sort builds from `SortFn`
		t.recv = fd.Recv.List[0].Names[0].Name
		ps = append(ps, "(lEntries : List Entry)", "(sortDesc : Entry → Entry → Bool)")
		names = append(names, "lEntries", "sortDesc")
		usesHeads := false
		ast.Inspect(fd.Body, func(n ast.Node) bool {
			if sel, ok := n.(*ast.SelectorExpr); ok && src(t.fset, sel) == t.recv+".heads" {
				usesHeads = true
			}
			return true
		})
		if usesHeads {
			t.kinds[t.recv+".heads"] = "omap"
			ps = append(ps, "(lHeads : List Entry)")
			names = append(names, "lHeads")
		}
	}
	// entry parameters that the body compares with nil are optional
	optional := map[string]bool{}
	ast.Inspect(fd.Body, func(n ast.Node) bool {
		if be, ok := n.(*ast.BinaryExpr); ok && (be.Op == token.EQL || be.Op == token.NEQ) && isNil(be.Y) {
			if id, ok := be.X.(*ast.Ident); ok {
				optional[id.Name] = true
			}
		}
		return true
	})
	for _, f := range fd.Type.Params.List {
		k := kindOfType(f.Type)
		if k == "ctx" {
			continue
		}
		if k == "" {
			ps = append(ps, "(_ : "+t.fail(f.Type, "parameter type")+")")
			continue
		}
		for _, n := range f.Names {
			if k == "entry" && optional[n.Name] {
				t.kinds[n.Name] = "optentry"
				ps = append(ps, "("+leanName(n.Name)+" : Option Entry)")
				names = append(names, leanName(n.Name))
				continue
			}
			t.kinds[n.Name] = k
			if k == "iteropts" {
				ps = append(ps, "(optAmount : Option Int)", "(optLTE : Option (List Hash))", "(optLT : Option (List Hash))", "(optGTE : Option Hash)", "(optGT : Option Hash)")
				names = append(names, "optAmount", "optLTE", "optLT", "optGTE", "optGT")
				continue
			}
			if k == "chan" {
				// an output channel is the list of what was sent; the function starts with nothing sent
				t.emitter = n.Name
				continue
			}
			if k == "log" {
				// another log: the fields that are read are parameters (its entry map and its id)
				ps = append(ps, "("+leanName(n.Name)+"Entries : List Entry)", "("+leanName(n.Name)+"ID : Bytes)")
				names = append(names, leanName(n.Name)+"Entries", leanName(n.Name)+"ID")
				continue
			}
			ps = append(ps, "("+leanName(n.Name)+" : "+leanTypeOfKind[k]+")")
			names = append(names, leanName(n.Name))
		}
	}
	t.params, t.pnames = ps, names
	ret := ""
	if fd.Type.Results != nil && len(fd.Type.Results.List) >= 1 {
		ret = leanTypeOfKind[kindOfType(fd.Type.Results.List[0].Type)]
		if t.views {
			switch typeString(fd.Type.Results.List[0].Type) {
			case "*iface.JSONLog":
				ret = "List Hash"
			case "*Snapshot":
				ret = "List Hash × List Entry"
			}
		}
	}
	if fd.Type.Results == nil || len(fd.Type.Results.List) == 0 {
		// no result: the function is what it does to the variables it assigns
		vars := t.ordered(assignedOuter(fd.Body.List))
		var tys []string
		for _, v := range vars {
			tys = append(tys, leanTypeOfKind[t.kinds[v]])
		}
		if len(vars) > 0 {
			t.noResult = tupleOf(vars)
			ret = strings.Join(tys, " × ")
		}
	}
	if t.emitter != "" {
		if fd.Type.Results == nil || len(fd.Type.Results.List) != 1 || typeString(fd.Type.Results.List[0].Type) != "error" {
			ret = t.fail(fd.Type, "an emitter must return exactly an error")
		} else {
			ret = "List Entry"
			t.partial = true
			t.noResult = ""
			t.kinds[t.emitter] = "chan"
		}
	}
	if ret == "" {
		ret = t.fail(fd.Type, "result type")
	}
	if t.partial {
		ret = "Option (" + ret + ")"
	}
	// one line per definition: Lean's layout rule (a continuation line must start to the right of the
	// enclosing `let`) would otherwise reject nested multi-line values
	t.retType = ret
	body := strings.Join(strings.Fields(t.block(fd.Body.List, t.noResult, false)), " ")
	if t.emitter != "" {
		body = "(let " + leanName(t.emitter) + " := ([] : List Entry); " + body + ")"
	}
	for i, l := range t.loops {
		parts := strings.SplitN(l, "  | fuel + 1, ", 2)
		if len(parts) == 2 {
			hd := strings.SplitN(parts[1], " =>\n", 2)
			t.loops[i] = parts[0] + "  | fuel + 1, " + hd[0] + " =>\n    " + strings.Join(strings.Fields(hd[1]), " ") + "\n"
		}
	}
	fuel := ""
	if t.hasFuel {
		fuel = "(fuel : Nat) "
	}
	return strings.Join(t.loops, "\n") + fmt.Sprintf("def %s %s%s : %s :=\n  %s\n", name, fuel, strings.Join(ps, " "), ret, body)
}

// needsFuel: the function has a `for cond` loop or calls the (fuel-taking) traversal
func needsFuel(fd *ast.FuncDecl) bool {
	found := false
	ast.Inspect(fd.Body, func(n ast.Node) bool {
		switch x := n.(type) {
		case *ast.ForStmt:
			if x.Init == nil && x.Post == nil {
				found = true
			}
			if _, ok := x.Post.(*ast.AssignStmt); ok {
				found = true
			}
		case *ast.CallExpr:
			if strings.HasSuffix(selChain(x.Fun), ".traverse") || (viewsMode && strings.HasSuffix(selChain(x.Fun), ".values")) {
				found = true
			}
		}
		return true
	})
	return found
}

// viewsMode: the group of view functions is being translated (l.values() is the translated definition)
var viewsMode bool

func (t *tr2) prepare(fd *ast.FuncDecl) {
	uniquifyIfInits(fd)
	t.declPos = map[string]token.Pos{}
	note := func(id *ast.Ident) {
		if _, ok := t.declPos[id.Name]; !ok && id.Name != "_" {
			t.declPos[id.Name] = id.Pos()
		}
	}
	for _, f := range fd.Type.Params.List {
		for _, n := range f.Names {
			note(n)
		}
	}
	ast.Inspect(fd.Body, func(n ast.Node) bool {
		switch x := n.(type) {
		case *ast.AssignStmt:
			if x.Tok == token.DEFINE {
				for _, l := range x.Lhs {
					if id, ok := l.(*ast.Ident); ok {
						note(id)
					}
				}
			}
		case *ast.ValueSpec:
			for _, id := range x.Names {
				note(id)
			}
		case *ast.RangeStmt:
			if id, ok := x.Value.(*ast.Ident); ok {
				note(id)
			}
		}
		return true
	})
}

// regionDecl translates the tail of IPFSLog.Join: the statements after the hook "join.publish" up to the final
// return — what a merge does to the log once its candidates are admitted.  The fields of the log it reads
// and writes are parameters and results: Entries and heads (ordered maps), Next (only its key set is ever
// read), the clock (id and time); `l.values()` is the parameter valuesOf applied to the current entries and heads.
func (t *tr2) regionDecl(fd *ast.FuncDecl, name string, marker string) string {
	t.prepare(fd)
	t.kinds = map[string]string{}
	t.subst = map[string]string{}
	t.loops = nil
	t.usesFuel = false
	t.fn = name
	t.brk = ""
	t.noResult = ""
	t.partial = true
	if fd.Recv == nil || len(fd.Recv.List) != 1 || len(fd.Recv.List[0].Names) != 1 {
		return t.fail(fd, "region of a function without receiver")
	}
	t.recv = fd.Recv.List[0].Names[0].Name
	start := -1
	for i, st := range fd.Body.List {
		if es, ok := st.(*ast.ExprStmt); ok && strings.Contains(src(t.fset, es), marker) {
			start = i + 1
		}
	}
	n := len(fd.Body.List)
	if start < 0 || n == 0 {
		return t.fail(fd, "region marker not found")
	}
	r := t.recv
	type fld struct{ key, kind string }
	var fields []fld
	type loc struct{ name, kind string }
	var locals []loc
	end := n - 1
	var outputs []string
	ps := []string{}
	names := []string{}
	switch marker {
	case "join.publish":
		// the tail of Join: up to the final return; results = the fields it assigns
		if _, ok := fd.Body.List[n-1].(*ast.ReturnStmt); !ok {
			return t.fail(fd, "region does not end in the function's return")
		}
		fields = []fld{{r + ".Entries", "omap"}, {r + ".Next", "set"}, {r + ".heads", "omap"}, {r + ".ClockID", "bytes"}, {r + ".ClockTime", "int"}}
		locals = []loc{{"newItems", "omap"}, {"otherHeads", "omap"}, {"size", "int"}}
		ps = append(ps, "(valuesOf : List Entry → List Entry → List Entry)")
		names = append(names, "valuesOf")
	case "append.publish":
		// the tail of Append: what a successful append does to the log once the entry is created and authorised
		if _, ok := fd.Body.List[n-1].(*ast.ReturnStmt); !ok {
			return t.fail(fd, "region does not end in the function's return")
		}
		if rs := fd.Body.List[n-1].(*ast.ReturnStmt); len(rs.Results) != 2 || src(t.fset, rs.Results[0]) != "e" || !isNil(rs.Results[1]) {
			return t.fail(fd, "the tail of Append must return the created entry")
		}
		fields = []fld{{r + ".Entries", "omap"}, {r + ".Next", "set"}, {r + ".heads", "omap"}}
		locals = []loc{{"e", "entry"}, {"next", "cids"}}
	case "append.locked":
		// the plan of Append: from the lock to the creation of the entry; results = predecessors, references, clock
		end = -1
		for i := start; i < n; i++ {
			if strings.Contains(src(t.fset, fd.Body.List[i]), "CreateEntryWithIO") {
				end = i
				break
			}
		}
		if end < 0 {
			return t.fail(fd, "end of the region (CreateEntryWithIO) not found")
		}
		fields = []fld{{r + ".heads", "omap"}, {r + ".ClockID", "bytes"}, {r + ".ClockTime", "int"}}
		locals = []loc{{"opts", "appendopts"}}
		outputs = []string{"next", "refs", r + ".ClockID", r + ".ClockTime"}
		ps = append(ps, "(fuel : Nat)", "(lEntries : List Entry)", "(sortDesc : Entry → Entry → Bool)")
		names = append(names, "fuel", "lEntries", "sortDesc")
	default:
		return t.fail(fd, "unknown region")
	}
	region := t.dropBookkeeping(fd.Body.List[start:end])
	for _, f := range fields {
		t.kinds[f.key] = f.kind
		ps = append(ps, "("+leanName(f.key)+" : "+leanTypeOfKind[f.kind]+")")
		names = append(names, leanName(f.key))
	}
	for _, l := range locals {
		t.kinds[l.name] = l.kind
		if l.kind == "appendopts" {
			ps = append(ps, "(optsPointerCount : Int)")
			names = append(names, "optsPointerCount")
			continue
		}
		ps = append(ps, "("+leanName(l.name)+" : "+leanTypeOfKind[l.kind]+")")
		names = append(names, leanName(l.name))
	}
	t.params, t.pnames = ps, names
	var vars []string
	if outputs != nil {
		vars = outputs
	} else {
		for _, v := range t.ordered(assignedOuter(region)) {
			if strings.HasPrefix(v, r+".") {
				vars = append(vars, v)
			}
		}
	}
	// the kinds of output locals are known only after the translation: fixed for the Append plan
	outKinds := map[string]string{"next": "cids", "refs": "cids"}
	var tys []string
	for _, v := range vars {
		k := t.kinds[v]
		if k == "" {
			k = outKinds[v]
		}
		tys = append(tys, leanTypeOfKind[k])
	}
	tup := tupleOf(vars)
	t.joinN = 0
	t.hasFuel = false
	t.emitter = ""
	t.monadic = 0
	t.retType = "Option (" + strings.Join(tys, " × ") + ")"
	if marker == "append.locked" {
		// fuel is already among the parameters (passed on to traverse and getEveryPow2)
		t.hasFuel = false
	}
	body := strings.Join(strings.Fields(t.block(region, "(some "+tup+")", false)), " ")
	return strings.Join(t.loops, "\n") + fmt.Sprintf("def %s %s : %s :=\n  %s\n", name, strings.Join(ps, " "), t.retType, body)
}

// dropBookkeeping leaves out of a region the top-level statements that only touch receiver fields outside the
// modelled state (Entries, Next, heads, Clock …): `l.f++`, `l.f = <call-free expression>`, and the Lock/Unlock
// calls of a mutex field other than the log's lock.  No translated expression can read such a field (reading an
// unknown field is untranslatable), so the modelled state does not depend on them; which fields are written under
// which lock is the business of the regenerated effect facts (Props/EffectFacts, Props/C13Facts).
func (t *tr2) dropBookkeeping(stmts []ast.Stmt) []ast.Stmt {
	modelled := map[string]bool{"Entries": true, "Next": true, "heads": true, "Clock": true, "Identity": true, "ID": true,
		"SortFn": true, "Storage": true, "AccessController": true, "io": true, "lock": true, "concurrency": true}
	unmodelled := func(e ast.Expr) bool {
		sel, ok := e.(*ast.SelectorExpr)
		if !ok {
			return false
		}
		id, ok := sel.X.(*ast.Ident)
		return ok && id.Name == t.recv && !modelled[sel.Sel.Name]
	}
	callFree := func(e ast.Expr) bool {
		free := true
		ast.Inspect(e, func(n ast.Node) bool {
			if _, ok := n.(*ast.CallExpr); ok {
				free = false
			}
			return true
		})
		return free
	}
	var out []ast.Stmt
	for _, st := range stmts {
		switch x := st.(type) {
		case *ast.IncDecStmt:
			if unmodelled(x.X) {
				continue
			}
		case *ast.AssignStmt:
			all := len(x.Lhs) > 0
			for _, l := range x.Lhs {
				if !unmodelled(l) {
					all = false
				}
			}
			for _, r := range x.Rhs {
				if !callFree(r) {
					all = false
				}
			}
			if all {
				continue
			}
		case *ast.ExprStmt:
			if c, ok := x.X.(*ast.CallExpr); ok && len(c.Args) == 0 {
				if sel, ok := c.Fun.(*ast.SelectorExpr); ok && unmodelled(sel.X) {
					switch sel.Sel.Name {
					case "Lock", "Unlock", "RLock", "RUnlock":
						continue
					}
				}
			}
		}
		out = append(out, st)
	}
	return out
}

// admissionDecl: the test by which the completion section of Fetcher.processQueue admits a fetched entry to the
// results — `isLater := …` and the condition of the `if` that follows it — as a Boolean function of the fetcher's
// fields, the results so far and the entry's clock time
func (t *tr2) admissionDecl(f *ast.File) string {
	fd := findMethod(f, "processQueue")
	if fd == nil || fd.Body == nil {
		return t.fail(&ast.BlockStmt{}, "processQueue not found")
	}
	t.prepare(fd)
	t.kinds = map[string]string{"f.length": "int", "f.minClock": "int", "f.maxClock": "int", "results": "ents", "ts": "int"}
	t.subst = map[string]string{}
	t.recv = "f"
	t.partial, t.emitter, t.noResult, t.brk, t.monadic = false, "", "", "", 0
	var def string
	ast.Inspect(fd.Body, func(n ast.Node) bool {
		blk, ok := n.(*ast.BlockStmt)
		if !ok || def != "" {
			return true
		}
		for i, st := range blk.List {
			as, ok := st.(*ast.AssignStmt)
			if !ok || as.Tok != token.DEFINE || len(as.Lhs) != 1 || src(t.fset, as.Lhs[0]) != "isLater" || i+1 >= len(blk.List) {
				continue
			}
			ifs, ok := blk.List[i+1].(*ast.IfStmt)
			if !ok || ifs.Init != nil {
				continue
			}
			later, kl := t.expr(as.Rhs[0])
			t.kinds["isLater"] = "bool"
			cond, kc := t.expr(ifs.Cond)
			if kl != "bool" || kc != "bool" {
				def = t.fail(ifs, "admission test")
				return false
			}
			// what the admitted branch does first must be the append to the results
			if len(ifs.Body.List) == 0 || src(t.fset, ifs.Body.List[0]) != "results = append(results, entry)" {
				def = t.fail(ifs, "the admitted branch does not start with the append to the results")
				return false
			}
			def = "def admission (fLength fMinClock fMaxClock : Int) (results : List Entry) (ts : Int) : Bool :=\n  (let isLater := " + later + "; " + cond + ")\n"
			return false
		}
		return true
	})
	if def == "" {
		return t.fail(fd, "admission test (isLater := …; if …) not found in processQueue")
	}
	return def
}

// joinVerifyDecl: the verification of the candidates in Join — the `for _, k := range newItems.Keys() { go func(k
// string) { … }(k) }` loop, wg.Wait() and the error test that follow it — as "all candidates pass every check".
// Each goroutine looks its candidate up and runs a sequence of checks, each of the form
// `if inErr := <check>; inErr != nil { setErr(…); return }`; a check is the access controller's CanAppend on the
// candidate or the candidate's Verify (abstract predicates here: signatures and policies are C06/C07's business).
// The goroutines only ever set one shared error, so their interleaving does not matter: the result is the
// conjunction over the candidates (and the join fails iff it is false).  The nil/undefined test on a value looked
// up under a key of the same map is dead and dropped.
func (t *tr2) joinVerifyDecl(f *ast.File) string {
	fd := findMethod(f, "Join")
	if fd == nil || fd.Body == nil {
		return t.fail(&ast.BlockStmt{}, "Join not found")
	}
	recv := ""
	if fd.Recv != nil && len(fd.Recv.List) == 1 && len(fd.Recv.List[0].Names) == 1 {
		recv = fd.Recv.List[0].Names[0].Name
	}
	for i, st := range fd.Body.List {
		rs, ok := st.(*ast.RangeStmt)
		if !ok || len(rs.Body.List) != 1 {
			continue
		}
		gs, ok := rs.Body.List[0].(*ast.GoStmt)
		if !ok {
			continue
		}
		fl, ok := gs.Call.Fun.(*ast.FuncLit)
		if !ok || src(t.fset, rs.X) != "newItems.Keys()" || rs.Value == nil || len(gs.Call.Args) != 1 || src(t.fset, gs.Call.Args[0]) != src(t.fset, rs.Value) {
			return t.fail(rs, "shape of the verification loop")
		}
		if fl.Type.Params == nil || len(fl.Type.Params.List) != 1 || len(fl.Type.Params.List[0].Names) != 1 {
			return t.fail(fl, "parameters of the verification goroutine")
		}
		kName := fl.Type.Params.List[0].Names[0].Name
		// after the loop: wg.Wait(); if err != nil { return nil, … }
		if i+2 >= len(fd.Body.List) || src(t.fset, fd.Body.List[i+1]) != "wg.Wait()" {
			return t.fail(rs, "wg.Wait() must follow the verification loop")
		}
		ifs, ok := fd.Body.List[i+2].(*ast.IfStmt)
		if !ok || ifs.Init != nil || src(t.fset, ifs.Cond) != "err != nil" || !terminates(ifs.Body.List) {
			return t.fail(fd.Body.List[i+2], "the error test must follow wg.Wait()")
		}
		if r, ok := ifs.Body.List[len(ifs.Body.List)-1].(*ast.ReturnStmt); !ok || len(r.Results) != 2 || !isNil(r.Results[0]) || isNil(r.Results[1]) {
			return t.fail(ifs, "a failed verification must return (nil, error)")
		}
		var checks []string
		eName := ""
		for _, b := range fl.Body.List {
			txt := src(t.fset, b)
			if txt == "defer wg.Done()" {
				continue
			}
			if as, ok := b.(*ast.AssignStmt); ok && as.Tok == token.DEFINE && len(as.Lhs) == 1 && len(as.Rhs) == 1 && eName == "" {
				if src(t.fset, as.Rhs[0]) == "newItems.UnsafeGet("+kName+")" {
					eName = src(t.fset, as.Lhs[0])
					continue
				}
			}
			is, ok := b.(*ast.IfStmt)
			if !ok || eName == "" || is.Else != nil || len(is.Body.List) != 2 {
				return t.fail(b, "statement of the verification goroutine")
			}
			if c, ok := is.Body.List[0].(*ast.ExprStmt); !ok || !strings.HasPrefix(src(t.fset, c), "setErr(") {
				return t.fail(b, "a failing check must record the error")
			}
			if r, ok := is.Body.List[1].(*ast.ReturnStmt); !ok || len(r.Results) != 0 {
				return t.fail(b, "a failing check must end the goroutine")
			}
			if is.Init == nil {
				c := src(t.fset, is.Cond)
				if c == eName+" == nil || !"+eName+".Defined()" || c == eName+" == nil" || c == "!"+eName+".Defined()" {
					continue // dead: the key comes from the same map
				}
				return t.fail(b, "check of the verification goroutine")
			}
			as, ok := is.Init.(*ast.AssignStmt)
			if !ok || len(as.Lhs) != 1 || len(as.Rhs) != 1 || src(t.fset, is.Cond) != src(t.fset, as.Lhs[0])+" != nil" {
				return t.fail(b, "check of the verification goroutine")
			}
			call, ok := as.Rhs[0].(*ast.CallExpr)
			if !ok {
				return t.fail(b, "check of the verification goroutine")
			}
			switch fn := selChain(call.Fun); {
			case fn == recv+".AccessController.CanAppend" && len(call.Args) >= 1 && src(t.fset, call.Args[0]) == eName:
				checks = append(checks, "canAppend e")
			case fn == eName+".Verify":
				checks = append(checks, "verify e")
			default:
				return t.fail(b, "unknown check "+fn)
			}
		}
		if len(checks) == 0 {
			return t.fail(rs, "no check in the verification goroutine")
		}
		return "def joinVerify (canAppend verify : Entry → Bool) (newItems : List Entry) : Bool :=\n  newItems.all (fun e => " + strings.Join(checks, " && ") + ")\n"
	}
	return t.fail(fd, "verification loop of Join not found")
}

// fromEntryDecls: the two pure parts of fromEntry (log_io.go) around the fetch — the fetch length, and what is
// made of the fetched entries (the entries are a parameter)
func (t *tr2) fromEntryDecls(f *ast.File) string {
	fd := findFunc(f, "fromEntry")
	if fd == nil || fd.Body == nil {
		return t.fail(&ast.BlockStmt{}, "fromEntry not found")
	}
	t.prepare(fd)
	iFetch, iLen := -1, -1
	for i, st := range fd.Body.List {
		if strings.Contains(src(t.fset, st), "FetchParallel") {
			iFetch = i
		}
		if as, ok := st.(*ast.AssignStmt); ok && as.Tok == token.DEFINE && len(as.Lhs) == 1 && src(t.fset, as.Lhs[0]) == "length" && iFetch < 0 {
			iLen = i
		}
	}
	n := len(fd.Body.List)
	if iFetch < 0 || iLen < 0 || iLen+1 >= iFetch || n == 0 {
		return t.fail(fd, "shape of fromEntry")
	}
	if as, ok := fd.Body.List[iFetch].(*ast.AssignStmt); !ok || len(as.Lhs) != 1 || src(t.fset, as.Lhs[0]) != "entries" {
		return t.fail(fd.Body.List[iFetch], "the fetch result is not `entries`")
	}
	reset := func(name, ret string) {
		t.kinds = map[string]string{"sourceEntries": "ents", "options": "fetchopts"}
		t.subst = map[string]string{}
		t.loops, t.helperDefs = nil, nil
		t.fn, t.recv, t.brk, t.noResult, t.emitter = name, "", "", "", ""
		t.monadic, t.joinN, t.hasFuel, t.usesFuel = 0, 0, false, false
		t.retType = ret
	}
	// (A) the length
	reset("fromEntryLength", "Int")
	t.partial = false
	t.params = []string{"(optLength : Option Int)", "(sourceEntries : List Entry)"}
	t.pnames = []string{"optLength", "sourceEntries"}
	// the statements between `length := -1` and the fetch that only compute: hash list building is skipped
	var head []ast.Stmt
	for _, st := range fd.Body.List[iLen:iFetch] {
		txt := src(t.fset, st)
		if strings.HasPrefix(txt, "var hashes") || strings.HasPrefix(txt, "for _, e := range sourceEntries { hashes = append") {
			continue // the hashes handed to the fetcher: the fetch is a parameter here
		}
		head = append(head, st)
	}
	a := strings.Join(strings.Fields(t.block(head, "length", false)), " ")
	defA := strings.Join(t.loops, "\n") + "def fromEntryLength (optLength : Option Int) (sourceEntries : List Entry) : Int :=\n  " + a + "\n"
	// (B) the tail
	reset("fromEntryTail", "Option (Bytes × List Entry)")
	t.partial = true
	t.kinds["entries"], t.kinds["length"] = "ents", "int"
	t.params = []string{"(optExclude : List Entry)", "(sourceEntries : List Entry)", "(entries : List Entry)", "(length : Int)"}
	t.pnames = []string{"optExclude", "sourceEntries", "entries", "length"}
	b := strings.Join(strings.Fields(t.block(fd.Body.List[iFetch+1:], "", false)), " ")
	defB := strings.Join(t.loops, "\n") + "def fromEntryTail (optExclude : List Entry) (sourceEntries : List Entry) (entries : List Entry) (length : Int) : Option (Bytes × List Entry) :=\n  " + b + "\n"
	t.loops = nil
	return defA + "\n" + defB
}

// fromJSONDecl: what fromJSON (log_io.go) makes of the fetched entries (a parameter): sort by clock, trim
func (t *tr2) fromJSONDecl(f *ast.File) string {
	fd := findFunc(f, "fromJSON")
	if fd == nil || fd.Body == nil {
		return t.fail(&ast.BlockStmt{}, "fromJSON not found")
	}
	t.prepare(fd)
	iFetch := -1
	for i, st := range fd.Body.List {
		if strings.Contains(src(t.fset, st), "FetchParallel") {
			iFetch = i
		}
	}
	if iFetch < 0 {
		return t.fail(fd, "shape of fromJSON")
	}
	if as, ok := fd.Body.List[iFetch].(*ast.AssignStmt); !ok || len(as.Lhs) != 1 || src(t.fset, as.Lhs[0]) != "entries" {
		return t.fail(fd.Body.List[iFetch], "the fetch result is not `entries`")
	}
	t.kinds = map[string]string{"options": "fetchopts", "entries": "ents"}
	t.subst = map[string]string{}
	t.loops, t.helperDefs, t.aliases = nil, nil, nil
	t.fn, t.recv, t.brk, t.noResult, t.emitter = "fromJSONTail", "", "", "", ""
	t.monadic, t.joinN, t.hasFuel, t.usesFuel = 0, 0, false, false
	t.retType = "Option (List Entry)"
	t.partial = true
	t.params = []string{"(optLength : Option Int)", "(entries : List Entry)"}
	t.pnames = []string{"optLength", "entries"}
	b := strings.Join(strings.Fields(t.block(fd.Body.List[iFetch+1:], "", false)), " ")
	out := strings.Join(t.loops, "\n") + "def fromJSONTail (optLength : Option Int) (entries : List Entry) : Option (List Entry) :=\n  " + b + "\n"
	t.loops = nil
	return out
}

// setIdentityDecl: IPFSLog.SetIdentity as a function of the heads, the clock and the new identity's public key,
// returning the new clock
func (t *tr2) setIdentityDecl(f *ast.File) string {
	fd := findMethod(f, "SetIdentity")
	if fd == nil || fd.Body == nil || fd.Recv == nil || len(fd.Recv.List[0].Names) != 1 || len(fd.Type.Params.List) != 1 || len(fd.Type.Params.List[0].Names) != 1 {
		return t.fail(&ast.BlockStmt{}, "SetIdentity not found")
	}
	t.prepare(fd)
	r := fd.Recv.List[0].Names[0].Name
	idn := fd.Type.Params.List[0].Names[0].Name
	t.kinds = map[string]string{r + ".heads": "omap", r + ".ClockID": "bytes", r + ".ClockTime": "int", idn: "identity"}
	t.subst = map[string]string{}
	t.loops, t.helperDefs, t.aliases = nil, nil, nil
	t.fn, t.recv, t.brk, t.noResult, t.emitter = "setIdentity", r, "", "", ""
	t.monadic, t.joinN, t.hasFuel, t.usesFuel, t.partial = 0, 0, false, false, false
	t.retType = "Bytes × Int"
	t.params = []string{"(lHeads : List Entry)", "(lClockID : Bytes)", "(lClockTime : Int)", "(" + leanName(idn) + "PublicKey : Bytes)"}
	t.pnames = []string{"lHeads", "lClockID", "lClockTime", leanName(idn) + "PublicKey"}
	b := strings.Join(strings.Fields(t.block(fd.Body.List, "(lClockID, lClockTime)", false)), " ")
	return "def setIdentity " + strings.Join(t.params, " ") + " : Bytes × Int :=\n  " + b + "\n"
}

// newLogDecl: what NewLog (log.go) computes from the entries, heads and clock of its options — the clock time, the
// heads (given, or found), the key set of the Next index — leaving out the plumbing of the other options
func (t *tr2) newLogDecl(f *ast.File) string {
	fd := findFunc(f, "NewLog")
	if fd == nil || fd.Body == nil {
		return t.fail(&ast.BlockStmt{}, "NewLog not found")
	}
	t.prepare(fd)
	t.kinds = map[string]string{"options": "logopts", "identity": "identity", "optHeads": "ents", "next": "set"}
	t.subst = map[string]string{}
	t.loops, t.helperDefs, t.aliases = nil, nil, nil
	t.fn, t.recv, t.brk, t.noResult, t.emitter = "newLogCore", "", "", "", ""
	t.monadic, t.joinN, t.hasFuel, t.usesFuel, t.partial = 0, 0, false, false, false
	t.retType = "Int × List Entry × List Hash"
	t.params = []string{"(optClockTime : Option Int)", "(optHeads : List Entry)", "(optEntries : List Entry)"}
	t.pnames = []string{"optClockTime", "optHeads", "optEntries"}
	var kept []ast.Stmt
	n := len(fd.Body.List)
	for _, st := range fd.Body.List[:n-1] {
		txt := src(t.fset, st)
		switch {
		case strings.HasPrefix(txt, "if options.Entries == nil"):
			// a nil entry map is the empty one
		case txt == "next := entry.NewOrderedMap()":
			// of the index only the key set exists (initialised below)
		case strings.Contains(txt, "maxTime") || strings.Contains(txt, "options.Heads") || strings.HasPrefix(txt, "for _, key := range options.Entries.Keys()"):
			kept = append(kept, st)
		}
	}
	ret, ok := fd.Body.List[n-1].(*ast.ReturnStmt)
	if !ok || len(ret.Results) != 2 {
		return t.fail(fd, "NewLog does not end in its return")
	}
	fields := map[string]string{}
	if u, ok := ret.Results[0].(*ast.UnaryExpr); ok {
		if cl, ok := u.X.(*ast.CompositeLit); ok {
			for _, el := range cl.Elts {
				if kv, ok := el.(*ast.KeyValueExpr); ok {
					fields[src(t.fset, kv.Key)] = src(t.fset, kv.Value)
				}
			}
		}
	}
	if fields["Entries"] != "options.Entries.Copy()" || fields["heads"] != "entry.NewOrderedMapFromEntries(options.Heads)" || fields["Next"] != "next" ||
		fields["Clock"] != "entry.NewLamportClock(identity.PublicKey, maxTime)" {
		return t.fail(ret, "the fields of the returned log")
	}
	b := strings.Join(strings.Fields(t.block(kept, "(maxTime, (omFromList optHeads), next)", false)), " ")
	return "def newLogCore (optClockTime : Option Int) (optHeads : List Entry) (optEntries : List Entry) : Int × List Entry × List Hash :=\n  (let next := ([] : List Hash); " + b + ")\n"
}

// cleanDecl: a failed special translation yields no definition of its own (the file's failure marker, emitted at the
// end for every recorded error, keeps the generated file from elaborating)
func cleanDecl(s string) string {
	if strings.HasPrefix(strings.TrimSpace(s), "(untranslatable)") {
		return "-- (not translated: see the UNTRANSLATABLE lines below)\n"
	}
	return s
}

// fromMultihashDecls: the default loader around its fetch — (A) what fromMultihash (log_io.go) makes of the fetched
// entries: sort-and-trim under a limit, the hashes of the entries that the manifest names as heads; (B) what
// NewFromMultihash (log.go) makes of that before calling NewLog: the entry map and the head entries
func (t *tr2) fromMultihashDecls(fio, flog *ast.File) string {
	reset := func(name, ret string, partial bool) {
		t.subst = map[string]string{}
		t.loops, t.helperDefs, t.aliases = nil, nil, nil
		t.fn, t.recv, t.brk, t.noResult, t.emitter = name, "", "", "", ""
		t.monadic, t.joinN, t.hasFuel, t.usesFuel, t.partial = 0, 0, false, false, partial
		t.retType = ret
	}
	fd := findFunc(fio, "fromMultihash")
	if fd == nil || fd.Body == nil {
		return t.fail(&ast.BlockStmt{}, "fromMultihash not found")
	}
	t.prepare(fd)
	iFetch := -1
	for i, st := range fd.Body.List {
		if strings.Contains(src(t.fset, st), "entry.FetchAll") {
			iFetch = i
		}
	}
	if iFetch < 0 {
		return t.fail(fd, "shape of fromMultihash")
	}
	if as, ok := fd.Body.List[iFetch].(*ast.AssignStmt); !ok || len(as.Lhs) != 1 || src(t.fset, as.Lhs[0]) != "entries" {
		return t.fail(fd.Body.List[iFetch], "the fetch result is not `entries`")
	}
	reset("fromMultihashTail", "Option (List Entry × List Hash)", true)
	t.kinds = map[string]string{"options": "fetchopts", "entries": "ents", "logHeads": "manifest", "sortFn": "sortfn"}
	t.params = []string{"(sortAsc : Entry → Entry → Bool)", "(optLength : Option Int)", "(manifestHeads : List Hash)", "(entries : List Entry)"}
	t.pnames = []string{"sortAsc", "optLength", "manifestHeads", "entries"}
	a := strings.Join(strings.Fields(t.block(fd.Body.List[iFetch+1:], "", false)), " ")
	defA := strings.Join(t.loops, "\n") + "def fromMultihashTail " + strings.Join(t.params, " ") + " : Option (List Entry × List Hash) :=\n  " + a + "\n"
	// (B)
	fd2 := findFunc(flog, "NewFromMultihash")
	if fd2 == nil || fd2.Body == nil {
		return t.fail(&ast.BlockStmt{}, "NewFromMultihash not found")
	}
	t.prepare(fd2)
	i0, n := -1, len(fd2.Body.List)
	for i, st := range fd2.Body.List {
		if src(t.fset, st) == "entries := entry.NewOrderedMapFromEntries(data.Values)" {
			i0 = i
		}
	}
	ret, ok := fd2.Body.List[n-1].(*ast.ReturnStmt)
	if i0 < 0 || !ok || !strings.Contains(src(t.fset, ret), "Entries: entry.NewOrderedMapFromEntries(data.Values)") || !strings.Contains(src(t.fset, ret), "Heads: heads") {
		return t.fail(fd2, "shape of NewFromMultihash")
	}
	reset("newFromMultihashHeads", "List Entry × List Entry", false)
	t.kinds = map[string]string{"data": "snapdata"}
	t.params = []string{"(dataValues : List Entry)", "(dataHeads : List Hash)"}
	t.pnames = []string{"dataValues", "dataHeads"}
	b := strings.Join(strings.Fields(t.block(fd2.Body.List[i0:n-1], "((omFromList dataValues), heads)", false)), " ")
	defB := strings.Join(t.loops, "\n") + "def newFromMultihashHeads (dataValues : List Entry) (dataHeads : List Hash) : List Entry × List Entry :=\n  " + b + "\n"
	t.loops = nil
	return defA + "\n" + defB
}

// fromEntryHashDecls: fromEntryHash (log_io.go) around its fetch — the trim length, and what is made of the fetched
// entries (sorted through one name of the slice, trimmed through the other)
func (t *tr2) fromEntryHashDecls(f *ast.File) string {
	fd := findFunc(f, "fromEntryHash")
	if fd == nil || fd.Body == nil {
		return t.fail(&ast.BlockStmt{}, "fromEntryHash not found")
	}
	t.prepare(fd)
	iFetch, iLen := -1, -1
	for i, st := range fd.Body.List {
		if strings.Contains(src(t.fset, st), "FetchParallel") {
			iFetch = i
		}
		if as, ok := st.(*ast.AssignStmt); ok && as.Tok == token.DEFINE && len(as.Lhs) == 1 && src(t.fset, as.Lhs[0]) == "length" && iFetch < 0 {
			iLen = i
		}
	}
	if iFetch < 0 || iLen < 0 || iLen+1 >= iFetch+1 {
		return t.fail(fd, "shape of fromEntryHash")
	}
	if as, ok := fd.Body.List[iFetch].(*ast.AssignStmt); !ok || len(as.Lhs) != 1 || src(t.fset, as.Lhs[0]) != "all" {
		return t.fail(fd.Body.List[iFetch], "the fetch result is not `all`")
	}
	reset := func(name, ret string, partial bool) {
		t.subst = map[string]string{}
		t.loops, t.helperDefs, t.aliases = nil, nil, nil
		t.fn, t.recv, t.brk, t.noResult, t.emitter = name, "", "", "", ""
		t.monadic, t.joinN, t.hasFuel, t.usesFuel, t.partial = 0, 0, false, false, partial
		t.retType = ret
	}
	reset("fromEntryHashLength", "Int", false)
	t.kinds = map[string]string{"options": "fetchopts"}
	t.params = []string{"(optLength : Option Int)"}
	t.pnames = []string{"optLength"}
	a := strings.Join(strings.Fields(t.block(fd.Body.List[iLen:iFetch], "length", false)), " ")
	defA := "def fromEntryHashLength (optLength : Option Int) : Int :=\n  " + a + "\n"
	// the tail: the choice of the comparison function is the parameter sortAsc (its ascending less-function)
	reset("fromEntryHashTail", "Option (List Entry)", true)
	t.kinds = map[string]string{"options": "fetchopts", "all": "ents", "length": "int", "sortFn": "sortfn"}
	t.params = []string{"(sortAsc : Entry → Entry → Bool)", "(all : List Entry)", "(length : Int)"}
	t.pnames = []string{"sortAsc", "all", "length"}
	var tail []ast.Stmt
	for _, st := range fd.Body.List[iFetch+1:] {
		txt := src(t.fset, st)
		if strings.HasPrefix(txt, "sortFn :=") || strings.HasPrefix(txt, "if options.SortFn != nil") {
			continue
		}
		tail = append(tail, st)
	}
	b := strings.Join(strings.Fields(t.block(tail, "", false)), " ")
	defB := strings.Join(t.loops, "\n") + "def fromEntryHashTail (sortAsc : Entry → Entry → Bool) (all : List Entry) (length : Int) : Option (List Entry) :=\n  " + b + "\n"
	t.loops = nil
	return defA + "\n" + defB
}

func findMethod(f *ast.File, name string) *ast.FuncDecl {
	for _, d := range f.Decls {
		if fd, ok := d.(*ast.FuncDecl); ok && fd.Name.Name == name && fd.Recv != nil {
			return fd
		}
	}
	return nil
}

// renderSlices: one generated file per group of functions (a function that leaves the subset then breaks
// only the obligations of the properties that rest on its group)
func renderSlices(repo string) map[string]string {
	type job struct {
		file  string
		names []string
	}
	groups := []struct {
		name string
		jobs []job
	}{
		{"Misc", []job{{"log.go", []string{"maxClockTimeForEntries", "#setIdentity"}}, {"entry/entry.go", []string{"uniqueCIDs"}}}},
		{"Loaders", []job{{"entry/utils.go", []string{"Difference"}}, {"log_io.go", []string{"entryLastN", "entryLastNKeeping", "entrySliceRange", "#fromEntry", "#fromJSON", "#fromMultihash", "#fromEntryHash"}}}},
		{"Heads", []job{{"entry/utils.go", []string{"FindHeads"}}}},
		{"NewLog", []job{{"log.go", []string{"#newLog"}}}},
		{"Traverse", []job{{"log.go", []string{"traverse"}}}},
		{"Join", []job{{"log.go", []string{"difference", "#joinVerify"}}}},
		{"Fetcher", []job{{"entry/fetcher.go", []string{"updateClock", "addNextEntry", "#admission"}}}},
		{"JoinTail", []job{{"log.go", []string{"Join@join.publish"}}}},
		{"Iterator", []job{{"log.go", []string{"sortedHeads", "Iterator"}}}},
		{"Append", []job{{"log.go", []string{"getEveryPow2", "Append@append.locked", "Append@append.publish"}}}},
		{"Views", []job{{"log.go", []string{"values", "ToJSONLog", "ToSnapshot", "Heads"}}}},
	}
	out := map[string]string{}
	for _, g := range groups {
		t := &tr2{fset: token.NewFileSet()}
		t.views = g.name == "Views"
		viewsMode = t.views
		var b strings.Builder
		if g.name == "Iterator" || g.name == "Views" {
			b.WriteString("import Generated.GenTraverse\n")
		}
		if g.name == "Views" {
			b.WriteString("import Generated.GenIterator\n")
		}
		if g.name == "NewLog" {
			b.WriteString("import Generated.GenHeads\nimport Generated.GenMisc\n")
		}
		if g.name == "Append" {
			b.WriteString("import Generated.GenIterator\nimport Generated.GenMisc\n")
		}
		if g.name == "JoinTail" {
			b.WriteString("import Generated.GenHeads\nimport Generated.GenMisc\n")
		}
		b.WriteString("import Model.GoPrelude\nimport Generated.Sorting\n/-! GENERATED by harness/cmd/extract/translate2.go from the Go source — do not edit.\n    What the code says, as Lean definitions (group " + g.name + "). -/\nnamespace Generated.Go\nopen Model Model.Go\n\n")
		for _, j := range g.jobs {
			f, err := parser.ParseFile(t.fset, filepath.Join(repo, j.file), nil, parser.SkipObjectResolution)
			if err != nil {
				t.errs = append(t.errs, err.Error())
				continue
			}
			t.file = f
			for _, n := range j.names {
				if n == "#fromEntry" {
					fmt.Fprintf(&b, "/-- `fromEntry` (%s): the fetch length, and what is made of the fetched entries -/\n%s\n", j.file, cleanDecl(t.fromEntryDecls(f)))
					continue
				}
				if n == "#fromJSON" {
					fmt.Fprintf(&b, "/-- `fromJSON` (%s): what is made of the fetched entries -/\n%s\n", j.file, cleanDecl(t.fromJSONDecl(f)))
					continue
				}
				if n == "#setIdentity" {
					fmt.Fprintf(&b, "/-- `SetIdentity` (%s): the new clock -/\n%s\n", j.file, cleanDecl(t.setIdentityDecl(f)))
					continue
				}
				if n == "#newLog" {
					fmt.Fprintf(&b, "/-- `NewLog` (%s): clock time, heads and index keys from the options -/\n%s\n", j.file, cleanDecl(t.newLogDecl(f)))
					continue
				}
				if n == "#fromMultihash" {
					flog, err := parser.ParseFile(t.fset, filepath.Join(repo, "log.go"), nil, parser.SkipObjectResolution)
					if err != nil {
						t.errs = append(t.errs, err.Error())
						continue
					}
					fmt.Fprintf(&b, "/-- `fromMultihash` (%s) and `NewFromMultihash` (log.go) around the fetch -/\n%s\n", j.file, cleanDecl(t.fromMultihashDecls(f, flog)))
					continue
				}
				if n == "#fromEntryHash" {
					fmt.Fprintf(&b, "/-- `fromEntryHash` (%s) around the fetch -/\n%s\n", j.file, cleanDecl(t.fromEntryHashDecls(f)))
					continue
				}
				if n == "#joinVerify" {
					fmt.Fprintf(&b, "/-- the verification of the candidates in `Join` (%s) -/\n%s\n", j.file, cleanDecl(t.joinVerifyDecl(f)))
					continue
				}
				if n == "#admission" {
					fmt.Fprintf(&b, "/-- the admission test of `processQueue` (%s) -/\n%s\n", j.file, cleanDecl(t.admissionDecl(f)))
					continue
				}
				if i := strings.Index(n, "@"); i > 0 {
					fd := findMethod(f, n[:i])
					if fd == nil || fd.Body == nil {
						t.errs = append(t.errs, "method "+n[:i]+" not found in "+j.file)
						continue
					}
					rname := lowerFirst(n[:i]) + "Tail"
					if n[i+1:] == "append.locked" {
						rname = "appendPlan"
					}
					def := t.regionDecl(fd, rname, n[i+1:])
					for _, h := range t.helperDefs {
						b.WriteString(h + "\n")
					}
					t.helperDefs = nil
					fmt.Fprintf(&b, "/-- `%s` after the hook %s (%s) -/\n%s\n", n[:i], n[i+1:], j.file, def)
					_ = rname
					continue
				}
				fd := findFunc(f, n)
				if fd == nil {
					fd = findMethod(f, n)
				}
				if fd == nil || fd.Body == nil {
					t.errs = append(t.errs, "function "+n+" not found in "+j.file)
					continue
				}
				name := lowerFirst(n)
				switch j.file + ":" + n {
				case "entry/utils.go:Difference":
					name = "entryDifference"
				case "log.go:difference":
					name = "logDifference"
				}
				def := t.funcDecl(fd, name)
				for _, h := range t.helperDefs {
					b.WriteString(h + "\n")
				}
				t.helperDefs = nil
				fmt.Fprintf(&b, "/-- `%s` (%s) -/\n%s\n", n, j.file, def)
			}
		}
		for _, e := range t.errs {
			fmt.Fprintf(&b, "-- UNTRANSLATABLE: %s\n", e)
		}
		if len(t.errs) > 0 {
			b.WriteString("\n/-- the translation failed (see above): this definition does not elaborate -/\ndef translationFailed" + g.name + " : Nat := (untranslatable : Nat)\n")
		}
		b.WriteString("\nend Generated.Go\n")
		out["Gen"+g.name+".lean"] = b.String()
	}
	return out
}
