package main

// Structural facts about the signed bytes and the CBOR schema (C07, C08, C12, C18), from the Go AST:
//
//   signedMap      : the keys of the map literal that `toBuffer` hands to json.Marshal, with the Go
//                    expression of each value (nested maps flattened with a dot), and the keys added
//                    by assignment afterwards (marked `?`: conditional)
//   hashableFields : the composite literal `&iface.Hashable{…}` returned by `ToHashable`
//   atlasFields    : every `atlas.BuildEntry(T{}).StructMap().AddField(F, StructMapEntry{SerialName: s, OmitEmpty: b})`
//                    of io/cbor/cbor.go, in source order

import (
	"bytes"
	"fmt"
	"go/ast"
	"go/parser"
	"go/printer"
	"go/token"
	"path/filepath"
	"strings"
)

func src(fset *token.FileSet, n ast.Node) string {
	var b bytes.Buffer
	printer.Fprint(&b, fset, n)
	return strings.Join(strings.Fields(b.String()), " ")
}

func findFunc(f *ast.File, name string) *ast.FuncDecl {
	for _, d := range f.Decls {
		if fd, ok := d.(*ast.FuncDecl); ok && fd.Name.Name == name && fd.Recv == nil {
			return fd
		}
	}
	return nil
}

func strLit(e ast.Expr) (string, bool) {
	bl, ok := e.(*ast.BasicLit)
	if !ok || bl.Kind != token.STRING {
		return "", false
	}
	return strings.Trim(bl.Value, "\"`"), true
}

func flattenMap(fset *token.FileSet, prefix string, c *ast.CompositeLit, out *[][2]string) {
	for _, el := range c.Elts {
		kv, ok := el.(*ast.KeyValueExpr)
		if !ok {
			continue
		}
		k, ok := strLit(kv.Key)
		if !ok {
			k = src(fset, kv.Key)
		}
		if inner, ok := kv.Value.(*ast.CompositeLit); ok {
			if _, isMap := inner.Type.(*ast.MapType); isMap {
				flattenMap(fset, prefix+k+".", inner, out)
				continue
			}
		}
		*out = append(*out, [2]string{prefix + k, src(fset, kv.Value)})
	}
}

func renderCodecFacts(repo string) (string, error) {
	fset := token.NewFileSet()
	parse := func(rel string) (*ast.File, error) {
		return parser.ParseFile(fset, filepath.Join(repo, rel), nil, parser.SkipObjectResolution)
	}
	ef, err := parse("entry/entry.go")
	if err != nil {
		return "", err
	}
	var signed [][2]string
	if fd := findFunc(ef, "toBuffer"); fd != nil {
		mapVar := ""
		ast.Inspect(fd.Body, func(n ast.Node) bool {
			switch x := n.(type) {
			case *ast.AssignStmt:
				// data := map[string]interface{}{…}
				if len(x.Lhs) == 1 && len(x.Rhs) == 1 {
					if c, ok := x.Rhs[0].(*ast.CompositeLit); ok && mapVar == "" {
						if _, isMap := c.Type.(*ast.MapType); isMap {
							if id, ok := x.Lhs[0].(*ast.Ident); ok {
								mapVar = id.Name
							}
							flattenMap(fset, "", c, &signed)
							return false
						}
					}
					// data["k"] = v
					if ix, ok := x.Lhs[0].(*ast.IndexExpr); ok {
						if id, ok := ix.X.(*ast.Ident); ok && id.Name == mapVar {
							k, _ := strLit(ix.Index)
							signed = append(signed, [2]string{k + "?", src(fset, x.Rhs[0])})
						}
					}
				}
			case *ast.CallExpr:
				// what is marshalled
				if s := src(fset, x.Fun); s == "json.Marshal" && len(x.Args) == 1 {
					signed = append(signed, [2]string{"<marshal>", src(fset, x.Args[0])})
				}
			}
			return true
		})
	}
	var hashable [][2]string
	if fd := findFunc(ef, "ToHashable"); fd != nil {
		ast.Inspect(fd.Body, func(n ast.Node) bool {
			c, ok := n.(*ast.CompositeLit)
			if !ok || src(fset, c.Type) != "iface.Hashable" {
				return true
			}
			for _, el := range c.Elts {
				if kv, ok := el.(*ast.KeyValueExpr); ok {
					hashable = append(hashable, [2]string{src(fset, kv.Key), src(fset, kv.Value)})
				}
			}
			return false
		})
		// anything in the function that assigns to, or conditionally replaces, what is returned shows up
		// as extra statements: record the statement kinds of the body
		// — except the plumbing that cannot change the returned fields: definitions of locals, loops that fill
		// them, `if err != nil { return nil, … }`, the return itself.  (A fingerprint of all statement kinds
		// proved brittle: extracting the two encoding loops into a helper changed it.)
		var shape []string
		for _, st := range fd.Body.List {
			switch x := st.(type) {
			case *ast.AssignStmt:
				plain := true
				for _, l := range x.Lhs {
					if _, ok := l.(*ast.Ident); !ok {
						plain = false
					}
				}
				if plain {
					continue
				}
			case *ast.RangeStmt, *ast.ReturnStmt:
				continue
			case *ast.IfStmt:
				if x.Init == nil && x.Else == nil && src(fset, x.Cond) == "err != nil" && len(x.Body.List) == 1 {
					if r, ok := x.Body.List[0].(*ast.ReturnStmt); ok && len(r.Results) == 2 && src(fset, r.Results[0]) == "nil" {
						continue
					}
				}
			}
			shape = append(shape, strings.TrimPrefix(fmt.Sprintf("%T", st), "*ast.")+":"+src(fset, st))
		}
		hashable = append(hashable, [2]string{"<body>", strings.Join(shape, ",")})
	}
	cf, err := parse("io/cbor/cbor.go")
	if err != nil {
		return "", err
	}
	type af struct{ typ, field, serial, omit string }
	var atlas []af
	ast.Inspect(cf, func(n ast.Node) bool {
		call, ok := n.(*ast.CallExpr)
		if !ok {
			return true
		}
		sel, ok := call.Fun.(*ast.SelectorExpr)
		if !ok || sel.Sel.Name != "AddField" || len(call.Args) != 2 {
			return true
		}
		// walk down the receiver chain to BuildEntry(T{})
		typ := ""
		var recv ast.Expr = sel.X
		for recv != nil {
			c, ok := recv.(*ast.CallExpr)
			if !ok {
				break
			}
			s, ok := c.Fun.(*ast.SelectorExpr)
			if !ok {
				break
			}
			if s.Sel.Name == "BuildEntry" && len(c.Args) == 1 {
				typ = strings.TrimSuffix(src(fset, c.Args[0]), "{}")
				break
			}
			recv = s.X
		}
		field, _ := strLit(call.Args[0])
		serial, omit := "", "false"
		if c, ok := call.Args[1].(*ast.CompositeLit); ok {
			for _, el := range c.Elts {
				if kv, ok := el.(*ast.KeyValueExpr); ok {
					switch src(fset, kv.Key) {
					case "SerialName":
						serial, _ = strLit(kv.Value)
					case "OmitEmpty":
						omit = src(fset, kv.Value)
					}
				}
			}
		}
		atlas = append(atlas, af{typ, field, serial, omit})
		return true
	})
	// AddField calls nest (the outermost call is the LAST field): restore source order per type
	// by position
	// (ast.Inspect visits the outermost call first, i.e. fields in reverse order within one chain)
	ordered := make([]af, 0, len(atlas))
	i := 0
	for i < len(atlas) {
		j := i
		for j < len(atlas) && atlas[j].typ == atlas[i].typ {
			j++
		}
		for k := j - 1; k >= i; k-- {
			ordered = append(ordered, atlas[k])
		}
		i = j
	}
	// field flow and call order of the conversion functions between an entry, its signed form and its block
	type target struct{ file, recv, name string }
	targets := []target{
		{"io/jsonable/types.go", "", "ToJsonableEntry"},
		{"io/jsonable/types.go", "Entry", "ToPlain"},
		{"io/jsonable/types.go", "Identity", "ToPlain"},
		{"io/cbor/cbor.go", "IOCbor", "PreSign"},
		{"io/cbor/cbor.go", "IOCbor", "DecryptLinks"},
		{"io/cbor/cbor.go", "IOCbor", "DecodeRawEntry"},
		{"io/cbor/cbor.go", "", "NonceRefForEntry"},
		{"entry/entry.go", "", "CreateEntryWithIO"},
		{"entry/entry.go", "Entry", "Verify"},
		{"entry/entry.go", "Entry", "Copy"},
	}
	type flow struct {
		name  string
		items []string
	}
	var flows []flow
	parsed := map[string]*ast.File{"entry/entry.go": ef, "io/cbor/cbor.go": cf}
	for _, t := range targets {
		f, ok := parsed[t.file]
		if !ok {
			var err error
			f, err = parse(t.file)
			if err != nil {
				return "", err
			}
			parsed[t.file] = f
		}
		for _, d := range f.Decls {
			fd, ok := d.(*ast.FuncDecl)
			if !ok || fd.Name.Name != t.name || fd.Body == nil {
				continue
			}
			recv := ""
			if fd.Recv != nil && len(fd.Recv.List) == 1 {
				recv = strings.TrimPrefix(src(fset, fd.Recv.List[0].Type), "*")
			}
			if recv != t.recv {
				continue
			}
			var items []string
			ast.Inspect(fd.Body, func(n ast.Node) bool {
				switch x := n.(type) {
				case *ast.CompositeLit:
					ty := src(fset, x.Type)
					if _, isMap := x.Type.(*ast.MapType); isMap || x.Type == nil {
						return true
					}
					for _, el := range x.Elts {
						if kv, ok := el.(*ast.KeyValueExpr); ok {
							if _, nested := kv.Value.(*ast.CompositeLit); nested {
								items = append(items, ty+"."+src(fset, kv.Key)+" := {…}")
							} else {
								items = append(items, ty+"."+src(fset, kv.Key)+" := "+src(fset, kv.Value))
							}
						}
					}
				case *ast.AssignStmt:
					if x.Tok == token.ASSIGN && len(x.Lhs) == 1 && len(x.Rhs) == 1 {
						if _, ok := x.Lhs[0].(*ast.SelectorExpr); ok {
							items = append(items, src(fset, x.Lhs[0])+" = "+src(fset, x.Rhs[0]))
						}
					}
				case *ast.CallExpr:
					// calls that move data: setters, codec steps, crypto
					name := ""
					switch fn := x.Fun.(type) {
					case *ast.SelectorExpr:
						name = fn.Sel.Name
					case *ast.Ident:
						name = fn.Name
					}
					switch {
					case strings.HasPrefix(name, "Set"), name == "PreSign", name == "ToHashable", name == "toBuffer", name == "Sign",
						name == "VerifyWithKey" || name == "Verify" || name == "ToMultihashWithIO" || name == "DecryptLinks" ||
							name == "DeriveNonce" || name == "SealWithNonce" || name == "OpenWithNonce" || name == "ToPlain" ||
							name == "uniqueCIDs" || name == "Sprintf" || name == "Marshal" || name == "Unmarshal" || name == "Copy" || name == "Write":
						args := []string{}
						for _, a := range x.Args {
							args = append(args, src(fset, a))
						}
						items = append(items, "call "+name+"("+strings.Join(args, ", ")+")")
					}
				}
				return true
			})
			label := t.name
			if recv != "" {
				label = recv + "." + t.name
			}
			flows = append(flows, flow{label, items})
		}
	}
	var b strings.Builder
	b.WriteString("\n/-- (function, struct-literal fields / field assignments / data-moving calls in source order) -/\n")
	b.WriteString("def fieldFlow : List (String × List String) := [\n")
	for i, fl := range flows {
		sep := ","
		if i == len(flows)-1 {
			sep = ""
		}
		var qs []string
		for _, it := range fl.items {
			qs = append(qs, "\n    "+q(strings.ReplaceAll(strings.ReplaceAll(it, "\\", "\\\\"), "\"", "'")))
		}
		fmt.Fprintf(&b, "  (%s, [%s])%s\n", q(fl.name), strings.Join(qs, ","), sep)
	}
	b.WriteString("]\n")
	b.WriteString("\n/-- the map `toBuffer` marshals: (key, Go expression); `k?` = added conditionally afterwards -/\n")
	b.WriteString("def signedMap : List (String × String) := [\n")
	for i, p := range signed {
		sep := ","
		if i == len(signed)-1 {
			sep = ""
		}
		fmt.Fprintf(&b, "  (%s, %s)%s\n", q(p[0]), q(strings.ReplaceAll(p[1], "\"", "'")), sep)
	}
	b.WriteString("]\n\n/-- the literal `ToHashable` returns: (field, Go expression) -/\n")
	b.WriteString("def hashableFields : List (String × String) := [\n")
	for i, p := range hashable {
		sep := ","
		if i == len(hashable)-1 {
			sep = ""
		}
		fmt.Fprintf(&b, "  (%s, %s)%s\n", q(p[0]), q(strings.ReplaceAll(p[1], "\"", "'")), sep)
	}
	b.WriteString("]\n\n/-- the refmt atlas of io/cbor: (Go type, field, serial name, omit-empty) in source order -/\n")
	b.WriteString("def atlasFields : List (String × String × String × String) := [\n")
	for i, p := range ordered {
		sep := ","
		if i == len(ordered)-1 {
			sep = ""
		}
		fmt.Fprintf(&b, "  (%s, %s, %s, %s)%s\n", q(p.typ), q(p.field), q(p.serial), q(p.omit), sep)
	}
	b.WriteString("]\n")
	// the same names as byte lists, for comparison with the byte constants of the model
	bytesOf := func(s string) string {
		var xs []string
		for _, c := range []byte(s) {
			xs = append(xs, fmt.Sprint(int(c)))
		}
		return "[" + strings.Join(xs, ", ") + "]"
	}
	b.WriteString("\n/-- serial names per atlas type, in source order, as bytes -/\n")
	b.WriteString("def atlasKeys : List (String × List (List Nat)) := [\n")
	var types []string
	byType := map[string][]string{}
	for _, p := range ordered {
		if _, ok := byType[p.typ]; !ok {
			types = append(types, p.typ)
		}
		byType[p.typ] = append(byType[p.typ], bytesOf(p.serial))
	}
	for i, t := range types {
		sep := ","
		if i == len(types)-1 {
			sep = ""
		}
		fmt.Fprintf(&b, "  (%s, [%s])%s\n", q(t), strings.Join(byType[t], ", "), sep)
	}
	b.WriteString("]\n\n/-- keys of the signed map (path, last component as bytes), in source order -/\n")
	b.WriteString("def signedKeys : List (String × List Nat) := [\n")
	var sk []string
	for _, p := range signed {
		if strings.HasPrefix(p[0], "<") {
			continue
		}
		k := strings.TrimSuffix(p[0], "?")
		last := k
		if i := strings.LastIndex(k, "."); i >= 0 {
			last = k[i+1:]
		}
		sk = append(sk, fmt.Sprintf("  (%s, %s)", q(k), bytesOf(last)))
	}
	b.WriteString(strings.Join(sk, ",\n"))
	b.WriteString("\n]\n")
	return b.String(), nil
}
