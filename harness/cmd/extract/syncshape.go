package main

// syncShape: the synchronisation operations on the main path of the fetcher (entry/fetcher.go) —
// mutex, semaphore and condition-variable calls, hook points, channel sends, the context timeout —
// with the calls to other methods of *Fetcher inlined and the body of `go func(){…}()` in place,
// prefixed "go:".  Same conventions as lockShape (error branches skipped, loop bodies once, defer last).

import (
	"fmt"
	"go/ast"
	"go/parser"
	"go/token"
	"path/filepath"
	"strings"
)

var syncOps = map[string]bool{"Lock": true, "Unlock": true, "RLock": true, "RUnlock": true, "Wait": true,
	"Signal": true, "Broadcast": true, "Acquire": true, "Release": true}

type syncShaper struct {
	methods map[string]*ast.FuncDecl
	busy    map[string]bool
}

func (s *syncShaper) shape(body *ast.BlockStmt, recv string, prefix string) []string {
	var out, deferred []string
	var expr func(e ast.Expr)
	var stmt func(st ast.Stmt)
	var block func(b *ast.BlockStmt)
	emit := func(ev string) { out = append(out, prefix+ev) }
	call := func(c *ast.CallExpr) {
		for _, a := range c.Args {
			expr(a)
		}
		switch fn := c.Fun.(type) {
		case *ast.Ident:
			switch fn.Name {
			case "close":
				emit("close")
			case "verifHook":
				if len(c.Args) > 0 {
					if bl, ok := c.Args[0].(*ast.BasicLit); ok {
						emit("hook:" + strings.Trim(bl.Value, "\""))
					}
				}
			case "cancel":
				emit("cancel")
			}
		case *ast.SelectorExpr:
			expr(fn.X)
			chain := selChain(fn)
			if chain == "context.WithTimeout" || chain == "context.WithDeadline" {
				emit("WithTimeout")
				return
			}
			if syncOps[fn.Sel.Name] {
				parts := strings.Split(chain, ".")
				if len(parts) >= 2 {
					emit(parts[len(parts)-2] + "." + fn.Sel.Name)
				}
				return
			}
			if id, ok := fn.X.(*ast.Ident); ok && id.Name == recv {
				if callee, ok := s.methods[fn.Sel.Name]; ok {
					if fn.Sel.Name == "fetchEntry" {
						emit("fetchEntry")
					}
					if !s.busy[fn.Sel.Name] {
						s.busy[fn.Sel.Name] = true
						r := callee.Recv.List[0].Names[0].Name
						out = append(out, s.shape(callee.Body, r, prefix)...)
						s.busy[fn.Sel.Name] = false
					}
				}
			}
		case *ast.FuncLit:
			block(fn.Body)
		}
	}
	expr = func(e ast.Expr) {
		if e == nil {
			return
		}
		ast.Inspect(e, func(n ast.Node) bool {
			switch x := n.(type) {
			case *ast.CallExpr:
				call(x)
				return false
			case *ast.FuncLit:
				return false
			}
			return true
		})
	}
	block = func(b *ast.BlockStmt) {
		if b == nil {
			return
		}
		for _, st := range b.List {
			stmt(st)
		}
	}
	stmt = func(st ast.Stmt) {
		switch x := st.(type) {
		case *ast.ExprStmt:
			expr(x.X)
		case *ast.AssignStmt:
			for _, r := range x.Rhs {
				expr(r)
			}
		case *ast.ReturnStmt:
			for _, r := range x.Results {
				expr(r)
			}
		case *ast.SendStmt:
			expr(x.Value)
			emit("send")
		case *ast.DeferStmt:
			saved := out
			out = nil
			call(x.Call)
			deferred = append(append([]string{}, out...), deferred...)
			out = saved
		case *ast.GoStmt:
			for _, a := range x.Call.Args {
				expr(a)
			}
			if fl, ok := x.Call.Fun.(*ast.FuncLit); ok {
				out = append(out, s.shape(fl.Body, recv, prefix+"go:")...)
			}
		case *ast.IfStmt:
			if x.Init != nil {
				stmt(x.Init)
			}
			expr(x.Cond)
			if !endsInReturn(x.Body) {
				block(x.Body)
			}
			switch el := x.Else.(type) {
			case *ast.BlockStmt:
				if !endsInReturn(el) {
					block(el)
				}
			case *ast.IfStmt:
				stmt(el)
			}
		case *ast.ForStmt:
			if x.Init != nil {
				stmt(x.Init)
			}
			expr(x.Cond)
			block(x.Body)
		case *ast.RangeStmt:
			expr(x.X)
			block(x.Body)
		case *ast.BlockStmt:
			block(x)
		case *ast.SwitchStmt:
			for _, cc := range x.Body.List {
				if c, ok := cc.(*ast.CaseClause); ok {
					b := &ast.BlockStmt{List: c.Body}
					if !endsInReturn(b) {
						block(b)
					}
				}
			}
		}
	}
	block(body)
	return append(out, deferred...)
}

func renderSyncShape(repo string) (string, error) {
	fset := token.NewFileSet()
	f, err := parser.ParseFile(fset, filepath.Join(repo, "entry", "fetcher.go"), nil, parser.SkipObjectResolution)
	if err != nil {
		return "", err
	}
	s := &syncShaper{methods: map[string]*ast.FuncDecl{}, busy: map[string]bool{}}
	for _, d := range f.Decls {
		fd, ok := d.(*ast.FuncDecl)
		if !ok || fd.Body == nil || fd.Recv == nil || len(fd.Recv.List) != 1 || len(fd.Recv.List[0].Names) != 1 {
			continue
		}
		if typeString(fd.Recv.List[0].Type) == "*Fetcher" {
			s.methods[fd.Name.Name] = fd
		}
	}
	var b strings.Builder
	b.WriteString("\n/-- main-path synchronisation operations of the fetcher (`go:` = inside the worker goroutine literal) -/\n")
	b.WriteString("def syncShape : List (String × List String) := [\n")
	first := true
	for _, name := range []string{"Fetch", "processQueue"} {
		fd, ok := s.methods[name]
		if !ok {
			continue
		}
		s.busy[name] = true
		sh := s.shape(fd.Body, fd.Recv.List[0].Names[0].Name, "")
		s.busy[name] = false
		if !first {
			b.WriteString(",\n")
		}
		first = false
		fmt.Fprintf(&b, "  (%s, [%s])", q(name), joinQ(sh))
	}
	b.WriteString("\n]\n")
	return b.String(), nil
}
