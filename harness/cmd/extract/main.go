// Command extract regenerates lean/Generated/Facts.lean from the Go sources of package ipfslog
// (the non-test .go files in the repository root), purely syntactically (go/parser, go/ast).
//
//	extract -repo /repo -out lean/Generated/Facts.lean
//
// Tables (see DESIGN.md §6):
//
//	lockFacts           (function, field, "read"|"write", "none"|"R"|"W") for every access to a
//	                    mutable field of an *IPFSLog (Identity, Entries, heads, Next, Clock) in every
//	                    function; the last component is the lock on THAT log held at that point.
//	mutableFields       tracked fields written anywhere outside the constructors.
//	lockingMethods      methods of *IPFSLog (and package functions) that take a log lock themselves,
//	                    directly or through a call.
//	acquireWhileHolding (function, callee) for every call made while holding some log's lock to a
//	                    locking method / function, on any log, and every direct Lock()/RLock() made
//	                    while holding.
//
// Lock tracking: `x.lock.Lock()`, `RLock()`, `Unlock()`, `RUnlock()` statements are followed linearly
// through the body (`defer x.lock.Unlock()` holds to the end); a branch that returns does not
// influence what follows it; where two paths meet the weaker lock is assumed; closures inherit the
// state of the point where they are written.  Unexported functions with an *IPFSLog receiver or
// parameter ("the lock must be held" helpers such as traverse, values, sortedHeads, difference)
// start with the weakest lock found over their call sites; methods of context structs that carry a
// log (CanAppendContext) start with the weakest lock found where such a struct is constructed.
// Constructor functions (New*) are exempt.  Local renames and reformatting do not change the output;
// rows are sorted and unique.
package main

import (
	"flag"
	"fmt"
	"go/ast"
	"go/parser"
	"go/token"
	"os"
	"path/filepath"
	"sort"
	"strings"
)

const logType = "IPFSLog"

var trackedFields = map[string]bool{"Identity": true, "Entries": true, "heads": true, "Next": true, "Clock": true}

// methods that modify the object stored in a field in place
var mutatingMethods = map[string]bool{"Set": true, "Reverse": true, "Tick": true, "Merge:Clock": true, "SetID": true, "SetTime": true}

// interface / alias names under which a log is passed around
var logIfaceTypes = map[string]bool{"iface.IPFSLog": true, "Log": true, "IPFSLog": true, "*IPFSLog": true}

type lockState int

const (
	lsNone lockState = iota
	lsR
	lsW
)

func (s lockState) String() string { return [...]string{"none", "R", "W"}[s] }

func meet(a, b lockState) lockState {
	if a < b {
		return a
	}
	return b
}

type fn struct {
	name     string
	decl     *ast.FuncDecl
	logVars  []string // receiver / parameters of type *IPFSLog, in order (receiver first)
	recvIdx  bool     // logVars[0] is the receiver
	ifaceLog map[string]bool
	ctxType  string // receiver is a context struct carrying a log: its type name
	ctxRecv  string
	exported bool
	exempt   bool
}

type fact struct{ fn, field, kind, lock string }
type awh struct{ fn, callee string }

type analysis struct {
	fset *token.FileSet
	fns  map[string]*fn
	// struct type -> field names of type *IPFSLog
	ctxFields map[string][]string
	// inherited initial states
	helperInit map[string][]lockState // per logVar
	ctxInit    map[string]lockState   // per context struct type
	// collected per round
	callSites map[string][][]lockState
	ctxSites  map[string][]lockState
	facts     map[fact]bool
	awhs      map[awh]bool
	locking   map[string]bool // function / method names that lock
}

func typeString(e ast.Expr) string {
	switch t := e.(type) {
	case *ast.Ident:
		return t.Name
	case *ast.StarExpr:
		return "*" + typeString(t.X)
	case *ast.SelectorExpr:
		return typeString(t.X) + "." + t.Sel.Name
	}
	return "?"
}

func isLogPtr(e ast.Expr) bool { return typeString(e) == "*"+logType }

func main() {
	repo := flag.String("repo", "/repo", "repository root (package ipfslog)")
	out := flag.String("out", "", "output Lean file")
	flag.Parse()
	if *out == "" {
		fmt.Fprintln(os.Stderr, "usage: extract -repo <dir> -out <Facts.lean>")
		os.Exit(2)
	}
	a := &analysis{fset: token.NewFileSet(), fns: map[string]*fn{}, ctxFields: map[string][]string{}}
	matches, _ := filepath.Glob(filepath.Join(*repo, "*.go"))
	sort.Strings(matches)
	var files []*ast.File
	for _, p := range matches {
		if strings.HasSuffix(p, "_test.go") {
			continue
		}
		f, err := parser.ParseFile(a.fset, p, nil, parser.SkipObjectResolution)
		if err != nil {
			fmt.Fprintln(os.Stderr, "parse:", err)
			os.Exit(1)
		}
		if f.Name.Name != "ipfslog" {
			continue
		}
		files = append(files, f)
	}
	if len(files) == 0 {
		fmt.Fprintln(os.Stderr, "no files of package ipfslog in", *repo)
		os.Exit(1)
	}
	a.collect(files)
	a.run()
	if err := os.MkdirAll(filepath.Dir(*out), 0o755); err != nil {
		fmt.Fprintln(os.Stderr, err)
		os.Exit(1)
	}
	codec, err := renderCodecFacts(*repo)
	if err != nil {
		fmt.Fprintln(os.Stderr, "codec facts:", err)
		os.Exit(1)
	}
	syncS, err := renderSyncShape(*repo)
	if err != nil {
		fmt.Fprintln(os.Stderr, "sync shape:", err)
		os.Exit(1)
	}
	rendered := strings.Replace(a.render(), "\nend Generated\n", renderEffects(files)+renderLockShape(a.fset, files)+syncS+codec+"\nend Generated\n", 1)
	if err := os.WriteFile(filepath.Join(filepath.Dir(*out), "Sorting.lean"), []byte(renderTranslation(*repo)), 0o644); err != nil {
		fmt.Fprintln(os.Stderr, err)
		os.Exit(1)
	}
	for name, content := range renderSlices(*repo) {
		if err := os.WriteFile(filepath.Join(filepath.Dir(*out), name), []byte(content), 0o644); err != nil {
			fmt.Fprintln(os.Stderr, err)
			os.Exit(1)
		}
	}
	if err := os.WriteFile(*out, []byte(rendered), 0o644); err != nil {
		fmt.Fprintln(os.Stderr, err)
		os.Exit(1)
	}
}

func (a *analysis) collect(files []*ast.File) {
	for _, f := range files {
		for _, d := range f.Decls {
			gd, ok := d.(*ast.GenDecl)
			if !ok || gd.Tok != token.TYPE {
				continue
			}
			for _, sp := range gd.Specs {
				ts := sp.(*ast.TypeSpec)
				st, ok := ts.Type.(*ast.StructType)
				if !ok || ts.Name.Name == logType {
					continue
				}
				for _, fld := range st.Fields.List {
					if isLogPtr(fld.Type) {
						for _, n := range fld.Names {
							a.ctxFields[ts.Name.Name] = append(a.ctxFields[ts.Name.Name], n.Name)
						}
					}
				}
			}
		}
	}
	for _, f := range files {
		for _, d := range f.Decls {
			fd, ok := d.(*ast.FuncDecl)
			if !ok || fd.Body == nil {
				continue
			}
			x := &fn{name: fd.Name.Name, decl: fd, ifaceLog: map[string]bool{}, exported: ast.IsExported(fd.Name.Name)}
			if fd.Recv != nil && len(fd.Recv.List) == 1 {
				r := fd.Recv.List[0]
				rt := typeString(r.Type)
				if rt == "*"+logType && len(r.Names) == 1 {
					x.logVars = append(x.logVars, r.Names[0].Name)
					x.recvIdx = true
				} else {
					base := strings.TrimPrefix(rt, "*")
					if _, ok := a.ctxFields[base]; ok && len(r.Names) == 1 {
						x.ctxType = base
						x.ctxRecv = r.Names[0].Name
					}
					if rt != "*"+logType {
						x.name = base + "." + x.name
					}
				}
			}
			for _, p := range fd.Type.Params.List {
				ts := typeString(p.Type)
				for _, n := range p.Names {
					if ts == "*"+logType {
						x.logVars = append(x.logVars, n.Name)
					} else if logIfaceTypes[ts] {
						x.ifaceLog[n.Name] = true
					}
				}
			}
			x.exempt = strings.HasPrefix(fd.Name.Name, "New") && fd.Recv == nil
			if _, dup := a.fns[x.name]; dup {
				// the same function in files selected by different build tags (verif_on / verif_off):
				// analyse both under distinct names
				x.name = x.name + "'"
			}
			a.fns[x.name] = x
		}
	}
}

func (a *analysis) sortedFns() []*fn {
	var names []string
	for n := range a.fns {
		names = append(names, n)
	}
	sort.Strings(names)
	var out []*fn
	for _, n := range names {
		out = append(out, a.fns[n])
	}
	return out
}

// isHelper: unexported, has log variables, and is called somewhere in the package
func (a *analysis) isHelper(x *fn) bool {
	return !x.exported && len(x.logVars) > 0 && !x.exempt
}

func (a *analysis) run() {
	// which functions lock (fixpoint over direct locks and calls)
	a.locking = map[string]bool{}
	for changed := true; changed; {
		changed = false
		for _, x := range a.sortedFns() {
			if a.locking[x.name] {
				continue
			}
			if a.bodyLocks(x) {
				a.locking[x.name] = true
				changed = true
			}
		}
	}
	// inherited lock states: start at W (top), lower until stable
	a.helperInit = map[string][]lockState{}
	a.ctxInit = map[string]lockState{}
	for _, x := range a.fns {
		if a.isHelper(x) {
			st := make([]lockState, len(x.logVars))
			for i := range st {
				st[i] = lsW
			}
			a.helperInit[x.name] = st
		}
	}
	for t := range a.ctxFields {
		a.ctxInit[t] = lsW
	}
	for round := 0; round < 20; round++ {
		a.callSites = map[string][][]lockState{}
		a.ctxSites = map[string][]lockState{}
		a.facts = map[fact]bool{}
		a.awhs = map[awh]bool{}
		for _, x := range a.sortedFns() {
			if x.exempt {
				continue
			}
			a.analyse(x)
		}
		stable := true
		for name, init := range a.helperInit {
			sites := a.callSites[name]
			for i := range init {
				nv := lsW
				if len(sites) == 0 {
					nv = lsNone // never called: an entry point
				}
				for _, s := range sites {
					nv = meet(nv, s[i])
				}
				if nv != init[i] {
					init[i] = nv
					stable = false
				}
			}
		}
		for t, cur := range a.ctxInit {
			nv := lsW
			if len(a.ctxSites[t]) == 0 {
				nv = lsNone
			}
			for _, s := range a.ctxSites[t] {
				nv = meet(nv, s)
			}
			if nv != cur {
				a.ctxInit[t] = nv
				stable = false
			}
		}
		if stable {
			return
		}
	}
}

// bodyLocks: the body takes a log lock directly, or calls something that does
func (a *analysis) bodyLocks(x *fn) bool {
	found := false
	ast.Inspect(x.decl.Body, func(n ast.Node) bool {
		c, ok := n.(*ast.CallExpr)
		if !ok {
			return true
		}
		if _, op := lockOp(c); op == "Lock" || op == "RLock" {
			found = true
		}
		switch f := c.Fun.(type) {
		case *ast.Ident:
			if a.locking[f.Name] {
				found = true
			}
		case *ast.SelectorExpr:
			if a.locking[f.Sel.Name] && a.isLogExpr(x, nil, f.X) {
				found = true
			}
		}
		return true
	})
	return found
}

// lockOp recognises `<x>.lock.<Op>()` and returns the expression x and Op
func lockOp(c *ast.CallExpr) (ast.Expr, string) {
	s, ok := c.Fun.(*ast.SelectorExpr)
	if !ok {
		return nil, ""
	}
	switch s.Sel.Name {
	case "Lock", "RLock", "Unlock", "RUnlock":
	default:
		return nil, ""
	}
	in, ok := s.X.(*ast.SelectorExpr)
	if !ok || in.Sel.Name != "lock" {
		return nil, ""
	}
	return in.X, s.Sel.Name
}

type env struct {
	st    map[string]lockState // log variable (or "recv.field" of a context struct) -> lock held on it
	extra map[string]bool      // local variables known to be logs (type assertions)
}

func (e *env) clone() *env {
	n := &env{st: map[string]lockState{}, extra: map[string]bool{}}
	for k, v := range e.st {
		n.st[k] = v
	}
	for k, v := range e.extra {
		n.extra[k] = v
	}
	return n
}

func (e *env) anyHeld() bool {
	for _, v := range e.st {
		if v != lsNone {
			return true
		}
	}
	return false
}

func meetEnv(a, b *env) *env {
	n := a.clone()
	for k, v := range b.st {
		if cur, ok := n.st[k]; ok {
			n.st[k] = meet(cur, v)
		} else {
			n.st[k] = v
		}
	}
	for k := range n.st {
		if _, ok := b.st[k]; !ok {
			n.st[k] = lsNone
		}
	}
	for k, v := range b.extra {
		n.extra[k] = v
	}
	return n
}

// logKey: the key under which the lock state of the log denoted by e is kept ("" = not a tracked log)
func (a *analysis) logKey(x *fn, en *env, e ast.Expr) string {
	switch t := e.(type) {
	case *ast.Ident:
		for _, v := range x.logVars {
			if v == t.Name {
				return t.Name
			}
		}
		if en != nil && en.extra[t.Name] {
			return t.Name
		}
	case *ast.SelectorExpr:
		if id, ok := t.X.(*ast.Ident); ok && x.ctxType != "" && id.Name == x.ctxRecv {
			for _, f := range a.ctxFields[x.ctxType] {
				if f == t.Sel.Name {
					return id.Name + "." + f
				}
			}
		}
	case *ast.ParenExpr:
		return a.logKey(x, en, t.X)
	}
	return ""
}

// isLogExpr: e denotes some log (tracked or passed as an interface)
func (a *analysis) isLogExpr(x *fn, en *env, e ast.Expr) bool {
	if a.logKey(x, en, e) != "" {
		return true
	}
	switch t := e.(type) {
	case *ast.Ident:
		return x.ifaceLog[t.Name]
	case *ast.ParenExpr:
		return a.isLogExpr(x, en, t.X)
	case *ast.TypeAssertExpr:
		return t.Type != nil && logIfaceTypes[typeString(t.Type)]
	case *ast.SelectorExpr:
		// a field of some struct that is declared to hold a log
		for _, fs := range a.ctxFields {
			for _, f := range fs {
				if f == t.Sel.Name {
					return true
				}
			}
		}
	}
	return false
}

func (a *analysis) analyse(x *fn) {
	en := &env{st: map[string]lockState{}, extra: map[string]bool{}}
	for i, v := range x.logVars {
		if init, ok := a.helperInit[x.name]; ok {
			en.st[v] = init[i]
		} else {
			en.st[v] = lsNone
		}
	}
	if x.ctxType != "" {
		for _, f := range a.ctxFields[x.ctxType] {
			en.st[x.ctxRecv+"."+f] = a.ctxInit[x.ctxType]
		}
	}
	a.block(x, en, x.decl.Body.List)
}

// block processes statements in order; it returns the environment at the end and whether the end
// is unreachable (every path returned)
func (a *analysis) block(x *fn, en *env, stmts []ast.Stmt) (*env, bool) {
	for _, s := range stmts {
		var term bool
		en, term = a.stmt(x, en, s)
		if term {
			return en, true
		}
	}
	return en, false
}

func (a *analysis) stmt(x *fn, en *env, s ast.Stmt) (*env, bool) {
	switch t := s.(type) {
	case nil:
		return en, false
	case *ast.ExprStmt:
		if c, ok := t.X.(*ast.CallExpr); ok {
			if target, op := lockOp(c); op != "" {
				key := a.logKey(x, en, target)
				if op == "Lock" || op == "RLock" {
					if en.anyHeld() {
						a.awhs[awh{x.name, "lock." + op}] = true
					}
				}
				if key != "" {
					switch op {
					case "Lock":
						en.st[key] = lsW
					case "RLock":
						en.st[key] = lsR
					default:
						en.st[key] = lsNone
					}
				}
				return en, false
			}
			if id, ok := c.Fun.(*ast.Ident); ok && id.Name == "panic" {
				a.expr(x, en, t.X, false)
				return en, true
			}
		}
		a.expr(x, en, t.X, false)
	case *ast.DeferStmt:
		if _, op := lockOp(t.Call); op == "Unlock" || op == "RUnlock" {
			return en, false // released when the function returns
		}
		a.expr(x, en, t.Call, false)
	case *ast.GoStmt:
		a.expr(x, en, t.Call, false)
	case *ast.AssignStmt:
		for _, r := range t.Rhs {
			a.expr(x, en, r, false)
		}
		for _, l := range t.Lhs {
			a.expr(x, en, l, true)
		}
		// x := y.(*IPFSLog): a further log, nothing held on it
		if t.Tok == token.DEFINE && len(t.Rhs) == 1 {
			if ta, ok := t.Rhs[0].(*ast.TypeAssertExpr); ok && ta.Type != nil && isLogPtr(ta.Type) {
				if id, ok := t.Lhs[0].(*ast.Ident); ok && id.Name != "_" {
					en.extra[id.Name] = true
					if _, ok := en.st[id.Name]; !ok {
						en.st[id.Name] = lsNone
					}
				}
			}
		}
	case *ast.IncDecStmt:
		a.expr(x, en, t.X, true)
	case *ast.SendStmt:
		a.expr(x, en, t.Chan, false)
		a.expr(x, en, t.Value, false)
	case *ast.ReturnStmt:
		for _, r := range t.Results {
			a.expr(x, en, r, false)
		}
		return en, true
	case *ast.BranchStmt:
		// break / continue / goto: leaves this path; the loop handling takes the meet anyway
		return en, t.Tok == token.GOTO
	case *ast.BlockStmt:
		return a.block(x, en, t.List)
	case *ast.LabeledStmt:
		return a.stmt(x, en, t.Stmt)
	case *ast.DeclStmt:
		ast.Inspect(t, func(n ast.Node) bool {
			if vs, ok := n.(*ast.ValueSpec); ok {
				for _, v := range vs.Values {
					a.expr(x, en, v, false)
				}
			}
			return true
		})
	case *ast.IfStmt:
		en, _ = a.stmt(x, en, t.Init)
		a.expr(x, en, t.Cond, false)
		thenEnv, thenTerm := a.block(x, en.clone(), t.Body.List)
		elseEnv, elseTerm := en.clone(), false
		if t.Else != nil {
			elseEnv, elseTerm = a.stmt(x, en.clone(), t.Else)
		}
		switch {
		case thenTerm && elseTerm:
			return en, true
		case thenTerm:
			return elseEnv, false
		case elseTerm:
			return thenEnv, false
		default:
			return meetEnv(thenEnv, elseEnv), false
		}
	case *ast.ForStmt:
		en, _ = a.stmt(x, en, t.Init)
		if t.Cond != nil {
			a.expr(x, en, t.Cond, false)
		}
		bodyEnv, _ := a.block(x, en.clone(), t.Body.List)
		if t.Post != nil {
			bodyEnv, _ = a.stmt(x, bodyEnv, t.Post)
		}
		return meetEnv(en, bodyEnv), false
	case *ast.RangeStmt:
		a.expr(x, en, t.X, false)
		bodyEnv, _ := a.block(x, en.clone(), t.Body.List)
		return meetEnv(en, bodyEnv), false
	case *ast.SwitchStmt:
		en, _ = a.stmt(x, en, t.Init)
		if t.Tag != nil {
			a.expr(x, en, t.Tag, false)
		}
		return a.clauses(x, en, t.Body.List)
	case *ast.TypeSwitchStmt:
		en, _ = a.stmt(x, en, t.Init)
		en, _ = a.stmt(x, en, t.Assign)
		return a.clauses(x, en, t.Body.List)
	case *ast.SelectStmt:
		return a.clauses(x, en, t.Body.List)
	default:
		ast.Inspect(s, func(n ast.Node) bool {
			if e, ok := n.(ast.Expr); ok {
				a.expr(x, en, e, false)
				return false
			}
			return true
		})
	}
	return en, false
}

func (a *analysis) clauses(x *fn, en *env, list []ast.Stmt) (*env, bool) {
	res := en.clone() // no clause taken
	hasDefault := false
	allTerm := true
	var acc *env
	for _, c := range list {
		var body []ast.Stmt
		switch cc := c.(type) {
		case *ast.CaseClause:
			for _, e := range cc.List {
				a.expr(x, en, e, false)
			}
			if cc.List == nil {
				hasDefault = true
			}
			body = cc.Body
		case *ast.CommClause:
			ce := en.clone()
			ce, _ = a.stmt(x, ce, cc.Comm)
			if cc.Comm == nil {
				hasDefault = true
			}
			body = cc.Body
		}
		be, term := a.block(x, en.clone(), body)
		if !term {
			allTerm = false
			if acc == nil {
				acc = be
			} else {
				acc = meetEnv(acc, be)
			}
		}
	}
	if hasDefault && allTerm && len(list) > 0 {
		return en, true
	}
	if acc == nil {
		return res, false
	}
	if hasDefault {
		return acc, false
	}
	return meetEnv(res, acc), false
}

// expr walks an expression, recording field accesses and calls with the current lock state
func (a *analysis) expr(x *fn, en *env, e ast.Expr, isWrite bool) {
	switch t := e.(type) {
	case nil:
		return
	case *ast.SelectorExpr:
		if trackedFields[t.Sel.Name] {
			if key := a.logKey(x, en, t.X); key != "" {
				kind := "read"
				if isWrite {
					kind = "write"
				}
				a.facts[fact{x.name, t.Sel.Name, kind, en.st[key].String()}] = true
				return
			}
		}
		a.expr(x, en, t.X, false)
	case *ast.CallExpr:
		a.call(x, en, t)
	case *ast.FuncLit:
		// closures inherit the state of the point where they are written
		a.block(x, en.clone(), t.Body.List)
	case *ast.UnaryExpr:
		a.expr(x, en, t.X, t.Op == token.AND && a.isTrackedSel(x, en, t.X))
	case *ast.CompositeLit:
		a.composite(x, en, t)
	case *ast.ParenExpr:
		a.expr(x, en, t.X, isWrite)
	case *ast.StarExpr:
		a.expr(x, en, t.X, isWrite)
	case *ast.IndexExpr:
		a.expr(x, en, t.X, isWrite)
		a.expr(x, en, t.Index, false)
	case *ast.SliceExpr:
		a.expr(x, en, t.X, false)
		a.expr(x, en, t.Low, false)
		a.expr(x, en, t.High, false)
		a.expr(x, en, t.Max, false)
	case *ast.BinaryExpr:
		a.expr(x, en, t.X, false)
		a.expr(x, en, t.Y, false)
	case *ast.KeyValueExpr:
		a.expr(x, en, t.Value, false)
	case *ast.TypeAssertExpr:
		a.expr(x, en, t.X, false)
	}
}

func (a *analysis) isTrackedSel(x *fn, en *env, e ast.Expr) bool {
	s, ok := e.(*ast.SelectorExpr)
	return ok && trackedFields[s.Sel.Name] && a.logKey(x, en, s.X) != ""
}

func (a *analysis) composite(x *fn, en *env, c *ast.CompositeLit) {
	tn := ""
	if c.Type != nil {
		tn = typeString(c.Type)
	}
	for _, el := range c.Elts {
		if kv, ok := el.(*ast.KeyValueExpr); ok {
			if k, ok := kv.Key.(*ast.Ident); ok {
				for _, f := range a.ctxFields[tn] {
					if f == k.Name {
						if key := a.logKey(x, en, kv.Value); key != "" {
							a.ctxSites[tn] = append(a.ctxSites[tn], en.st[key])
						} else {
							a.ctxSites[tn] = append(a.ctxSites[tn], lsNone)
						}
					}
				}
			}
			a.expr(x, en, kv.Value, false)
		} else {
			a.expr(x, en, el, false)
		}
	}
}

func (a *analysis) call(x *fn, en *env, c *ast.CallExpr) {
	// a lock operation in expression position (unusual): only note acquisitions while holding
	if _, op := lockOp(c); op != "" {
		if (op == "Lock" || op == "RLock") && en.anyHeld() {
			a.awhs[awh{x.name, "lock." + op}] = true
		}
		return
	}
	switch f := c.Fun.(type) {
	case *ast.Ident:
		if callee, ok := a.fns[f.Name]; ok {
			a.noteCall(x, en, callee, nil, c.Args)
			if a.locking[f.Name] && en.anyHeld() {
				a.awhs[awh{x.name, f.Name}] = true
			}
		}
	case *ast.SelectorExpr:
		// method call on a tracked field: x.Entries.Set(..) writes the field, other methods read it
		if in, ok := f.X.(*ast.SelectorExpr); ok && trackedFields[in.Sel.Name] && a.logKey(x, en, in.X) != "" {
			w := mutatingMethods[f.Sel.Name] || mutatingMethods[f.Sel.Name+":"+in.Sel.Name]
			a.expr(x, en, in, w)
		} else {
			if a.isLogExpr(x, en, f.X) {
				if callee, ok := a.fns[f.Sel.Name]; ok && callee.recvIdx {
					a.noteCall(x, en, callee, f.X, c.Args)
				}
				if a.locking[f.Sel.Name] && en.anyHeld() {
					a.awhs[awh{x.name, f.Sel.Name}] = true
				}
			}
			a.expr(x, en, f.X, false)
		}
	default:
		a.expr(x, en, c.Fun, false)
	}
	for _, arg := range c.Args {
		a.expr(x, en, arg, false)
	}
}

// noteCall records, for a helper, the lock held on each of its log arguments at this call site
func (a *analysis) noteCall(x *fn, en *env, callee *fn, recv ast.Expr, args []ast.Expr) {
	if !a.isHelper(callee) {
		return
	}
	site := make([]lockState, len(callee.logVars))
	idx := 0
	if callee.recvIdx {
		if recv != nil {
			if key := a.logKey(x, en, recv); key != "" {
				site[0] = en.st[key]
			}
		}
		idx = 1
	}
	// parameters of type *IPFSLog, in declaration order
	pi := 0
	for _, p := range callee.decl.Type.Params.List {
		n := len(p.Names)
		if n == 0 {
			n = 1
		}
		for k := 0; k < n; k++ {
			if isLogPtr(p.Type) && idx < len(site) {
				if pi < len(args) {
					if key := a.logKey(x, en, args[pi]); key != "" {
						site[idx] = en.st[key]
					}
				}
				idx++
			}
			pi++
		}
	}
	a.callSites[callee.name] = append(a.callSites[callee.name], site)
}

func q(s string) string { return "\"" + s + "\"" }

func (a *analysis) render() string {
	var fs []fact
	for f := range a.facts {
		fs = append(fs, f)
	}
	sort.Slice(fs, func(i, j int) bool {
		x, y := fs[i], fs[j]
		if x.fn != y.fn {
			return x.fn < y.fn
		}
		if x.field != y.field {
			return x.field < y.field
		}
		if x.kind != y.kind {
			return x.kind < y.kind
		}
		return x.lock < y.lock
	})
	var as []awh
	for f := range a.awhs {
		as = append(as, f)
	}
	sort.Slice(as, func(i, j int) bool {
		if as[i].fn != as[j].fn {
			return as[i].fn < as[j].fn
		}
		return as[i].callee < as[j].callee
	})
	mut := map[string]bool{}
	for _, f := range fs {
		if f.kind == "write" {
			mut[f.field] = true
		}
	}
	var muts []string
	for m := range mut {
		muts = append(muts, m)
	}
	sort.Strings(muts)
	var locks []string
	for m := range a.locking {
		locks = append(locks, m)
	}
	sort.Strings(locks)
	var helpers []string
	for name, init := range a.helperInit {
		parts := []string{}
		for _, s := range init {
			parts = append(parts, s.String())
		}
		helpers = append(helpers, fmt.Sprintf("(%s, %s)", q(name), q(strings.Join(parts, ","))))
	}
	for t, s := range a.ctxInit {
		helpers = append(helpers, fmt.Sprintf("(%s, %s)", q(t+"{}"), q(s.String())))
	}
	sort.Strings(helpers)

	var b strings.Builder
	b.WriteString("/-! GENERATED by harness/cmd/extract from the Go sources of package ipfslog — do not edit.\n")
	b.WriteString("    (function, field, access, lock held on that log) / (function, callee) — see DESIGN.md §6. -/\n")
	b.WriteString("namespace Generated\n\n")
	b.WriteString("def lockFacts : List (String × String × String × String) := [\n")
	for i, f := range fs {
		sep := ","
		if i == len(fs)-1 {
			sep = ""
		}
		fmt.Fprintf(&b, "  (%s, %s, %s, %s)%s\n", q(f.fn), q(f.field), q(f.kind), q(f.lock), sep)
	}
	b.WriteString("]\n\n")
	fmt.Fprintf(&b, "def mutableFields : List String := [%s]\n\n", joinQ(muts))
	fmt.Fprintf(&b, "def lockingMethods : List String := [%s]\n\n", joinQ(locks))
	b.WriteString("/-- lock assumed at the entry of the helpers (weakest over their call sites) -/\n")
	fmt.Fprintf(&b, "def helperLocks : List (String × String) := [%s]\n\n", strings.Join(helpers, ", "))
	b.WriteString("def acquireWhileHolding : List (String × String) := [\n")
	for i, f := range as {
		sep := ","
		if i == len(as)-1 {
			sep = ""
		}
		fmt.Fprintf(&b, "  (%s, %s)%s\n", q(f.fn), q(f.callee), sep)
	}
	b.WriteString("]\n\nend Generated\n")
	return b.String()
}

func joinQ(xs []string) string {
	var out []string
	for _, x := range xs {
		out = append(out, q(x))
	}
	return strings.Join(out, ", ")
}
