package main

// A tiny translator from the pure comparison code of the library to Lean: entry/sorting/sorting.go
// (SortByClocks, SortByClockID, First, FirstWriteWins, LastWriteWins, SortByEntryHash, NoZeroes),
// entry/lamportclock.go (LamportClock.Compare) and log.go (maxInt, minInt).  The output,
// lean/Generated/Sorting.lean, is what the code SAYS; Props/C19Gen.lean proves it equal to the
// hand-written model the theorems of C19/C03 are about.  Anything outside the small subset below makes
// the translation fail loudly (the generated file then does not compile: an obligation violation).
//
//   types       iface.IPFSLogEntry → Entry      func(a, b Entry) (int, error) → Entry → Entry → Option Int
//               (int, error) → Option Int       iface.IPFSLogLamportClock / *LamportClock → Clock    int → Int
//   statements  x := e      x, err := f(…) followed by `if err != nil { return 0, … }`      if c { … return }
//               return e, nil      return 0, <error>      return f(…)      x := func(…) … { … }
//   expressions identifiers, integer literals, == != < > <= >= * unary -, calls of translated functions,
//               parameters and local closures, and the accessors
//               X.GetClock().Compare(Y.GetClock())  X.GetClock().GetID()  X.GetClock().GetTime()
//               X.GetHash().String()  bytes.Compare  strings.Compare  l.Time  l.ID  b.GetTime()  b.GetID()

import (
	"fmt"
	"go/ast"
	"go/parser"
	"go/token"
	"path/filepath"
	"strings"
)

type translator struct {
	fset   *token.FileSet
	errs   []string
	pairFn map[string]bool // names (functions, params, closures) returning (int, error)
}

func lowerFirst(s string) string {
	if s == "" {
		return s
	}
	return strings.ToLower(s[:1]) + s[1:]
}

func (t *translator) fail(n ast.Node, why string) string {
	msg := fmt.Sprintf("%s: %s", why, src(t.fset, n))
	t.errs = append(t.errs, msg)
	return "(untranslatable)"
}

func (t *translator) expr(e ast.Expr) string {
	switch x := e.(type) {
	case *ast.ParenExpr:
		return "(" + t.expr(x.X) + ")"
	case *ast.Ident:
		if x.Name == "nil" {
			return t.fail(e, "nil outside an error position")
		}
		return lowerFirst(x.Name)
	case *ast.BasicLit:
		if x.Kind == token.INT {
			return x.Value
		}
		return t.fail(e, "literal")
	case *ast.UnaryExpr:
		if x.Op == token.SUB {
			return "(-" + t.expr(x.X) + ")"
		}
		return t.fail(e, "unary operator")
	case *ast.BinaryExpr:
		op := map[token.Token]string{token.EQL: "=", token.NEQ: "≠", token.LSS: "<", token.GTR: ">", token.LEQ: "≤",
			token.GEQ: "≥", token.MUL: "*", token.ADD: "+", token.SUB: "-"}[x.Op]
		if op == "" {
			return t.fail(e, "binary operator")
		}
		return "(" + t.expr(x.X) + " " + op + " " + t.expr(x.Y) + ")"
	case *ast.SelectorExpr:
		s := selChain(x)
		switch {
		case strings.HasSuffix(s, ".Time"):
			return lowerFirst(strings.TrimSuffix(s, ".Time")) + ".time"
		case strings.HasSuffix(s, ".ID"):
			return lowerFirst(strings.TrimSuffix(s, ".ID")) + ".id"
		}
		return t.fail(e, "selector")
	case *ast.CallExpr:
		s := selChain(x.Fun)
		switch {
		case strings.HasSuffix(s, ".GetClock().Compare") && len(x.Args) == 1:
			a := strings.TrimSuffix(s, ".GetClock().Compare")
			b := selChain(x.Args[0])
			if strings.HasSuffix(b, ".GetClock()") && !strings.Contains(a, ".") {
				return "(clockCompare " + lowerFirst(a) + ".clock " + lowerFirst(strings.TrimSuffix(b, ".GetClock()")) + ".clock)"
			}
		case strings.HasSuffix(s, ".GetClock().GetID") && len(x.Args) == 0:
			return lowerFirst(strings.TrimSuffix(s, ".GetClock().GetID")) + ".clock.id"
		case strings.HasSuffix(s, ".GetClock().GetTime") && len(x.Args) == 0:
			return lowerFirst(strings.TrimSuffix(s, ".GetClock().GetTime")) + ".clock.time"
		case strings.HasSuffix(s, ".GetHash().String") && len(x.Args) == 0:
			return lowerFirst(strings.TrimSuffix(s, ".GetHash().String")) + ".hash"
		case strings.HasSuffix(s, ".GetTime") && len(x.Args) == 0 && strings.Count(s, ".") == 1:
			return lowerFirst(strings.TrimSuffix(s, ".GetTime")) + ".time"
		case strings.HasSuffix(s, ".GetID") && len(x.Args) == 0 && strings.Count(s, ".") == 1:
			return lowerFirst(strings.TrimSuffix(s, ".GetID")) + ".id"
		case (s == "bytes.Compare" || s == "strings.Compare") && len(x.Args) == 2:
			return "(cmpBytes " + t.expr(x.Args[0]) + " " + t.expr(x.Args[1]) + ")"
		}
		if id, ok := x.Fun.(*ast.Ident); ok {
			parts := []string{lowerFirst(id.Name)}
			for _, a := range x.Args {
				parts = append(parts, t.expr(a))
			}
			return "(" + strings.Join(parts, " ") + ")"
		}
		return t.fail(e, "call")
	case *ast.FuncLit:
		return t.funcLit(x)
	}
	return t.fail(e, "expression")
}

func isNil(e ast.Expr) bool {
	id, ok := e.(*ast.Ident)
	return ok && id.Name == "nil"
}

func (t *translator) params(ft *ast.FuncType) string {
	var ps []string
	for _, f := range ft.Params.List {
		ty := typeString(f.Type)
		var lty string
		switch {
		case ty == "iface.IPFSLogEntry":
			lty = "Entry"
		case ty == "iface.IPFSLogLamportClock" || ty == "*LamportClock":
			lty = "Clock"
		case ty == "int":
			lty = "Int"
		default:
			if _, ok := f.Type.(*ast.FuncType); ok {
				lty = "Entry → Entry → Option Int"
				for _, n := range f.Names {
					t.pairFn[lowerFirst(n.Name)] = true
				}
			} else {
				lty = t.fail(f.Type, "parameter type")
			}
		}
		for _, n := range f.Names {
			name := lowerFirst(n.Name)
			if n.Name == "_" {
				name = "_"
			}
			ps = append(ps, "("+name+" : "+lty+")")
		}
	}
	return strings.Join(ps, " ")
}

func returnsPair(ft *ast.FuncType) bool {
	return ft.Results != nil && len(ft.Results.List) == 2
}

func (t *translator) funcLit(f *ast.FuncLit) string {
	return "(fun " + t.params(f.Type) + " => " + t.block(f.Body.List, returnsPair(f.Type)) + ")"
}

// block translates a statement list that ends in a return on every path
func (t *translator) block(stmts []ast.Stmt, pair bool) string {
	if len(stmts) == 0 {
		return t.fail(&ast.BlockStmt{}, "function falls off its end")
	}
	st, rest := stmts[0], stmts[1:]
	switch x := st.(type) {
	case *ast.ReturnStmt:
		if pair {
			if len(x.Results) == 1 { // return f(…)
				return t.expr(x.Results[0])
			}
			if len(x.Results) == 2 {
				if isNil(x.Results[1]) {
					return "(some " + t.expr(x.Results[0]) + ")"
				}
				return "none" // an error return
			}
			return t.fail(st, "return")
		}
		if len(x.Results) == 1 {
			return t.expr(x.Results[0])
		}
		return t.fail(st, "return")
	case *ast.AssignStmt:
		if x.Tok != token.DEFINE {
			return t.fail(st, "assignment")
		}
		if len(x.Lhs) == 1 && len(x.Rhs) == 1 {
			name := lowerFirst(selChain(x.Lhs[0]))
			if fl, ok := x.Rhs[0].(*ast.FuncLit); ok && returnsPair(fl.Type) {
				t.pairFn[name] = true
			}
			return "(let " + name + " := " + t.expr(x.Rhs[0]) + "; " + t.block(rest, pair) + ")"
		}
		if len(x.Lhs) == 2 && len(x.Rhs) == 1 && selChain(x.Lhs[1]) == "err" {
			// v, err := f(…); if err != nil { return 0, … }
			if len(rest) == 0 {
				return t.fail(st, "error not handled")
			}
			ifs, ok := rest[0].(*ast.IfStmt)
			if !ok || src(t.fset, ifs.Cond) != "err != nil" || len(ifs.Body.List) != 1 {
				return t.fail(st, "error not handled by an immediate `if err != nil`")
			}
			ret, ok := ifs.Body.List[0].(*ast.ReturnStmt)
			if !ok || len(ret.Results) != 2 || isNil(ret.Results[1]) {
				return t.fail(ifs, "error branch must return an error")
			}
			return "(match " + t.expr(x.Rhs[0]) + " with | none => none | some " + lowerFirst(selChain(x.Lhs[0])) + " => " + t.block(rest[1:], pair) + ")"
		}
		return t.fail(st, "assignment")
	case *ast.IfStmt:
		if x.Init != nil {
			return t.fail(st, "if with init")
		}
		if x.Else != nil {
			// if c { … return } else { … return }: both branches return, nothing follows
			var els []ast.Stmt
			switch e := x.Else.(type) {
			case *ast.BlockStmt:
				els = e.List
			case *ast.IfStmt:
				els = []ast.Stmt{e}
			}
			return "(if " + t.expr(x.Cond) + " then " + t.block(x.Body.List, pair) + " else " + t.block(append(append([]ast.Stmt{}, els...), rest...), pair) + ")"
		}
		return "(if " + t.expr(x.Cond) + " then " + t.block(x.Body.List, pair) + " else " + t.block(rest, pair) + ")"
	case *ast.SwitchStmt:
		if chain := switchToIf(x); chain != nil {
			return t.block(append([]ast.Stmt{chain}, rest...), pair)
		}
		return t.fail(st, "switch")
	}
	return t.fail(st, "statement")
}

func (t *translator) funcDecl(fd *ast.FuncDecl, leanName string) string {
	pair := returnsPair(fd.Type)
	ps := t.params(fd.Type)
	if fd.Recv != nil && len(fd.Recv.List) == 1 && len(fd.Recv.List[0].Names) == 1 {
		ps = "(" + lowerFirst(fd.Recv.List[0].Names[0].Name) + " : Clock) " + ps
	}
	ret := "Int"
	if pair {
		ret = "Option Int"
		t.pairFn[leanName] = true
	}
	if fd.Type.Results != nil && len(fd.Type.Results.List) == 1 {
		if _, ok := fd.Type.Results.List[0].Type.(*ast.FuncType); ok {
			ret = "Entry → Entry → Option Int"
		}
	}
	body := t.block(fd.Body.List, pair)
	return fmt.Sprintf("def %s %s : %s :=\n  %s\n", leanName, ps, ret, body)
}

func renderTranslation(repo string) string {
	t := &translator{fset: token.NewFileSet(), pairFn: map[string]bool{}}
	var b strings.Builder
	b.WriteString("import Model.Sorting\n/-! GENERATED by harness/cmd/extract/translate.go from entry/lamportclock.go, entry/sorting/sorting.go and\n    log.go — do not edit.  What the comparison code of the library says, as Lean definitions. -/\nnamespace Generated.Go\nopen Model\n\n")
	type job struct {
		file  string
		names []string
	}
	for _, j := range []job{
		{"entry/lamportclock.go", []string{"Compare"}},
		{"log.go", []string{"maxInt", "minInt"}},
		{"entry/sorting/sorting.go", []string{"SortByClocks", "SortByClockID", "First", "LastWriteWins", "FirstWriteWins", "SortByEntryHash", "NoZeroes"}},
	} {
		f, err := parser.ParseFile(t.fset, filepath.Join(repo, j.file), nil, parser.SkipObjectResolution)
		if err != nil {
			t.errs = append(t.errs, err.Error())
			continue
		}
		decls := map[string]*ast.FuncDecl{}
		for _, d := range f.Decls {
			if fd, ok := d.(*ast.FuncDecl); ok && fd.Body != nil {
				decls[fd.Name.Name] = fd
			}
		}
		for _, n := range j.names {
			fd, ok := decls[n]
			if !ok {
				t.errs = append(t.errs, "function "+n+" not found in "+j.file)
				continue
			}
			name := lowerFirst(n)
			if n == "Compare" {
				name = "clockCompare"
			}
			fmt.Fprintf(&b, "/-- `%s` (%s) -/\n%s\n", n, j.file, t.funcDecl(fd, name))
		}
	}
	for _, e := range t.errs {
		fmt.Fprintf(&b, "-- UNTRANSLATABLE: %s\n", e)
	}
	if len(t.errs) > 0 {
		b.WriteString("\n/-- the translation failed (see above): this definition does not elaborate -/\ndef translationFailed : Nat := (untranslatable : Nat)\n")
	}
	b.WriteString("\nend Generated.Go\n")
	return b.String()
}
