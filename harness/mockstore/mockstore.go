// Package mockstore is an in-memory replacement for the kubo node: only Dag() and Pin()
// of coreiface.CoreAPI are implemented, which is all go-ipfs-log uses.
package mockstore

import (
	"context"
	"errors"
	"sync"

	"github.com/ipfs/boxo/path"
	"github.com/ipfs/go-cid"
	ipld "github.com/ipfs/go-ipld-format"
	coreiface "github.com/ipfs/kubo/core/coreiface"
	"github.com/ipfs/kubo/core/coreiface/options"
)

// FaultKind says how a Get on a block misbehaves.
type FaultKind int

const (
	FaultNone FaultKind = iota
	FaultAbsent
	FaultError
	FaultCorrupt
	FaultSlow // blocks until released or the context ends
)

type Dag struct {
	mu     sync.Mutex
	Blocks map[cid.Cid]ipld.Node
	Adds   []cid.Cid // every Add in order (the write log)
	Gets   []cid.Cid // every Get in order (the request log)
	Faults map[cid.Cid]FaultKind
	// Gate, when non-nil, is called (outside the lock) before a Get returns; it may block.
	Gate func(ctx context.Context, c cid.Cid)
	// OnAdd, when non-nil, is called after every Add (with the lock released).
	OnAdd func(c cid.Cid, n int)
	// FailNext: this many of the next Add calls fail without storing anything (a store outage); FailedAdds counts them
	FailNext   int
	FailedAdds int
	// OnRemove, when non-nil, is called after every Remove.
	OnRemove func(c cid.Cid)
	Removes  []cid.Cid
	// Corrupt is what a FaultCorrupt block returns.
	Corrupt func(c cid.Cid) ipld.Node
}

var ErrInjected = errors.New("mockstore: injected read error")

func (m *Dag) Get(ctx context.Context, c cid.Cid) (ipld.Node, error) {
	m.mu.Lock()
	m.Gets = append(m.Gets, c)
	n, ok := m.Blocks[c]
	f := m.Faults[c]
	gate := m.Gate
	m.mu.Unlock()
	if gate != nil {
		gate(ctx, c)
	}
	switch f {
	case FaultAbsent:
		return nil, ipld.ErrNotFound{Cid: c}
	case FaultError:
		return nil, ErrInjected
	case FaultCorrupt:
		if m.Corrupt != nil {
			return m.Corrupt(c), nil
		}
		return nil, ErrInjected
	case FaultSlow:
		<-ctx.Done()
		return nil, ctx.Err()
	}
	if err := ctx.Err(); err != nil {
		return nil, err
	}
	if !ok {
		return nil, ipld.ErrNotFound{Cid: c}
	}
	return n, nil
}

func (m *Dag) GetMany(ctx context.Context, cs []cid.Cid) <-chan *ipld.NodeOption {
	panic("mockstore: GetMany not used by go-ipfs-log")
}

func (m *Dag) Add(ctx context.Context, n ipld.Node) error {
	m.mu.Lock()
	if m.FailNext > 0 {
		// an outage: the write is refused and nothing is stored
		m.FailNext--
		m.FailedAdds++
		m.mu.Unlock()
		return errors.New("mockstore: block store unavailable")
	}
	m.Blocks[n.Cid()] = n
	m.Adds = append(m.Adds, n.Cid())
	cnt := len(m.Adds)
	cb := m.OnAdd
	m.mu.Unlock()
	if cb != nil {
		cb(n.Cid(), cnt)
	}
	return nil
}

func (m *Dag) AddMany(ctx context.Context, ns []ipld.Node) error {
	for _, n := range ns {
		if err := m.Add(ctx, n); err != nil {
			return err
		}
	}
	return nil
}
func (m *Dag) Remove(ctx context.Context, c cid.Cid) error {
	m.mu.Lock()
	delete(m.Blocks, c)
	m.Removes = append(m.Removes, c)
	cb := m.OnRemove
	m.mu.Unlock()
	if cb != nil {
		cb(c)
	}
	return nil
}
func (m *Dag) RemoveMany(ctx context.Context, cs []cid.Cid) error {
	for _, c := range cs {
		_ = m.Remove(ctx, c)
	}
	return nil
}
func (m *Dag) Pinning() ipld.NodeAdder                           { return m }

// Snapshot returns a copy of the block map restricted to the first n writes.
func (m *Dag) Snapshot(n int) *Dag {
	m.mu.Lock()
	defer m.mu.Unlock()
	out := &Dag{Blocks: map[cid.Cid]ipld.Node{}, Faults: map[cid.Cid]FaultKind{}}
	for i := 0; i < n && i < len(m.Adds); i++ {
		c := m.Adds[i]
		out.Blocks[c] = m.Blocks[c]
		out.Adds = append(out.Adds, c)
	}
	return out
}

func (m *Dag) SetFailNext(n int) { m.mu.Lock(); m.FailNext = n; m.mu.Unlock() }
func (m *Dag) NumAdds() int { m.mu.Lock(); defer m.mu.Unlock(); return len(m.Adds) }
func (m *Dag) ResetGets()   { m.mu.Lock(); m.Gets = nil; m.mu.Unlock() }
func (m *Dag) GetLog() []cid.Cid {
	m.mu.Lock()
	defer m.mu.Unlock()
	return append([]cid.Cid(nil), m.Gets...)
}
func (m *Dag) Raw(c cid.Cid) ([]byte, bool) {
	m.mu.Lock()
	defer m.mu.Unlock()
	n, ok := m.Blocks[c]
	if !ok {
		return nil, false
	}
	return n.RawData(), true
}

type pinAPI struct{ coreiface.PinAPI }

func (pinAPI) Add(context.Context, path.Path, ...options.PinAddOption) error { return nil }

type API struct {
	coreiface.CoreAPI
	D *Dag
}

func (a *API) Dag() coreiface.APIDagService { return a.D }
func (a *API) Pin() coreiface.PinAPI        { return pinAPI{} }

func New() *API {
	return &API{D: &Dag{Blocks: map[cid.Cid]ipld.Node{}, Faults: map[cid.Cid]FaultKind{}}}
}

// WithDag wraps an existing Dag.
func WithDag(d *Dag) *API { return &API{D: d} }
