// Package hx holds helpers shared by the harness streams.
package hx

import (
	"context"
	"encoding/hex"
	"math/rand"

	ds "github.com/ipfs/go-datastore"
	dssync "github.com/ipfs/go-datastore/sync"
	"github.com/libp2p/go-libp2p/core/crypto"

	idp "berty.tech/go-ipfs-log/identityprovider"
	"berty.tech/go-ipfs-log/keystore"
)

// DetKey derives a secp256k1 private key from the PRNG (so that runs replay exactly).
func DetKey(r *rand.Rand) crypto.PrivKey {
	for {
		b := make([]byte, 32)
		for i := range b {
			b[i] = byte(r.Intn(256))
		}
		k, err := crypto.UnmarshalSecp256k1PrivateKey(b)
		if err == nil {
			return k
		}
	}
}

type Idents struct {
	Store ds.Datastore
	KS    *keystore.Keystore
	R     *rand.Rand
}

func NewIdents(r *rand.Rand) *Idents {
	d := dssync.MutexWrap(ds.NewMapDatastore())
	ks, err := keystore.NewKeystore(d)
	if err != nil {
		panic(err)
	}
	return &Idents{Store: d, KS: ks, R: r}
}

// Identity creates (deterministically) the identity named name.
func (s *Idents) Identity(name string) *idp.Identity {
	ctx := context.Background()
	if ok, _ := s.Store.Has(ctx, ds.NewKey(name)); !ok {
		k1 := DetKey(s.R)
		raw1, _ := k1.Raw()
		if err := s.Store.Put(ctx, ds.NewKey(name), raw1); err != nil {
			panic(err)
		}
		pub1, _ := k1.GetPublic().Raw()
		id := hex.EncodeToString(pub1)
		k2 := DetKey(s.R)
		raw2, _ := k2.Raw()
		if err := s.Store.Put(ctx, ds.NewKey(id), raw2); err != nil {
			panic(err)
		}
	}
	i, err := idp.CreateIdentity(ctx, &idp.CreateIdentityOptions{Keystore: s.KS, ID: name, Type: "orbitdb"})
	if err != nil {
		panic(err)
	}
	return i
}
