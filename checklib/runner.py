"""Runner behind ./check (python3, stdlib only)."""
import glob
import fcntl, json, os, re, shutil, subprocess, sys, time, hashlib
from concurrent.futures import ThreadPoolExecutor

VERIF = os.path.dirname(os.path.dirname(os.path.abspath(__file__)))
LEAN = os.path.join(VERIF, "lean")
HARN = os.path.join(VERIF, "harness")
BUILD = os.path.join(VERIF, ".build")
REPLAYS = os.path.join(VERIF, "replays")
EVID = os.path.join(VERIF, "evidence")
REPO = os.environ.get("VERIF_REPO", "/repo")
ALLOWED_AXIOMS = {"propext", "Classical.choice", "Quot.sound"}
FORBIDDEN = re.compile(r"\b(sorry|admit|native_decide|bv_decide|implemented_by|unsafe)\b|^\s*axiom\s|maxHeartbeats\s+0")

sys.path.insert(0, os.path.dirname(os.path.abspath(__file__)))
from props import PROPS  # noqa: E402
import manifest as manifest_mod  # noqa: E402

GOENV = dict(os.environ, GOFLAGS="-mod=mod", GOPROXY="off", GOSUMDB="off", GOTOOLCHAIN="local",
             CGO_ENABLED=os.environ.get("CGO_ENABLED", "1"))


def sh(cmd, cwd=None, env=None, timeout=None, stdin=None, stdout=subprocess.PIPE):
    p = subprocess.run(cmd, cwd=cwd, env=env, timeout=timeout, stdin=stdin, stdout=stdout,
                       stderr=subprocess.STDOUT, text=True)
    return p.returncode, p.stdout if stdout == subprocess.PIPE else ""


class Lock:
    def __init__(self, path):
        self.path = path
    def __enter__(self):
        os.makedirs(os.path.dirname(self.path), exist_ok=True)
        self.f = open(self.path, "w")
        fcntl.flock(self.f, fcntl.LOCK_EX)
    def __exit__(self, *a):
        fcntl.flock(self.f, fcntl.LOCK_UN)
        self.f.close()


# ---------------------------------------------------------------------------------------- Lean

def strip_comments(src):
    src = re.sub(r"/-.*?-/", "", src, flags=re.S)
    return "\n".join(l.split("--")[0] for l in src.splitlines())


def forbidden_hits():
    hits = []
    for d in ("Model", "Proofs", "Props", "Driver", "Generated", "Audit"):
        for root, _, files in os.walk(os.path.join(LEAN, d)):
            for fn in files:
                if fn.endswith(".lean"):
                    p = os.path.join(root, fn)
                    for i, l in enumerate(strip_comments(open(p).read()).splitlines(), 1):
                        if FORBIDDEN.search(l):
                            hits.append(f"{os.path.relpath(p, LEAN)}:{i}: {l.strip()}")
    return hits


def run_extractor():
    """Regenerate lean/Generated/Facts.lean from /repo (go/ast extractor)."""
    ext = os.path.join(HARN, "cmd", "extract")
    if not os.path.isdir(ext):
        return True, ""
    shutil.copy(os.path.join(REPO, "go.sum"), os.path.join(HARN, "go.sum"))
    exe = os.path.join(BUILD, "extract")
    rc, out = sh(["go", "build", "-o", exe, "./cmd/extract"], cwd=HARN, env=GOENV, timeout=600)
    if rc != 0:
        return False, "extractor build failed:\n" + out
    rc, out = sh([exe, "-repo", REPO, "-out", os.path.join(LEAN, "Generated", "Facts.lean")], timeout=120)
    return rc == 0, out


def lean_phase(pid, tier):
    """Returns dict(obligations, discharged, problems[list of str], theorems[list], wall)."""
    t0 = time.time()
    res = dict(obligations=0, discharged=0, problems=[], theorems=[], axioms={}, leanchecker=None)
    with Lock(os.path.join(BUILD, "lean.lock")):
        ok, out = run_extractor()
        if not ok:
            res["problems"].append("facts: " + out[-2000:])
        targets = ["modeldriver"]
        if os.path.exists(os.path.join(LEAN, "Props", pid + ".lean")):
            targets.append("Props." + pid)
        targets += PROPS[pid].get("extra_targets", [])
        rc, out = sh(["lake", "build"] + targets, cwd=LEAN, timeout=3000)
        if rc != 0:
            errs = [l for l in out.splitlines() if "error" in l][:20]
            res["problems"].append("lake build failed: " + " | ".join(errs))
            res["build_log"] = out[-6000:]
        audit = os.path.join(LEAN, "Audit", pid + ".lean")
        # further audit files of the property (theorems living in a module that cannot be imported together
        # with Props.<pid>): Audit/<pid>_*.lean
        audits = [audit] + sorted(glob.glob(os.path.join(LEAN, "Audit", pid + "_*.lean")))
        if rc == 0 and os.path.exists(audit):
            for au in audits:
                rc2, out2 = sh(["lake", "env", "lean", au], cwd=LEAN, timeout=1200)
                names = re.findall(r"^#print axioms\s+(\S+)", open(au).read(), flags=re.M)
                res["obligations"] += len(names)
                before = res["discharged"]
                for m in re.finditer(r"'([^']+)' depends on axioms: \[([^\]]*)\]", out2.replace("\n ", " ")):
                    ax = {a.strip() for a in m.group(2).split(",") if a.strip()}
                    res["axioms"][m.group(1)] = sorted(ax)
                    if ax <= ALLOWED_AXIOMS:
                        res["discharged"] += 1
                    else:
                        res["problems"].append(f"theorem {m.group(1)} depends on axioms {sorted(ax - ALLOWED_AXIOMS)}")
                for m in re.finditer(r"'([^']+)' does not depend on any axioms", out2):
                    res["axioms"][m.group(1)] = []
                    res["discharged"] += 1
                res["theorems"] += names
                if rc2 != 0 or res["discharged"] - before != len(names):
                    res["problems"].append("audit incomplete (" + os.path.basename(au) + "): " + out2[-1500:])
        elif rc == 0:
            res["problems"].append("no Audit file for " + pid)
        hits = forbidden_hits()
        if hits:
            res["problems"].append("forbidden tokens: " + "; ".join(hits[:10]))
        if tier == "thorough" and rc == 0 and os.path.exists(os.path.join(LEAN, "Props", pid + ".lean")):
            rc3, out3 = sh(["lake", "env", "leanchecker", "Props." + pid], cwd=LEAN, timeout=3000)
            res["leanchecker"] = "ok" if rc3 == 0 else out3[-800:]
            if rc3 != 0:
                res["problems"].append("leanchecker failed: " + out3[-800:])
    res["wall"] = time.time() - t0
    return res


# ------------------------------------------------------------------------------------- harness

def build_harness(workdir):
    with Lock(os.path.join(BUILD, "go.lock")):
        shutil.copy(os.path.join(REPO, "go.sum"), os.path.join(HARN, "go.sum"))
        exe = os.path.join(workdir, "harness")
        rc, out = sh(["go", "build", "-tags", "verif", "-o", exe, "./cmd/harness"], cwd=HARN, env=GOENV, timeout=1800)
    return (exe if rc == 0 else None), out


DRIVER = os.path.join(LEAN, ".lake", "build", "bin", "modeldriver")


def run_shard(exe, workdir, stream, args, seed, shard, extra=None, timeout=3000):
    """Run the harness for one shard and replay its trace on the model. Handles harness crashes by
    restarting after the crashed case (the crash is recorded)."""
    tag = f"{stream}.{shard}"
    trace = os.path.join(workdir, tag + ".trace")
    stats = os.path.join(workdir, tag + ".stats")
    res = dict(stream=stream, seed=seed, shard=shard, diffs=[], specs=[], known=[], warns=[], summary={}, crashes=[], stats={},
               trace=trace, args=args)
    start = 0
    open(trace, "w").close()
    attempts = 0
    env = dict(os.environ, GOMEMLIMIT="3GiB", GOTRACEBACK="single")
    while True:
        attempts += 1
        part = trace + ".part"
        cmd = [exe, stream, "-seed", str(seed), "-out", part, "-stats", stats, "-start", str(start)] + args + (extra or [])
        try:
            rc, out = sh(cmd, env=env, timeout=timeout)
        except subprocess.TimeoutExpired:
            rc, out = 124, "timeout"
        if os.path.exists(part):
            with open(trace, "a") as f, open(part) as g:
                shutil.copyfileobj(g, f)
        if rc == 0:
            break
        # crashed: find the case that was running
        last_case, last_op = start, ""
        if os.path.exists(part):
            for l in open(part):
                if l.startswith("H "):
                    try:
                        last_case = int(l.split()[1])
                    except Exception:
                        pass
                elif l[:1].isalpha():
                    last_op = l.strip()[:200]
        res["crashes"].append(dict(case=last_case, rc=rc, last_op=last_op, output=out[-3000:]))
        with open(trace, "a") as f:
            f.write(f"CRASH {last_case} rc={rc}\n")
        start = last_case + 1
        if attempts > 6:
            break
    if os.path.exists(trace + ".part"):
        os.remove(trace + ".part")
    if os.path.exists(stats):
        try:
            res["stats"] = json.load(open(stats))
        except Exception:
            pass
    # model replay
    with open(trace) as f:
        try:
            rc, out = sh([DRIVER, stream], stdin=f, timeout=timeout)
        except subprocess.TimeoutExpired:
            rc, out = 124, ""
    if rc != 0:
        res["warns"].append(f"model driver exit {rc}: {out[-500:]}")
    for l in out.splitlines():
        if l.startswith("DIFF "):
            res["diffs"].append(l)
        elif l.startswith("SPEC "):
            res["specs"].append(l)
        elif l.startswith("KNOWN "):
            res["known"].append(l)
        elif l.startswith("WARN "):
            res["warns"].append(l)
        elif l.startswith("SUMMARY "):
            for tok in l.split()[1:]:
                if "=" in tok:
                    k, v = tok.rsplit("=", 1)
                    try:
                        res["summary"][k] = int(v)
                    except ValueError:
                        pass
    if "lines" not in res["summary"]:
        res["warns"].append("model driver produced no SUMMARY")
    return res


def race_stress(workdir, cfg, tier, seed):
    """Free-running stress of one log under the Go race detector. Returns (ok, report, ops)."""
    rs = cfg.get("race_stress")
    if not rs:
        return True, "", 0
    with Lock(os.path.join(BUILD, "go.lock")):
        exe = os.path.join(workdir, "harness.race")
        rc, out = sh(["go", "build", "-race", "-tags", "verif", "-o", exe, "./cmd/harness"], cwd=HARN, env=GOENV, timeout=1800)
    if rc != 0:
        return False, "race build failed: " + out[-1500:], 0
    ms = rs["ms_" + tier]
    env = dict(os.environ, GORACE="halt_on_error=0 exitcode=66", GOMEMLIMIT="3GiB")
    try:
        rc, out = sh([exe, rs["stream"], "-seed", str(seed), "-n", str(ms), "-out", os.devnull,
                      "-stats", os.path.join(workdir, "race.stats")], env=env, timeout=ms / 1000 + 120)
    except subprocess.TimeoutExpired:
        return False, "race stress did not terminate (deadlock?)", 0
    ops = 0
    try:
        ops = json.load(open(os.path.join(workdir, "race.stats"))).get("Ops", 0)
    except Exception:
        pass
    if "SEMANTIC VIOLATION" in out:
        i = out.find("SEMANTIC VIOLATION")
        return False, out[i:i + 1500], ops
    if "DATA RACE" in out or rc == 66:
        i = out.find("WARNING: DATA RACE")
        return False, out[i:i + 3000], ops
    if rc != 0:
        return False, f"race stress exited {rc}: " + out[-1500:], ops
    return True, "", ops


def case_of(line):
    m = re.search(r"\b(?:hist|case)=(\d+)", line)
    return int(m.group(1)) if m else None


def excerpt(trace, case, limit=400):
    """Lines of one case (H <case> ... next H) of a trace."""
    out, on = [], False
    try:
        for l in open(trace):
            if l.startswith("H "):
                on = (case is None) or (l.split()[1] == str(case))
                if not on and out:
                    break
            if on or case is None:
                out.append(l.rstrip("\n"))
                if len(out) >= limit:
                    break
    except FileNotFoundError:
        pass
    return out


def load_known():
    items = []
    p = os.path.join(VERIF, "KNOWN_FINDINGS.txt")
    if os.path.exists(p):
        for l in open(p):
            m = re.match(r"finding:\s+property=(\S+)\s+key=(\S+)\s+(.*)", l.strip())
            if m:
                items.append(dict(property=m.group(1), key=m.group(2), text=m.group(3)))
    return items


def shrink_core(exe, workdir, sres, pid, case, cfg):
    """Shortest prefix (in operations) of a core history that still shows a violation of `pid`.
    The PRNG stream of a truncated history is a prefix of the full one, so this is a real replay."""
    if exe is None or sres["stream"] != "core" or case is None:
        return None
    spec_ids = set(cfg.get("spec_ids", [pid]))
    fields = re.compile(cfg.get("diff_fields_by_stream", {}).get("core", cfg.get("diff_fields", r".*")))

    def shows(k, drop=()):
        tag = hashlib.md5(",".join(map(str, drop)).encode()).hexdigest()[:8] if drop else "p"
        trace = os.path.join(workdir, f"shrink.{case}.{k}.{tag}.trace")
        cmd = [exe, "core", "-seed", str(sres["seed"]), "-out", trace, "-only", str(case), "-maxops", str(k)] + list(sres["args"])
        if drop:
            cmd += ["-dropops", ",".join(map(str, drop))]
        try:
            rc, _ = sh(cmd, timeout=120)
            with open(trace) as f:
                rc2, out = sh([DRIVER, "core"], stdin=f, timeout=120)
        except subprocess.TimeoutExpired:
            return False, None
        if rc != 0:
            return True, trace  # the harness died on this prefix: that is a failing input
        for l in out.splitlines():
            if l.startswith("SPEC ") and any(t in spec_ids for t in l.split()[1:5]):
                return True, trace
            if l.startswith("DIFF "):
                m = re.match(r"DIFF line=\d+ (?:(?:hist|case)=\S+ )?(\S+)", l)
                if m and fields.match(m.group(1)):
                    return True, trace
        return False, trace

    hi = None
    for a in sres["args"]:
        pass
    try:
        hi = int(sres["args"][sres["args"].index("-ops") + 1])
    except Exception:
        hi = 90
    ok, tr = shows(hi)
    if not ok:
        return None
    lo, best = 0, (hi, tr)
    while lo < hi:
        mid = (lo + hi) // 2
        ok, tr = shows(mid)
        if ok:
            hi, best = mid, (mid, tr)
        else:
            lo = mid + 1
    # delta debugging on the operations of the shortest failing prefix: every operation draws from its
    # own PRNG, so leaving operations out does not change the random choices of the others
    kmax = best[0]
    keep = list(range(kmax))
    n, trials, budget = 2, 0, 48
    while len(keep) >= 2 and trials < budget:
        chunk = max(1, len(keep) // n)
        removed = False
        for i in range(0, len(keep), chunk):
            cand = keep[:i] + keep[i + chunk:]
            drop = sorted(set(range(kmax)) - set(cand))
            trials += 1
            ok, tr = shows(kmax, drop)
            if ok:
                keep, best = cand, (kmax, tr, drop)
                n = max(n - 1, 2)
                removed = True
                break
            if trials >= budget:
                break
        if not removed:
            if chunk == 1:
                break
            n = min(len(keep), n * 2)
    return best


def write_replay(pid, kind, sres, line, theorem_or_stream, found):
    os.makedirs(REPLAYS, exist_ok=True)
    case = case_of(line) if line else None
    name = f"{pid}-{sres['stream']}-{sres['seed']}-{case if case is not None else 'all'}-{kind}.json"
    path = os.path.join(REPLAYS, name)
    rep = dict(property=pid, kind=kind, stream=sres["stream"], seed=sres["seed"], case=case, args=sres["args"],
               theorem_or_stream=theorem_or_stream, failing_input_found=found, observed=line,
               ops=excerpt(sres["trace"], case))
    sh_res = sres.get("_shrink", {}).get(case)
    if sh_res:
        rep["shrunk_to_ops"] = sh_res[0]
        rep["args"] = list(sres["args"]) + ["-maxops", str(sh_res[0])]
        if len(sh_res) > 2 and sh_res[2]:
            rep["dropped_ops"] = sh_res[2]
            rep["shrunk_to_ops"] = sh_res[0] - len(sh_res[2])
            rep["args"] += ["-dropops", ",".join(map(str, sh_res[2]))]
        rep["ops"] = excerpt(sh_res[1], case)
    json.dump(rep, open(path, "w"), indent=1)
    return os.path.relpath(path, VERIF)


def run_check(pid, tier, seed, replay=None):
    cfg = PROPS[pid]
    t0 = time.time()
    os.makedirs(EVID, exist_ok=True)
    workdir = os.path.join(BUILD, f"run.{os.getpid()}")
    os.makedirs(workdir, exist_ok=True)
    violations, known_lines, notes = [], [], []
    try:
        lean = lean_phase(pid, tier)
        exe, out = build_harness(workdir)
        results = []
        if exe is None:
            notes.append("harness build failed: " + out[-3000:])
            print("ERROR: the harness does not build against /repo:\n" + out[-3000:], file=sys.stderr)
        elif not os.path.exists(DRIVER):
            notes.append("model driver missing (lake build failed)")
        else:
            jobs = []
            for st in cfg["streams"]:
                shards = st.get("shards_" + tier, 1)
                if replay:
                    shards = 1
                for k in range(shards):
                    sseed = seed * 100 + k if not replay else replay["seed"]
                    args = list(st[tier]) if not replay else list(replay["args"])
                    extra = None
                    if replay and replay.get("case") is not None:
                        extra = ["-only", str(replay["case"])]
                    if replay and replay["stream"] != st["name"]:
                        continue
                    jobs.append((st["name"], args, sseed, k, extra))
            with ThreadPoolExecutor(max_workers=min(16, max(1, len(jobs)))) as ex:
                futs = [ex.submit(run_shard, exe, workdir, n, a, s, k, e) for (n, a, s, k, e) in jobs]
                results = [f.result() for f in futs]

        race_ok, race_report, race_ops = (True, "", 0)
        if exe is not None and not replay:
            race_ok, race_report, race_ops = race_stress(workdir, cfg, tier, seed)
        known = [k for k in load_known() if k["property"] == pid]
        fields = re.compile(cfg.get("diff_fields", r".*"))
        spec_ids = set(cfg.get("spec_ids", [pid]))
        crash_ops = cfg.get("crash_ops")  # regex on the last op before a harness crash
        # 1. proof obligations
        for p in lean["problems"]:
            violations.append(("obligation", p, None, None))
        # 2. correspondence + failing-input search
        n_diff = n_spec = 0
        for r in results:
            rel_specs = [l for l in r["specs"] if len(l.split()) > 3 and any(t in spec_ids for t in l.split()[1:5])]
            rel_diffs = []
            fields = re.compile(cfg.get("diff_fields_by_stream", {}).get(r["stream"], cfg.get("diff_fields", r".*")))
            for l in r["diffs"]:
                m = re.match(r"DIFF line=\d+ (?:(?:hist|case)=\S+ )?(\S+)", l)
                what = m.group(1) if m else ""
                if fields.fullmatch(what) or fields.match(what):
                    rel_diffs.append(l)
            for l in r["known"]:
                toks = l.split()
                if len(toks) >= 3 and toks[1] == pid:
                    key = toks[2]
                    kf = [k for k in known if k["key"] == key]
                    if kf:
                        known_lines.append((key, kf[0]["text"]))
                    else:
                        rel_specs.append(l)
            n_diff += len(rel_diffs)
            n_spec += len(rel_specs)
            seen_cases = set()
            for l in rel_specs:
                c = (r["stream"], r["seed"], case_of(l))
                if c in seen_cases:
                    continue
                seen_cases.add(c)
                violations.append(("input", l, r, True))
            for l in rel_diffs:
                c = (r["stream"], r["seed"], case_of(l))
                if c in seen_cases:
                    continue
                seen_cases.add(c)
                violations.append(("correspondence", l, r, False))
            for cr in r["crashes"]:
                if crash_ops is None or re.match(crash_ops, cr["last_op"] or ""):
                    violations.append(("crash", f"hist={cr['case']} harness process died (rc={cr['rc']}) during: {cr['last_op']} :: {cr['output'][-400:]}", r, True))
            for wl in r["warns"]:
                notes.append(wl)
            unparsed = [wl for wl in r["warns"] if "unparsed" in wl]
            if unparsed:
                # a line of the implementation's trace the model driver does not understand: the tie is incomplete
                violations.append(("correspondence", f"{len(unparsed)} trace line(s) not understood by the model driver, first: {unparsed[0][:200]}", r, False))
            if "lines" not in r["summary"]:
                violations.append(("correspondence", "model driver did not complete on stream " + r["stream"], r, False))
        if not race_ok:
            os.makedirs(REPLAYS, exist_ok=True)
            rp = os.path.join("replays", f"{pid}-race-{seed}.json")
            json.dump(dict(property=pid, kind="race", seed=seed, theorem_or_stream="free-running stress under the Go race detector",
                           failing_input_found=True, observed=race_report), open(os.path.join(VERIF, rp), "w"), indent=1)
            violations.append(("race", "free-running stress (race detector, semantic checks, termination): " + race_report.replace("\n", " | ")[:240], None, rp))
        if not results and not replay:
            violations.append(("obligation", "correspondence could not be run: " + "; ".join(notes)[:500], None, None))

        # ---- report
        out_lines = []
        reported = 0
        for key, text in sorted(set(known_lines)):
            out_lines.append(f"KNOWN-FINDING: property={pid} {text}")
        for kind, detail, r, found in violations[:12]:
            if r is not None and r["stream"] == "core" and kind in ("input", "correspondence"):
                c = case_of(detail)
                if c is not None and c not in r.setdefault("_shrink", {}):
                    try:
                        r["_shrink"][c] = shrink_core(exe, workdir, r, pid, c, cfg)
                    except Exception as ex:  # shrinking is best effort
                        r["_shrink"][c] = None
                        notes.append(f"shrink failed: {ex}")
            if r is not None:
                path = write_replay(pid, kind, r, detail, f"stream {r['stream']}: {detail[:160]}", bool(found))
            elif isinstance(found, str):
                path = found
            else:
                os.makedirs(REPLAYS, exist_ok=True)
                path = os.path.join("replays", f"{pid}-obligation-{hashlib.sha1(detail.encode()).hexdigest()[:8]}.json")
                json.dump(dict(property=pid, kind="obligation", theorem_or_stream=detail, failing_input_found=False,
                               build_log=lean.get("build_log", "")), open(os.path.join(VERIF, path), "w"), indent=1)
            tail = "" if found else " no-failing-input-found"
            out_lines.append(f"VIOLATION property={pid} replay={path} kind={kind} {detail[:300]}{tail}".rstrip()
                             if found else f"VIOLATION property={pid} replay={path} kind={kind} {detail[:300]} no-failing-input-found")
            reported += 1

        # ---- evidence
        evaluations = sum(r["summary"].get("lines", 0) for r in results)
        cmp_counts, spec_counts = {}, {}
        for r in results:
            for k, v in r["summary"].items():
                if k.startswith("cmp:"):
                    cmp_counts[k[4:]] = cmp_counts.get(k[4:], 0) + v
                if k.startswith("spec:"):
                    spec_counts[k[5:]] = spec_counts.get(k[5:], 0) + v
        stats_merged = {}
        for r in results:
            for k, v in (r["stats"] or {}).items():
                if isinstance(v, int):
                    stats_merged[k] = stats_merged.get(k, 0) + v
                elif isinstance(v, dict):
                    d = stats_merged.setdefault(k, {})
                    for kk, vv in v.items():
                        if isinstance(vv, int):
                            d[kk] = d.get(kk, 0) + vv
        distinct = stats_merged.get("DistinctNontrivial", 0)
        samples = []
        for r in results[:2]:
            samples.append(dict(stream=r["stream"], seed=r["seed"], first_case=excerpt(r["trace"], 0 if r["stream"] != "order" else None, 14)))
        samples.append(dict(obligations=lean["theorems"][:40]))
        ev = dict(
            property_id=pid, tier=tier, seed=seed, level="proof",
            coverage=dict(
                obligations=max(lean["obligations"], 1) if lean["obligations"] else 0,
                discharged=lean["discharged"],
                checker_cmd="harness/cmd/extract -repo /repo (regenerates lean/Generated/*.lean) && cd lean && lake build " + " ".join(["Props." + pid] + PROPS[pid].get("extra_targets", [])) + " && lake env lean Audit/" + pid + ".lean Audit/" + pid + "_*.lean" + (" && lake env leanchecker Props." + pid if tier == "thorough" else ""),
                trusted_base=cfg.get("trusted_base") or [],
                axioms=lean["axioms"],
                leanchecker=lean.get("leanchecker"),
                evaluations=evaluations,
                distinct_nontrivial=distinct,
                rule=cfg.get("rule", ""),
                samples=samples,
                traces_validated_against_impl=stats_merged.get("Histories", stats_merged.get("Cases", 0)),
                model_vs_impl_comparisons=cmp_counts,
                spec_predicates_on_impl=spec_counts,
                relevant_diffs=n_diff, relevant_spec_failures=n_spec,
                generator_distribution=stats_merged,
                harness_crashes=sum(len(r["crashes"]) for r in results),
                race_stress_ops=race_ops,
                explanation="obligations/discharged count kernel-checked theorems (unbounded); evaluations/comparisons count the bounded differential validation of the model against the implementation and are not part of the proof",
                exhaustive=False,
            ),
            assumptions=cfg.get("assumptions") or [cfg.get("level_note", "")],
            wall_s=round(time.time() - t0, 2),
            violations=reported,
            known_findings=[k for k, _ in sorted(set(known_lines))],
            notes=notes[:20],
        )
        if not ev["coverage"]["trusted_base"]:
            from props import KERNEL_TB
            ev["coverage"]["trusted_base"] = KERNEL_TB
        json.dump(ev, open(os.path.join(EVID, pid + ".json"), "w"), indent=1)
        for l in out_lines:
            print(l)
        if reported == 0:
            print(f"OK property={pid} tier={tier} seed={seed} theorems={lean['discharged']}/{lean['obligations']} "
                  f"impl-lines={evaluations} wall={ev['wall_s']}s")
        return 1 if reported else 0
    finally:
        shutil.rmtree(workdir, ignore_errors=True)


def setup():
    os.makedirs(BUILD, exist_ok=True)
    with Lock(os.path.join(BUILD, "lean.lock")):
        ok, out = run_extractor()
        if not ok:
            print(out)
        rc, out = sh(["lake", "build"], cwd=LEAN, timeout=7200)
        print(out[-3000:])
        if rc != 0:
            return rc
    w = os.path.join(BUILD, "setup")
    os.makedirs(w, exist_ok=True)
    exe, out = build_harness(w)
    if exe is None:
        print(out)
        return 1
    shutil.rmtree(w, ignore_errors=True)
    print("setup ok")
    return 0


def main(argv):
    if not argv or argv[0] in ("-h", "--help"):
        print(__doc__)
        return 2
    if argv[0] == "--setup":
        return setup()
    if argv[0] == "--manifest":
        print(json.dumps(manifest_mod.build(PROPS), indent=1))
        return 0
    pid = argv[0]
    if pid not in PROPS:
        print(f"unknown or unclaimed property {pid}", file=sys.stderr)
        return 2
    tier = os.environ.get("VERIF_TIER", "quick")
    replay = None
    i = 1
    while i < len(argv):
        if argv[i] == "--tier":
            tier = argv[i + 1]; i += 2
        elif argv[i] == "--replay":
            replay = json.load(open(argv[i + 1])); i += 2
        else:
            i += 1
    seed = int(os.environ.get("VERIF_SEED", "1") or "1")
    if replay and replay.get("kind") == "obligation":
        # an obligation replay re-runs the Lean phase only
        lean = lean_phase(pid, tier)
        for p in lean["problems"]:
            print("OBLIGATION:", p)
        return 1 if lean["problems"] else 0
    return run_check(pid, tier, seed, replay)
