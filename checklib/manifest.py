"""Builds MANIFEST.json from the property table."""
import json, os

ALL = [f"C{n:02d}" for n in range(1, 21)]

PENDING_REASON = "machinery for this property is not built yet in this round; the Lean proof plan is in DESIGN.md §8 and the property will be claimed when its theorems and correspondence stream exist"


def build(PROPS):
    checks = []
    for pid in sorted(PROPS):
        c = PROPS[pid]
        checks.append(dict(
            property_id=pid,
            quick_cmd=f"./check {pid} --tier quick",
            thorough_cmd=f"./check {pid} --tier thorough",
            evidence_file=f"/verif/evidence/{pid}.json",
            replay_cmd_template=f"./check {pid} --replay {{path}}",
            engine="lean4-proof+differential-harness",
            level_claimed=dict(category="proof", text=c["level_text"], design_ref=c.get("design_ref", "")),
            level_note=c["level_note"],
            technique=c["technique"],
        ))
    na = [dict(property_id=p, reason=PENDING_REASON) for p in ALL if p not in PROPS]
    return dict(
        version=1,
        setup_cmd="./check --setup",
        hooks=dict(
            guard="verif",
            enable="go build -tags verif (the harness module replaces berty.tech/go-ipfs-log with /repo)",
            baseline_off_cmd="cd /repo && GOFLAGS=-mod=mod go test -vet=off -count=1 -timeout 25m ./...",
            source_commits=json.load(open(os.path.join(os.path.dirname(__file__), "hook_commits.json"))) if os.path.exists(os.path.join(os.path.dirname(__file__), "hook_commits.json")) else [],
            add_only=True,
        ),
        engines=[dict(name="lean4-proof+differential-harness", path="/verif/check",
                      serves_properties=sorted(PROPS),
                      kind_free_text="Lean 4 theorems about a hand-written executable model (lean/), tied to /repo on every run by a Go differential harness (harness/) replayed on the model by a native driver, plus facts regenerated from the Go AST")],
        checks=checks,
        not_applicable=na,
        notes="All claimed properties are decided by machine-checked Lean 4 proof; bounded differential runs only validate the model against the code and search for failing inputs. See DESIGN.md.",
    )
