"""Per-property configuration of the checks (streams, comparison fields, theorems, claims)."""

KERNEL_TB = [
    "Lean 4.33.0 kernel; axioms per theorem printed by Audit/<id>.lean and required to be a subset of {propext, Classical.choice, Quot.sound}",
    "hand-written Lean model (lean/Model), tied to /repo on every run by (1) the differential harness (correspondence streams), (2) facts regenerated from the Go AST and closed by decide (lean/Generated/Facts.lean), (3) Go->Lean translation of the algorithmic core (lean/Generated/Sorting.lean, Gen*.lean) proved equal to the model (lean/Props/C19Gen.lean, Gen*.lean)",
    "the extractor and the two translators (harness/cmd/extract; conventions in DESIGN.md section 10), the Go harness (harness/), the model driver (lean/Driver), this check script",
]

CORE_Q = ["-n", "250", "-ops", "40"]
CORE_T = ["-n", "1500", "-ops", "90", "-thorough"]

def core_stream(extra_q=None, extra_t=None):
    return dict(name="core", quick=CORE_Q + (extra_q or []), thorough=CORE_T + (extra_t or []), shards_quick=4, shards_thorough=14)

# the real entry.OrderedMap against its representation-level model and against the list of values the theorems use
OMAP_STREAM = dict(name="omap", quick=["-n", "400"], thorough=["-n", "6000", "-thorough"], shards_quick=1, shards_thorough=4)
OMAP_PROPS = ["C01", "C02", "C03", "C05", "C16"]

CONC_FOR_CORE = dict(name="conc", quick=["-n", "250"], thorough=["-n", "3000", "-thorough"], shards_quick=4, shards_thorough=14)

PROPS = {}

PROPS["C19"] = dict(
    title="The ordering functions are lawful orders that respect causality",
    streams=[dict(name="order", quick=["-n", "1500"], thorough=["-n", "30000", "-thorough"], shards_quick=2, shards_thorough=12)],
    diff_fields=r".*",
    spec_ids=["C19"],
    technique="Lean 4 theorems on the transcribed comparators and insertion sort; differential run of the real comparators/sort against the model",
    level_text="Kernel-checked theorems: cmpHash is an irreflexive, antisymmetric, transitive, total order on distinct hashes; cmpLWW the same when clock id/time pairs differ; clockCompare antisymmetric and transitive; all respect clock time; FWW = -LWW; goSort is a permutation, sorted and input-order independent under those orders. Unbounded integers, any ids and hashes. The model is tied to the code by running the real comparators and sorting.Sort on a grid including extreme times and comparing every answer.",
    level_note="Trusted: Lean kernel; that Go's sort.SliceStable is a correct stable sort for n > 20 (insertion sort is modelled exactly; for a strict total order the sorted permutation is unique, proved); harness + driver. Go int is modelled as an unbounded integer: the repaired Compare never subtracts, and the grid contains MinInt64/MaxInt64 so a reintroduced wrap-around is seen. LamportClock.Compare, SortByClocks, SortByClockID, First, LastWriteWins, FirstWriteWins, SortByEntryHash and NoZeroes are additionally TRANSLATED from the Go source to Lean on every run (Generated/Sorting.lean) and proved equal to the model (Props/C19Gen.lean).",
    design_ref="§8 C19",
    rule="pairs: full grid 10 times x 7 ids (incl. prefix-related and empty) x same/different hash, sampled by seed in quick; sorts: random lists (1-12 with ties allowed, 21-80 without). distinct = distinct (time,id,hash-equality) classes of pairs + distinct sort inputs; non-trivial = pair differing in exactly the deciding component or a sort of >= 2 elements",
)

def _core_prop(pid, title, fields, technique, level_text, level_note, rule=None, extra_streams=None):
    PROPS[pid] = dict(
        title=title,
        streams=[core_stream()] + (extra_streams or []),
        diff_fields=fields,
        spec_ids=[pid],
        technique=technique,
        level_text=level_text,
        level_note=level_note,
        design_ref="§8 " + pid,
        rule=rule or "core stream: PRNG histories over 2-6 replicas (one in 16 wide: 7-9 writers), 3 orderings (one history in 4 gives every replica its own), of append (a quarter pinned; reserved payloads in access-control histories)/join/joinN/load/iterate/setIdentity, a third of the tie and non-default-ordering histories starting flat (every replica appends once, two merge everybody), followed by a complete exchange; distinct = distinct operation-shape hashes; non-trivial = at least one fork (two replicas appending concurrently) and one join of overlapping logs",
    )

CORE_NOTE = ("Trusted: Lean kernel; content addressing (an append is given a fresh hash: distinct entries have distinct CIDs — SHA-256 collision freedom); "
             "Go's sort.SliceStable being a correct stable sort beyond 20 elements (insertion sort is modelled exactly; under a strict total order the result is unique, proved); "
             "the hand-written model of log.go/entry_map.go/utils.go/sorting.go, validated on every run by replaying PRNG histories of the real library on the model and comparing entries, heads, values, snapshots, appended entries, iterator output after every operation; "
             "additionally the algorithmic core of log.go/utils.go is TRANSLATED from the Go source to Lean on every run (harness/cmd/extract/translate2.go -> lean/Generated/Gen*.lean) and proved equal to the model (lean/Props/Gen*.lean): traverse, FindHeads, difference, the tail of Join, Iterator/sortedHeads, the plan of Append with getEveryPow2, the views values/ToJSONLog/ToSnapshot, maxClockTimeForEntries — the translators' conventions (DESIGN.md section 10) are trusted; "
             "harness, driver, check script.")

_core_prop("C01", "Replicas that merged the same entries converge (join is a CRDT merge)",
    r"(join|append|setid|exchange|init)/(entries|len|values|heads|rawheads|snapshot\..*|json\.heads|join\..*|clock)",
    "Lean 4: invariant induction over all histories (reachable_inv), difference/join-heads specs, uniqueness of sorted permutations; differential replay of real histories incl. complete exchanges",
    "Kernel-checked: for every system reachable by any finite history of appends, unbounded joins (any order/grouping/repetition), identity changes over any number of replicas and writers, two replicas with the same merged-entry set (ghost `know`) have the same entries and heads (convergence), and the same Values() when the ordering is a strict total order on them (convergence_values); the entry set of a join is the union, hence join_comm/assoc/idem; self-join, other-id join and empty join change nothing. Tied to the code by replaying random multi-replica histories + complete exchanges in PRNG order and comparing every observation.",
    CORE_NOTE)
_core_prop("C02", "Heads are exactly the entries nothing else in the log points to",
    r"(join|append|setid|exchange|init)/(heads|rawheads|snapshot\.heads|json\.heads)",
    "Lean 4: heads clause of the replica invariant preserved by append and by the three head filters of Join (join_heads_spec), for all reachable states",
    "Kernel-checked: in every reachable state h is a head iff it is an entry no entry names (heads_spec), heads are non-empty for a non-empty log, a duplicate-free subset of the entries; Heads() is the same set. Correspondence: Heads(), RawHeads(), ToSnapshot().Heads, ToJSONLog().Heads of the real log compared with the model after every operation, and the decidable predicate headsOk evaluated on the implementation's own state; the conc stream adds the heads every reader observes and the final heads of every log under controlled interleavings of appends, merges and readers, and a free-running stress (appends, merges both ways, identity changes, all readers, under the race detector) checks on every snapshot and on the final states that the heads are exactly the unreferenced values and that every entry is a value.",
    CORE_NOTE, extra_streams=[CONC_FOR_CORE])
PROPS["C02"]["race_stress"] = dict(stream="conc-stress", ms_quick=4000, ms_thorough=60000)
PROPS["C02"]["diff_fields_by_stream"] = {"core": PROPS["C02"]["diff_fields"], "conc": r"(final\.heads.*|read\.(heads|rawheads|json|snapshot\.heads).*)"}
_core_prop("C03", "Values() is a complete, duplicate-free, causally ordered linearisation",
    r"(join|append|setid|exchange|init)/(values|snapshot\.values)",
    "Lean 4: worklist invariant of traverse (traverse_spec), every entry lies below a head, uniqueness of the sorted permutation",
    "Kernel-checked: in every reachable state with a strict total order on the entries present (always for the hash tie-break, for the default ordering without ties) Values() is a permutation of the entries without duplicates, sorted, with no entry before one of its predecessors, and a function of the entry set only. Correspondence: Values()/ToSnapshot().Values compared with the model after every operation; valuesOk evaluated on the implementation.",
    CORE_NOTE)
_core_prop("C04", "Every appended entry dominates the log it was appended to",
    r"(append/.*|append\..*)",
    "Lean 4: theorems on the transcription of Append (predecessors = heads, clock above every entry via every_entry_below_some_head, single new head, references inside the log and disjoint from predecessors)",
    "Kernel-checked for every reachable log, writer and pointer count (any integer): next = the heads (list: reversed sorted heads), clock id = the log's writer key, clock time strictly above every entry incl. merged ones, the entry becomes the single head, skip references are distinct entries of the log and not predecessors, every entry of the log is in the new entry's causal past, and there are at most floor(log2(max pc 1))+1 skip references (refs_logarithmic). The conc stream adds controlled interleavings of appends with merges and identity changes on the same log: every appended entry is compared with the model's (next, refs, clock), and its clock id must be the key of the identity in force when the append held the lock.",
    CORE_NOTE, extra_streams=[dict(name="conc", quick=["-n", "250"], thorough=["-n", "3000", "-thorough"], shards_quick=4, shards_thorough=14)])
_core_prop("C05", "The log is append-only: entries never change or vanish",
    r"(join|append|setid|exchange|load:.*|iter)/(entries|len|values|snapshot\.values|has|get)",
    "Lean 4: monotonicity of every step of the system model (step_mono), sorted-sublist lemma (values_sublist); known finding lww-tie-order proved as a concrete counterexample",
    "Kernel-checked: every operation keeps every entry of every replica retrievable by hash with identical content, never decreases the count, changes only the target replica, and the new Values() contains the old one as a subsequence whenever the ordering is a strict total order on the new entries (values_subsequence_partial). Without that premise the claim is FALSE for the default ordering (two entries of one writer with equal clock time): proved by a concrete model counterexample and reproduced on the implementation — recorded as known finding lww-tie-order. Pointer aliasing between instances cannot occur in the model (immutable values); entry immutability is checked by the harness on hashes. The conc stream adds the final entries and values of every log after controlled interleavings (three logs merging each other while being appended to).",
    CORE_NOTE, extra_streams=[CONC_FOR_CORE])
PROPS["C05"]["streams"] = PROPS["C05"]["streams"] + [dict(name="codec", quick=["-n", "60", "-nochild"], thorough=["-n", "1500", "-thorough", "-nochild"], shards_quick=3, shards_thorough=12)]
PROPS["C05"]["diff_fields_by_stream"] = {"codec": r"(?!)", "core": PROPS["C05"]["diff_fields"], "conc": r"(final\.(entries|values).*|read\.(entries|values|len).*)"}
_core_prop("C15", "Iteration returns the requested causal range, newest first, and always ends",
    r"iter/.*",
    "Lean 4: relaxed worklist invariant for traversal from arbitrary roots (traverse_general, end hash, amount) and the range theorems of Iterator; traversal-free specification iterSpec evaluated on every implementation call",
    "Kernel-checked on the model of Iterator: success always closes the channel (also amount 0 and amounts beyond the range), unknown upper bounds are errors, and for ANY upper bounds (also causally related ones) the emission is duplicate-free, newest first and exactly the causal past of the bounds (iter_full_spec via traverse_general); with a lower bound inside the range the output is the emission down to it (inclusive/exclusive), with an amount its last `amount` elements, without a lower bound a prefix of at most `amount` (exactly `amount` for unrelated bounds). The traversal-free specification iterSpec is additionally evaluated on every implementation call.",
    CORE_NOTE, extra_streams=[CONC_FOR_CORE])
# "always ends" under concurrent writers: the controlled schedules of the conc stream run Iterator (default and
# bounded) against appends and merges; an Iterator goroutine the watchdog waits for is the failing schedule
PROPS["C15"]["diff_fields_by_stream"] = {"core": PROPS["C15"]["diff_fields"], "conc": r"read\.iter.*"}
_core_prop("C16", "A size-bounded merge keeps exactly the newest entries of the full merge",
    r"joinN/.*",
    "Lean 4: theorems on the transcription of Join with a size bound",
    "Kernel-checked on the model: the bounded join holds exactly the last min(n,total) values of the unbounded join's linearisation with heads recomputed over them; a bound >= total equals the unbounded join; the model has no panic outcome and the harness records a panic of the implementation as an outcome. Correspondence: bounds 0..total+3 on forked pairs.",
    CORE_NOTE)

PROPS["C07"] = dict(
    title="Signatures are tamper-evident over every signed field",
    streams=[dict(name="sign", quick=["-n", "60"], thorough=["-n", "1500", "-thorough"], shards_quick=3, shards_thorough=12)],
    diff_fields=r".*",
    spec_ids=["C07"],
    technique="Lean 4: injectivity of the exact signed byte string (encoding/json transcription with a Go-faithful UTF-8 decoder) via a prefix-code argument; ideal-signature hypothesis; byte-exact differential run against entry.VerifToBuffer and real Verify on every single-field mutation",
    level_text="Kernel-checked: toBuffer (the key-sorted JSON object that is signed, with Go's HTML-escaping string encoder) is injective on the signed view (id, payload, next, refs, v, clock id, clock time, additional data, strings read as token lists) — toBuffer_injective / toBuffer_eq_iff; for valid UTF-8 the view is the bytes themselves; under an ideal signature scheme (hypothesis) any change of a signed component, a substituted key or a signature made for other bytes makes verification fail (tamper_detected_*). The full statement is FALSE for payload/log-id/additional-data bytes that are not valid UTF-8 (each invalid byte is signed as U+FFFD): proved as payload_collision / tamper_detected_full_is_false and reproduced on the implementation — known finding payload-invalid-utf8-collision. Tied to the code: model bytes = entry.VerifToBuffer byte for byte on generated entries, and the real Verify outcome on ~60 mutations per entry equals the model's prediction.",
    level_note="Assumed: unforgeability of secp256k1 ECDSA in the idealised form verify pk m s <-> s = sign sk m (signature malleability (r, n-s) is outside the claim); Go's encoding/json and utf8 behaviour as transcribed (checked byte-exactly incl. all 256 single bytes and a lead/continuation grid); harness, driver.",
    design_ref="§8 C07",
    rule="one entry per case through the real CreateEntryWithIO with payloads cycling through 19 classes (ASCII, 2/3/4-byte UTF-8, controls, HTML, quotes, U+2028/9, five kinds of invalid UTF-8, U+FFFD, empty, 4 KiB, random), 0-8 links, 11 clock times incl. int64 extremes, additional data; ~60 single-field mutations each; distinct = distinct entries; non-trivial = has links, additional data or a non-ASCII payload",
)

PROPS["C20"] = dict(
    title="Key material and identities are stable and self-consistent",
    streams=[dict(name="keys", quick=["-n", "30", "-ops", "0"], thorough=["-n", "400", "-ops", "0", "-thorough"], shards_quick=3, shards_thorough=12)],
    diff_fields=r".*",
    spec_ids=["C20"],
    technique="Lean 4: invariant induction over all operation sequences of keystores (LRU cache of any capacity) sharing a datastore; differential run of 1-4 real keystores beyond the cache capacity with restarts",
    level_text="Kernel-checked for all op sequences, any number of keystores over one datastore, any cache capacity >= 1: every cached key equals the stored one (cache_coherent), a created key is reported present and returned identically by every keystore incl. after eviction and restart (created_present, key_stable), a never-created id is absent, CreateIdentity is deterministic per id, and under an ideal signature scheme the id signature, the public-key signature and entry signatures verify under the published keys. Tied to the code by replaying create/get/has/createIdentity/restart sequences over up to 400 ids (cache size 128) on real keystores and comparing every answer, with the real signature checks.",
    level_note="Hypothesis wf: a direct CreateKey is applied to ids whose datastore key is empty (get-or-create is unrestricted); re-creating an existing id replaces the key by design. Assumed: ideal signatures; golang-lru eviction as modelled (compared through LRU probes); datastore key cleaning as transcribed (dsKey, compared with datastore.NewKey). Note recorded in DESIGN.md: ids that clean to the same datastore key (\"x\", \"/x\", \"x/\") alias each other.",
    design_ref="§8 C20",
    rule="cases of 1-4 keystores x up to 400 ids incl. odd ids; ops create/get/has/has-never-created/createIdentity/sign/restart in PRNG order; non-trivial = a created key is read through a non-creator keystore, after a restart, or after >= 128 later creations",
)

# extra Lean targets per property: regenerated fact obligations and the translated-code equalities (Props/Gen*.lean,
# one module per group of translated functions, so that a function leaving the translatable subset breaks only the
# properties resting on it)
PROPS_EXTRA = {
    'C01': ['Props.GenHeads', 'Props.GenJoin', 'Props.GenTraverse', 'Props.GenJoinTail', 'Props.GenCapstoneJoin', 'Props.GenViews', 'Props.GenCapstoneSystem'],
    'C02': ['Props.C13Facts', 'Props.GenHeads', 'Props.GenJoinTail', 'Props.GenCapstoneJoin', 'Props.GenViews', 'Props.GenCapstoneViews', 'Props.GenAppend', 'Props.GenCapstoneAppend', 'Props.GenCapstoneSystem'],
    'C03': ['Props.C19Gen', 'Props.GenTraverse', 'Props.GenCapstoneValues', 'Props.GenViews', 'Props.GenCapstoneViews', 'Props.GenCapstoneSystem'],
    'C04': ['Props.C04Conc', 'Props.GenMisc', 'Props.GenAppend', 'Props.GenCapstoneAppend', 'Props.GenNewLog', 'Props.GenCapstoneSystem'],
    'C05': ['Props.GenTraverse', 'Props.GenJoinTail', 'Props.GenCapstoneJoin', 'Props.GenCapstoneValues', 'Props.GenViews', 'Props.GenAppend', 'Props.GenCapstoneAppend', 'Props.GenCapstoneSystem'],
    'C06': ['Props.EffectFacts', 'Props.CodecFacts', 'Props.GenHeads', 'Props.GenJoin', 'Props.GenJoinTail'],
    'C07': ['Props.CodecFacts'],
    'C08': ['Props.CodecFacts', 'Props.GenMisc'],
    'C09': ['Props.GenFetcher', 'Props.GenHeads', 'Props.GenLoaders', 'Props.GenNewLog', 'Props.GenCapstoneRebuild', 'Props.GenCapstoneSystem'],
    'C10': ['Props.GenFetcher', 'Props.GenLoaders', 'Props.GenCapstoneLoad'],
    'C11': ['Props.GenFetcher'],
    'C12': ['Props.CodecFacts', 'Props.GenFetcher'],
    'C14': ['Props.GenHeads', 'Props.GenJoin', 'Props.GenJoinTail', 'Props.GenCapstoneJoin'],
    'C15': ['Props.C13Facts', 'Props.GenTraverse', 'Props.GenIterator', 'Props.GenCapstoneIter', 'Props.GenCapstoneSystem'],
    'C16': ['Props.GenJoin', 'Props.GenJoinTail', 'Props.GenCapstoneBounded', 'Props.GenCapstoneSystem'],
    'C17': ['Props.EffectFacts', 'Props.GenFetcher'],
    'C18': ['Props.CodecFacts', 'Props.GenMisc'],
    'C19': ['Props.C19Gen'],
}
_core_prop("C06", "Merge admits only verified, authorised entries and is all-or-nothing",
    r"(join|joinN|append|tamper)/(join\..*|append\.denied|entries|len|heads|rawheads|values|clock|snapshot\..*|json\.heads)",
    "Lean 4: theorems on the transcription of Join with an abstract per-candidate validity predicate (join_rejects, join_admits for every size bound, heads admitted), denied append, create-then-verify under an abstract codec/crypto; differential replay with access-controller denial and tampered source logs",
    "Kernel-checked: if any candidate of a join is invalid (unsigned, mis-signed, key-less, denied) the result is the error outcome, which carries no new state; whatever a successful join (any size bound) leaves in the log was there before or is a candidate with the log's id that passed the validity predicate, and every merged head is such an entry; a log of another id is never merged; a denied append changes neither entries nor heads; an entry signed at creation verifies under every codec whose PreSign is idempotent on its own output (default, link-encrypting, legacy). Tied to the code: histories with per-replica denying access controllers and tampered copies of logs (no signature, corrupted signature, no key, foreign key, changed payload, other log id) used as join sources; error class and the full observation after every join compared with the model; real Verify/Join of entries under the link-encrypting and legacy codecs in the codec stream.",
    CORE_NOTE + " The validity predicate is fed from the harness's knowledge of which entry objects it tampered with and which writers each controller denies; secp256k1 verification itself is trusted.")

FETCH_NOTE = ("Trusted: Lean kernel; the fetcher is modelled as a nondeterministic transition system that over-approximates the heap priority and the semaphore (every real schedule is a model trace); "
              "the fetcher's updateClock and addNextEntry and the loaders' trimming helpers are translated from the Go source on every run and proved equal to the model (Props/GenFetcher, Props/GenLoaders); "
              "block decoding, the Go scheduler, sync.Cond/semaphore and wall-clock timeouts are runtime behaviour: the logic is proved, the runtime is exercised (trace validation with controlled completion order, watchdog, elapsed time against the timeout); content addressing; harness, driver.")
FETCH_STREAM = dict(name="fetch", quick=["-n", "150"], thorough=["-n", "1500", "-thorough"], shards_quick=4, shards_thorough=14)
FETCH_RULE = ("fetch stream: random forked/merged stored logs (2-4 writers, pointer counts 1-16) x 5-8 operations each (FetchAll from heads/random entries/unknown cids, the four loaders) with length in {-1, 0..size+3}, concurrency {1,2,4,32}, fault sets (absent/error/corrupt/slow), exclusion predicates, PRNG-controlled completion order (gated Gets) or stalls with timeouts; "
              "distinct = distinct (log shape, operation, length, fault set) cases; non-trivial = forked log with at least one reference and a limit below the size or a non-empty fault set")

PROPS["C09"] = dict(
    title="A log rebuilt from its published heads equals the original",
    streams=[FETCH_STREAM, core_stream()],
    diff_fields=r"(load:.*|.*)",
    diff_fields_by_stream={"core": r"load:.*", "fetch": r".*"},
    spec_ids=["C09"],
    technique="Lean 4: invariant over all accepted event lists of the fetcher transition system (fetch_unbounded_complete), closure = source entry set, loaders on any fetch result rebuild id/entries/heads/values (rebuilt_equals_original via inv_transfer, values_fn_of_set); trace validation of the real fetcher against the model",
    level_text="Kernel-checked for every accepted event list (every concurrency level, dispatch and completion order): an unbounded fault-free fetch returns exactly the closure of the requested heads, duplicate-free; for a stored log that is closed and lies below its heads this closure is the log's entry set; all four loaders then rebuild the replica (rebuilt_equals_original: for every replica satisfying the log invariant Inv of every reachable system state, every accepted unbounded execution from its head hashes and each of NewFromMultihash/NewFromEntryHash/NewFromJSON/NewFromEntry: the invariant holds again, same id, same entries, same heads, and the same Values() whenever the ordering is a strict total order on its entries). Tied to the code by validating every observed dispatch/completion of the real fetcher as an enabled model event with equal result lists, and by the four loaders on random reachable logs in the core stream.",
    level_note=FETCH_NOTE,
    design_ref="§8 C09",
    rule=FETCH_RULE,
)
PROPS["C10"] = dict(
    title="A length-limited load returns exactly the most recent entries",
    streams=[FETCH_STREAM, core_stream()],
    diff_fields=r".*",
    diff_fields_by_stream={"core": r"loadN:.*", "fetch": r".*"},
    spec_ids=["C10"],
    technique="Lean 4: admission invariant of the bounded fetcher over all accepted event lists (fetch_limited_superset) and uniqueness of sort-and-trim (load_limited_exact); trace validation and all four loaders with limits 0..size+3",
    level_text="Kernel-checked for every accepted quiescent event list with limit n >= 0, no faults, times increasing along next: results are duplicate-free ancestors, every ancestor is admitted or dominated by n admitted entries with larger time, hence the newest n are present, and sort-and-trim of the result equals sort-and-trim of the whole closure — independent of concurrency and arrival order; for NewFromEntry (entryLastNKeeping) load_entries_limited_exact: all supplied entries, min(max(n,k),size) in all, of the others exactly the newest max(n,k)-d, again independent of the schedule. The trimming helpers entryLastN, entryLastNKeeping, entrySliceRange and Difference are translated from the Go source on every run and proved equal to the model, including absence of slice-bounds panics (Props/GenLoaders). Tied to the code by trace validation and by the loaders' outputs against the specification 'all supplied entries plus the most recent others' on every generated case.",
    level_note=FETCH_NOTE + " Gap stated in DESIGN.md: NewFromEntryHash with n = 0 fetches with 0 but trims with 1 — covered by the stream, not by the theorem.",
    design_ref="§8 C10",
    rule=FETCH_RULE,
)
PROPS["C11"] = dict(
    title="Fetching tolerates missing, failing and slow blocks and always terminates",
    streams=[FETCH_STREAM],
    diff_fields=r".*",
    spec_ids=["C11"],
    technique="Lean 4: safety and progress of the fetcher transition system over all accepted event lists and fault sets (dispatch_once, never_excluded, results_nodup, bounded, progress, can_terminate, faulty_result, cancel_stops_dispatch); trace validation with injected faults, gated completions and timeouts",
    level_text="Kernel-checked for every fault set, exclusion predicate and accepted event list: no hash is dispatched twice, none is excluded or unrequested, results are duplicate-free, the number of events is at most 2*|mentioned hashes|+1 (no infinite execution), a non-terminated state has an enabled event, and at quiescence the result is exactly the set reachable through retrievable non-excluded entries; after cancel nothing is dispatched. Wall-clock termination within the timeout and lost-wake-up freedom of the Cond loop are exercised (watchdog, elapsed time), not proved. One level below, the synchronisation skeleton of processQueue (mutex, semaphore, condition variable, cancellation) is modelled (Model/FetchSync.lean) and proved deadlock-free with no lost wake-up, bounded and clean at return for every concurrency limit, hash budget and interleaving (sync_no_deadlock, sync_bounded, sync_at_return); its operation order is regenerated from entry/fetcher.go (syncShape) and closed by decide.",
    level_note=FETCH_NOTE,
    design_ref="§8 C11",
    rule=FETCH_RULE,
)

CODEC_NOTE = ("Trusted: Lean kernel; SHA-256/multihash/CID, the refmt CBOR library, encoding/json, protobuf and cid.Cast are not modelled — they are tied by byte equality of blocks and by running the real decoders on every generated input; NaCl secretbox / SHA3 nonce derivation as ideal laws (hypotheses); harness, driver.")
CODEC_STREAM = dict(name="codec", quick=["-n", "100"], thorough=["-n", "3000", "-thorough"], shards_quick=3, shards_thorough=14)
CODEC_RULE = ("codec stream by case index: 50% well-formed entries/manifests (V in {0,1,2,3,large}, nil/empty/0-40 links incl. CIDv0 and identity CIDs, boundary lengths, non-UTF-8 payloads, extreme clock times), 10% link-key, 30% malformed (random bytes; truncated/flipped/deleted/inserted bytes of valid blocks; hand-built CBOR maps with each field absent/null/wrong type/bad hex/bad links, extra/duplicate/shuffled keys), 10% poisoned stored logs, plus the pinned vectors (labelled TEST); distinct = distinct generated inputs; non-trivial = not the empty/zero entry")
PROPS["C08"] = dict(
    title="Entry encoding is canonical and decoding is its exact inverse",
    streams=[CODEC_STREAM, core_stream()], diff_fields=r".*", diff_fields_by_stream={"core": r"(?!)", "codec": r".*"}, spec_ids=["C08"],
    technique="Lean 4: CBOR encoder/decoder pair for the entry and manifest schema with round-trip theorems by structural induction; byte-exact differential run against cbornode.WrapObject and read-back through the real store",
    level_text="Kernel-checked: decodeEntry (cborEntry j) = j and the same for manifests (all lengths up to 2^64, RFC 7049 key order, tag-42 links), toPlain . toJsonable is the identity on every field for any payload bytes, write-then-read gives back the entry, re-encoding the decoded entry gives the same block (same CID), the block does not depend on the layout of additional data, and with a link key a same-key read restores every field. Tied to the code: the model's bytes equal the real block for every generated entry and manifest, field equality after read-back, CID equality after re-encode and across two processes; the pinned interoperability vectors are replayed as labelled tests; in the core stream (a quarter of the histories run under the link-encrypting codec) every entry object that comes back from the store through any loader must carry the links and clock first seen under its hash (readBackLinks).",
    level_note=CODEC_NOTE, design_ref="§8 C08", rule=CODEC_RULE)
PROPS["C12"] = dict(
    title="Untrusted blocks and manifests cannot crash the process",
    streams=[CODEC_STREAM], diff_fields=r".*", spec_ids=["C12"],
    technique="Lean 4: totality (no panic outcome) of the transcribed ToPlain conversions and safety of every operation on decoded entries; malformed-input stream against the real decoders under recover",
    level_text="Kernel-checked on the transcription of io/jsonable and cbor.DecodeRawEntry with an explicit panic outcome for nil dereferences: decoding never yields panic, a decoded entry has a clock (and an identity has signatures), and every accessor/Compare/Equals/IsParent/ToHashable/Normalize/Write/PreSign/Verify on it is panic-free; loading skips undecodable blocks. The byte-level decoders are library code: exercised with random bytes, mutated valid blocks and structurally valid CBOR with each field absent/null/mistyped, with every operation run under recover, plus stored logs with such blocks at random positions.",
    level_note=CODEC_NOTE, design_ref="§8 C12", rule=CODEC_RULE)
PROPS["C18"] = dict(
    title="With a link key, stored blocks never reveal the log's structure",
    streams=[CODEC_STREAM, core_stream()], diff_fields=r".*", diff_fields_by_stream={"core": r"(?!)", "codec": r".*"}, spec_ids=["C18"],
    technique="Lean 4: stored view has empty link lists and no tag-42 item; recovery / no-key / other-key behaviour from the ideal secretbox laws; raw-byte scan of real blocks",
    level_text="Kernel-checked: for an entry with at least one link under a link key the stored value has next = refs = [] and its CBOR contains no tag-42 item (tag 42 appears exactly for clear-text links); a same-key reader recovers identical lists, a reader without a key gets no links, a different key is an error, and verification after read gives the same verdict as at creation. Confidentiality of secretbox is assumed; on real blocks the harness searches the binary, base32 and base58 forms of every predecessor/reference CID in the raw bytes and checks Links() is empty, reads with same/no/other key, Verify and Join after read; in the core stream a quarter of the histories (appends, joins, all loaders, appends on loaded replicas) run under a link key, and at the end no entry block of the store may carry links and every read-back entry has the lists it was created with.",
    level_note=CODEC_NOTE + " Caveat proved (v1_links_in_clear): a V=1 entry has no encrypted-links fields and keeps its links in clear; Append always writes V=2.", design_ref="§8 C18", rule=CODEC_RULE)

CONC_NOTE = ("Trusted: Lean kernel; Go's sync.RWMutex semantics as modelled (a pending writer blocks new readers; over-approximated hand-off); critical sections as atomic steps — justified by rw_exclusion plus the lock discipline extracted from the Go AST on every run (Generated/Facts.lean, closed by decide); "
             "the Go memory model, races inside dependencies and the internal OrderedMap lock are not modelled: a free-running stress under the Go race detector is part of the check; extractor, harness (controlled scheduling through verif-tag hooks), driver.")
CONC_STREAM = dict(name="conc", quick=["-n", "250"], thorough=["-n", "3000", "-thorough"], shards_quick=4, shards_thorough=14)
CONC_RULE = ("conc stream: each operation in its own goroutine parked at every hook point; a controller releases one goroutine at a time in PRNG order mirroring the lock table (watchdog = deadlock); scenarios Append||Append||readers, Join(dest<-src)||Append(src), cross joins A<-B||B<-A, 3-cycle, each after a random sequential prelude; thorough adds exhaustive schedules with <= 3 preemptions of four small scenarios; "
             "distinct = distinct (scenario, schedule); non-trivial = at least one preemption")
PROPS["C13"] = dict(
    title="A log shared between goroutines behaves atomically",
    streams=[CONC_STREAM], diff_fields=r".*", spec_ids=["C13"],
    extra_targets=["Props.C13Facts"],
    race_stress=dict(stream="conc-stress", ms_quick=4000, ms_thorough=60000),
    technique="Lean 4: RW-lock world model with theorems over all schedules (exclusion, race freedom under the lock discipline, deadlock freedom, serialisation, append chain) + lock facts regenerated from the Go AST and closed by decide; controlled-schedule differential run and race-detector stress",
    level_text="Kernel-checked for any number of threads and logs and EVERY schedule: a writer excludes everyone else; under the lock discipline no two conflicting accesses are simultaneously enabled; some thread can always step (no deadlock) and every call makes a bounded number of moves; each log's state is the replay of sequential lock sessions, so every read observes a state satisfying any invariant the sequential steps preserve; an append after another append has it in its causal past and appears exactly once. The discipline itself (every access to a mutable field under the lock, no lock acquired while holding one) is extracted from /repo's Go AST on every run and closed by decide. Data races proper are a runtime notion: checked by a free-running -race stress.",
    level_note=CONC_NOTE, design_ref="§8 C13", rule=CONC_RULE)
# a consumer of an unbuffered iteration that writes to the log between receives (core stream, `iter:consume`): a
# lock held during delivery is a hang there — the concrete schedule for what the lock-shape facts say
PROPS["C13"]["streams"] = PROPS["C13"]["streams"] + [core_stream()]
PROPS["C13"]["diff_fields_by_stream"] = {"conc": r".*", "core": r"(?!)"}
PROPS["C14"] = dict(
    title="Merging from a live log sees a consistent snapshot and cannot deadlock",
    streams=[CONC_STREAM], diff_fields=r".*", spec_ids=["C14"],
    extra_targets=["Props.C13Facts"],
    technique="Lean 4: position tracking through the transcribed Join program over all schedules (join_reads_ordered, join_snapshot, join_includes_snapshot, join_heads_are_entries, cross_join_deadlock_free); controlled schedules with park points between the two reads of the source",
    level_text="Kernel-checked over all schedules: a merge uses the source's heads as of instant a and its entries as of instant b >= a; if the source only grows, the heads read are entries of what was read, the merge adds exactly entries of the source's state at instant a, the result lies between dest and dest U that snapshot and contains all of it, and every head of the result is one of its entries; any pattern of concurrent merges (cross, cyclic) never deadlocks and a merge takes a bounded number of moves. Counter-schedules for the pre-repair order are kept as examples. Tied to the code by parking Join between its reads and interleaving appends/merges on the source, and by the extracted no-lock-while-holding fact.",
    level_note=CONC_NOTE, design_ref="§8 C14", rule=CONC_RULE)
# locks below the log's own (the OrderedMap's) are outside the controlled schedules: a free-running stress of merges
# from logs that are being appended to, under the race detector and a termination watchdog, is part of the check
PROPS["C14"]["race_stress"] = dict(stream="conc-stress", ms_quick=4000, ms_thorough=60000)
# "a crash loses at most operations that had not returned": an acknowledged append must stay reachable from the heads
# also when appends overlap on one log — the free-running stress checks that every entry held is a value

PROPS["C17"] = dict(
    title="The block store is causally closed at every instant (crash safety)",
    streams=[dict(name="crash", quick=["-n", "80"], thorough=["-n", "3000", "-thorough"], shards_quick=3, shards_thorough=14)],
    diff_fields=r".*", spec_ids=["C17"],
    technique="Lean 4: invariant over all histories that every prefix of the block-write sequence is closed under next and refs (store_closed_at_every_prefix), writes precede publication (memory_subset_store), system + fetcher + loader composition (published_state_loads); write-log replay of real histories with every returned identifier loaded from the store as of its return and as of the end",
    level_text="Kernel-checked for every reachable system (any history of appends, merges, identity changes on replicas sharing a store) and every crash point n: every entry block among the first n writes has all its predecessors and references among them; every entry a replica holds is in the store; what a manifest or head hash names is in the store with its history; the store only grows; and (published_state_loads) for every replica state l of every reachable system, every continuation of the history and every crash point at or after l's last write, every accepted unbounded fetcher execution from l's manifest heads followed by any of the four loaders rebuilds l: same id, entries, heads, and Values() under a strict total ordering (uses reachable_refsIn: skip references stay inside the replica). Tied to the code by recording every block write/removal in order, checking closure at each write with the same decidable predicate (proved sound), and loading every returned entry hash / manifest from the store rebuilt at its return point and at the end, comparing with the recorded log state. Durability below Dag().Add is outside the model.",
    level_note="Trusted: Lean kernel; that the store write sequence of entry blocks is the model's universe order (Append writes before publishing — compared by the harness write log); content addressing; durability/atomicity of a single Dag().Add; harness, driver. published_state_loads assumes no block has the undefined (empty) CID; 'loads to exactly the state' is additionally checked on the implementation per returned identifier.",
    design_ref="§8 C17",
    rule="crash stream: 2-4 replicas (few writers, so replicas often share an identity and identical blocks arise), some read-only (denying) replicas, 12-32 ops of append (small payload alphabet)/join/publish; every write prefix checked; up to 14 returned identifiers x 2 store snapshots loaded; distinct = distinct operation shapes; non-trivial = at least one successful append",
)
PROPS["C17"]["race_stress"] = dict(stream="conc-stress", ms_quick=4000, ms_thorough=60000)

for _pid in OMAP_PROPS:
    PROPS[_pid]["streams"] = PROPS[_pid]["streams"] + [OMAP_STREAM]
    _by = dict(PROPS[_pid].get("diff_fields_by_stream") or {"core": PROPS[_pid]["diff_fields"]})
    _by["omap"] = r".*"
    PROPS[_pid]["diff_fields_by_stream"] = _by
    PROPS_EXTRA[_pid] = PROPS_EXTRA.get(_pid, []) + ["Props.OMapRefine"]
    PROPS[_pid]["rule"] = PROPS[_pid]["rule"] + "; omap stream: random sequences of Set/Get/UnsafeGet/At/Reverse/Copy/Merge/NewOrderedMapFromEntries on up to 7 real OrderedMaps (hash keys with twin objects, or free keys with replaced values; nil and undefined elements), every map observed after every operation"
PROPS["C13"]["level_text"] += " The core stream is part of this check for one observation: a consumer of an unbuffered iteration that appends between receives must not block (deliveryOutsideLock)."
PROPS["C14"]["level_text"] += " Locks below the log's own (the OrderedMap's) are outside the controlled schedules: a free-running stress of merges from logs that are being appended to (race detector, termination watchdog) is part of the check."
PROPS["C15"]["level_text"] += " Both lower bounds at once (outside the property's 'inclusive or exclusive'): iter_range_gte_gt proves the emission is the part strictly before the GTE bound; the core stream generates the combination and compares model and code on it."
PROPS["C15"]["level_text"] += " 'Always ends' under concurrent writers: the controlled schedules of the conc stream run Iterator against appends and merges; an Iterator call the watchdog waits for is reported as iterationEnds with the schedule."
for _pid in OMAP_PROPS:
    PROPS[_pid]["level_text"] += " The OrderedMap underneath is modelled at the level of its representation (key slice + Go map, Model/OMapRep.lean); Props/OMapRefine proves that its operations are the list operations the theorems use (for maps keyed by the hashes of their values), and the omap stream compares the real OrderedMap with both levels."
for _pid, _t in PROPS_EXTRA.items():
    PROPS[_pid]["extra_targets"] = PROPS[_pid].get("extra_targets", []) + _t
