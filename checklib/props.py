"""Per-property configuration of the checks (streams, comparison fields, theorems, claims)."""

KERNEL_TB = [
    "Lean 4.33.0 kernel; axioms per theorem printed by Audit/<id>.lean and required to be a subset of {propext, Classical.choice, Quot.sound}",
    "hand-written Lean model (lean/Model), tied to /repo by the differential harness on every run",
    "Go harness (harness/), model driver (lean/Driver), this check script",
]

CORE_Q = ["-n", "250", "-ops", "40"]
CORE_T = ["-n", "1500", "-ops", "90", "-thorough"]

def core_stream(extra_q=None, extra_t=None):
    return dict(name="core", quick=CORE_Q + (extra_q or []), thorough=CORE_T + (extra_t or []), shards_quick=4, shards_thorough=14)

PROPS = {}

PROPS["C19"] = dict(
    title="The ordering functions are lawful orders that respect causality",
    streams=[dict(name="order", quick=["-n", "1500"], thorough=["-n", "30000", "-thorough"], shards_quick=2, shards_thorough=12)],
    diff_fields=r".*",
    spec_ids=["C19"],
    technique="Lean 4 theorems on the transcribed comparators and insertion sort; differential run of the real comparators/sort against the model",
    level_text="Kernel-checked theorems: cmpHash is an irreflexive, antisymmetric, transitive, total order on distinct hashes; cmpLWW the same when clock id/time pairs differ; clockCompare antisymmetric and transitive; all respect clock time; FWW = -LWW; goSort is a permutation, sorted and input-order independent under those orders. Unbounded integers, any ids and hashes. The model is tied to the code by running the real comparators and sorting.Sort on a grid including extreme times and comparing every answer.",
    level_note="Trusted: Lean kernel; that Go's sort.SliceStable is a correct stable sort for n > 20 (insertion sort is modelled exactly; for a strict total order the sorted permutation is unique, proved); harness + driver. Go int is modelled as an unbounded integer: the repaired Compare never subtracts, and the grid contains MinInt64/MaxInt64 so a reintroduced wrap-around is seen.",
    design_ref="§8 C19",
    rule="pairs: full grid 10 times x 7 ids (incl. prefix-related and empty) x same/different hash, sampled by seed in quick; sorts: random lists (1-12 with ties allowed, 21-80 without). distinct = distinct (time,id,hash-equality) classes of pairs + distinct sort inputs; non-trivial = pair differing in exactly the deciding component or a sort of >= 2 elements",
)

def _core_prop(pid, title, fields, technique, level_text, level_note, rule=None, extra_streams=None):
    PROPS[pid] = dict(
        title=title,
        streams=[core_stream()] + (extra_streams or []),
        diff_fields=fields,
        spec_ids=[pid],
        technique=technique,
        level_text=level_text,
        level_note=level_note,
        design_ref="§8 " + pid,
        rule=rule or "core stream: PRNG histories over 2-6 replicas, 1-4 writers, 3 orderings of append/join/joinN/load/iterate/setIdentity followed by a complete exchange; distinct = distinct operation-shape hashes; non-trivial = at least one fork (two replicas appending concurrently) and one join of overlapping logs",
    )

CORE_NOTE = ("Trusted: Lean kernel; content addressing (an append is given a fresh hash: distinct entries have distinct CIDs — SHA-256 collision freedom); "
             "Go's sort.SliceStable being a correct stable sort beyond 20 elements (insertion sort is modelled exactly; under a strict total order the result is unique, proved); "
             "the hand-written model of log.go/entry_map.go/utils.go/sorting.go, validated on every run by replaying PRNG histories of the real library on the model and comparing entries, heads, values, snapshots, appended entries, iterator output after every operation; "
             "harness, driver, check script.")

_core_prop("C01", "Replicas that merged the same entries converge (join is a CRDT merge)",
    r"(join|append|setid|exchange|init)/(entries|len|values|heads|rawheads|snapshot\..*|json\.heads|join\..*|clock)",
    "Lean 4: invariant induction over all histories (reachable_inv), difference/join-heads specs, uniqueness of sorted permutations; differential replay of real histories incl. complete exchanges",
    "Kernel-checked: for every system reachable by any finite history of appends, unbounded joins (any order/grouping/repetition), identity changes over any number of replicas and writers, two replicas with the same merged-entry set (ghost `know`) have the same entries and heads (convergence), and the same Values() when the ordering is a strict total order on them (convergence_values); the entry set of a join is the union, hence join_comm/assoc/idem; self-join, other-id join and empty join change nothing. Tied to the code by replaying random multi-replica histories + complete exchanges in PRNG order and comparing every observation.",
    CORE_NOTE)
_core_prop("C02", "Heads are exactly the entries nothing else in the log points to",
    r"(join|append|setid|exchange|init)/(heads|rawheads|snapshot\.heads|json\.heads)",
    "Lean 4: heads clause of the replica invariant preserved by append and by the three head filters of Join (join_heads_spec), for all reachable states",
    "Kernel-checked: in every reachable state h is a head iff it is an entry no entry names (heads_spec), heads are non-empty for a non-empty log, a duplicate-free subset of the entries; Heads() is the same set. Correspondence: Heads(), RawHeads(), ToSnapshot().Heads, ToJSONLog().Heads of the real log compared with the model after every operation, and the decidable predicate headsOk evaluated on the implementation's own state.",
    CORE_NOTE)
_core_prop("C03", "Values() is a complete, duplicate-free, causally ordered linearisation",
    r"(join|append|setid|exchange|init)/(values|snapshot\.values)",
    "Lean 4: worklist invariant of traverse (traverse_spec), every entry lies below a head, uniqueness of the sorted permutation",
    "Kernel-checked: in every reachable state with a strict total order on the entries present (always for the hash tie-break, for the default ordering without ties) Values() is a permutation of the entries without duplicates, sorted, with no entry before one of its predecessors, and a function of the entry set only. Correspondence: Values()/ToSnapshot().Values compared with the model after every operation; valuesOk evaluated on the implementation.",
    CORE_NOTE)
_core_prop("C04", "Every appended entry dominates the log it was appended to",
    r"append/.*",
    "Lean 4: theorems on the transcription of Append (predecessors = heads, clock above every entry via every_entry_below_some_head, single new head, references inside the log and disjoint from predecessors)",
    "Kernel-checked for every reachable log, writer and pointer count (any integer): next = the heads (list: reversed sorted heads), clock id = the log's writer key, clock time strictly above every entry incl. merged ones, the entry becomes the single head, skip references are distinct entries of the log and not predecessors, and every entry of the log is in the new entry's causal past. The logarithmic bound on the number of references is evaluated on every implementation append (appendOk) and by model = implementation on refs; its Lean proof is not done yet (stated in DESIGN.md).",
    CORE_NOTE)
_core_prop("C05", "The log is append-only: entries never change or vanish",
    r"(join|append|setid|exchange)/(entries|len|values|snapshot\.values)",
    "Lean 4: monotonicity of every step of the system model (step_mono), sorted-sublist lemma (values_sublist); known finding lww-tie-order proved as a concrete counterexample",
    "Kernel-checked: every operation keeps every entry of every replica retrievable by hash with identical content, never decreases the count, changes only the target replica, and the new Values() contains the old one as a subsequence whenever the ordering is a strict total order on the new entries (values_subsequence_partial). Without that premise the claim is FALSE for the default ordering (two entries of one writer with equal clock time): proved by a concrete model counterexample and reproduced on the implementation — recorded as known finding lww-tie-order. Pointer aliasing between instances cannot occur in the model (immutable values); entry immutability is checked by the harness on hashes.",
    CORE_NOTE)
_core_prop("C15", "Iteration returns the requested causal range, newest first, and always ends",
    r"iter/.*",
    "Lean 4: theorems on the transcription of Iterator; traversal-free specification iterSpec evaluated on every implementation call",
    "Kernel-checked on the model of Iterator: success always closes the channel (also amount 0 and amounts beyond the range), unknown upper bounds are errors that leave the channel untouched, the default iteration is the full linearisation newest first, at most `amount` entries. The full range statement (iterSpec) for arbitrary related bounds is evaluated on every implementation call and compared with the model; its general Lean proof covers unreferenced roots (traverse_spec) — see DESIGN.md.",
    CORE_NOTE)
_core_prop("C16", "A size-bounded merge keeps exactly the newest entries of the full merge",
    r"joinN/.*",
    "Lean 4: theorems on the transcription of Join with a size bound",
    "Kernel-checked on the model: the bounded join holds exactly the last min(n,total) values of the unbounded join's linearisation with heads recomputed over them; a bound >= total equals the unbounded join; the model has no panic outcome and the harness records a panic of the implementation as an outcome. Correspondence: bounds 0..total+3 on forked pairs.",
    CORE_NOTE)

PROPS["C07"] = dict(
    title="Signatures are tamper-evident over every signed field",
    streams=[dict(name="sign", quick=["-n", "60"], thorough=["-n", "1500", "-thorough"], shards_quick=3, shards_thorough=12)],
    diff_fields=r".*",
    spec_ids=["C07"],
    technique="Lean 4: injectivity of the exact signed byte string (encoding/json transcription with a Go-faithful UTF-8 decoder) via a prefix-code argument; ideal-signature hypothesis; byte-exact differential run against entry.VerifToBuffer and real Verify on every single-field mutation",
    level_text="Kernel-checked: toBuffer (the key-sorted JSON object that is signed, with Go's HTML-escaping string encoder) is injective on the signed view (id, payload, next, refs, v, clock id, clock time, additional data, strings read as token lists) — toBuffer_injective / toBuffer_eq_iff; for valid UTF-8 the view is the bytes themselves; under an ideal signature scheme (hypothesis) any change of a signed component, a substituted key or a signature made for other bytes makes verification fail (tamper_detected_*). The full statement is FALSE for payload/log-id/additional-data bytes that are not valid UTF-8 (each invalid byte is signed as U+FFFD): proved as payload_collision / tamper_detected_full_is_false and reproduced on the implementation — known finding payload-invalid-utf8-collision. Tied to the code: model bytes = entry.VerifToBuffer byte for byte on generated entries, and the real Verify outcome on ~60 mutations per entry equals the model's prediction.",
    level_note="Assumed: unforgeability of secp256k1 ECDSA in the idealised form verify pk m s <-> s = sign sk m (signature malleability (r, n-s) is outside the claim); Go's encoding/json and utf8 behaviour as transcribed (checked byte-exactly incl. all 256 single bytes and a lead/continuation grid); harness, driver.",
    design_ref="§8 C07",
    rule="one entry per case through the real CreateEntryWithIO with payloads cycling through 19 classes (ASCII, 2/3/4-byte UTF-8, controls, HTML, quotes, U+2028/9, five kinds of invalid UTF-8, U+FFFD, empty, 4 KiB, random), 0-8 links, 11 clock times incl. int64 extremes, additional data; ~60 single-field mutations each; distinct = distinct entries; non-trivial = has links, additional data or a non-ASCII payload",
)

PROPS["C20"] = dict(
    title="Key material and identities are stable and self-consistent",
    streams=[dict(name="keys", quick=["-n", "30", "-ops", "0"], thorough=["-n", "400", "-ops", "0", "-thorough"], shards_quick=3, shards_thorough=12)],
    diff_fields=r".*",
    spec_ids=["C20"],
    technique="Lean 4: invariant induction over all operation sequences of keystores (LRU cache of any capacity) sharing a datastore; differential run of 1-4 real keystores beyond the cache capacity with restarts",
    level_text="Kernel-checked for all op sequences, any number of keystores over one datastore, any cache capacity >= 1: every cached key equals the stored one (cache_coherent), a created key is reported present and returned identically by every keystore incl. after eviction and restart (created_present, key_stable), a never-created id is absent, CreateIdentity is deterministic per id, and under an ideal signature scheme the id signature, the public-key signature and entry signatures verify under the published keys. Tied to the code by replaying create/get/has/createIdentity/restart sequences over up to 400 ids (cache size 128) on real keystores and comparing every answer, with the real signature checks.",
    level_note="Hypothesis wf: a direct CreateKey is applied to ids whose datastore key is empty (get-or-create is unrestricted); re-creating an existing id replaces the key by design. Assumed: ideal signatures; golang-lru eviction as modelled (compared through LRU probes); datastore key cleaning as transcribed (dsKey, compared with datastore.NewKey). Note recorded in DESIGN.md: ids that clean to the same datastore key (\"x\", \"/x\", \"x/\") alias each other.",
    design_ref="§8 C20",
    rule="cases of 1-4 keystores x up to 400 ids incl. odd ids; ops create/get/has/has-never-created/createIdentity/sign/restart in PRNG order; non-trivial = a created key is read through a non-creator keystore, after a restart, or after >= 128 later creations",
)

_core_prop("C06", "Merge admits only verified, authorised entries and is all-or-nothing",
    r"(join|joinN|append|tamper)/(join\..*|append\.denied|entries|len|heads|rawheads|values|clock|snapshot\..*|json\.heads)",
    "Lean 4: theorems on the transcription of Join with an abstract per-candidate validity predicate (join_rejects, join_admits for every size bound, heads admitted), denied append, create-then-verify under an abstract codec/crypto; differential replay with access-controller denial and tampered source logs",
    "Kernel-checked: if any candidate of a join is invalid (unsigned, mis-signed, key-less, denied) the result is the error outcome, which carries no new state; whatever a successful join (any size bound) leaves in the log was there before or is a candidate with the log's id that passed the validity predicate, and every merged head is such an entry; a log of another id is never merged; a denied append changes neither entries nor heads; an entry signed at creation verifies under every codec whose PreSign is idempotent on its own output (default, link-encrypting, legacy). Tied to the code: histories with per-replica denying access controllers and tampered copies of logs (no signature, corrupted signature, no key, foreign key, changed payload, other log id) used as join sources; error class and the full observation after every join compared with the model; real Verify/Join of entries under the link-encrypting and legacy codecs in the codec stream.",
    CORE_NOTE + " The validity predicate is fed from the harness's knowledge of which entry objects it tampered with and which writers each controller denies; secp256k1 verification itself is trusted.")
