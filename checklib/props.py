"""Per-property configuration of the checks (streams, comparison fields, theorems, claims)."""

KERNEL_TB = [
    "Lean 4.33.0 kernel; axioms per theorem printed by Audit/<id>.lean and required to be a subset of {propext, Classical.choice, Quot.sound}",
    "hand-written Lean model (lean/Model), tied to /repo by the differential harness on every run",
    "Go harness (harness/), model driver (lean/Driver), this check script",
]

CORE_Q = ["-n", "250", "-ops", "40"]
CORE_T = ["-n", "1500", "-ops", "90", "-thorough"]

def core_stream(extra_q=None, extra_t=None):
    return dict(name="core", quick=CORE_Q + (extra_q or []), thorough=CORE_T + (extra_t or []), shards_quick=4, shards_thorough=14)

PROPS = {}

PROPS["C19"] = dict(
    title="The ordering functions are lawful orders that respect causality",
    streams=[dict(name="order", quick=["-n", "1500"], thorough=["-n", "30000", "-thorough"], shards_quick=2, shards_thorough=12)],
    diff_fields=r".*",
    spec_ids=["C19"],
    technique="Lean 4 theorems on the transcribed comparators and insertion sort; differential run of the real comparators/sort against the model",
    level_text="Kernel-checked theorems: cmpHash is an irreflexive, antisymmetric, transitive, total order on distinct hashes; cmpLWW the same when clock id/time pairs differ; clockCompare antisymmetric and transitive; all respect clock time; FWW = -LWW; goSort is a permutation, sorted and input-order independent under those orders. Unbounded integers, any ids and hashes. The model is tied to the code by running the real comparators and sorting.Sort on a grid including extreme times and comparing every answer.",
    level_note="Trusted: Lean kernel; that Go's sort.SliceStable is a correct stable sort for n > 20 (insertion sort is modelled exactly; for a strict total order the sorted permutation is unique, proved); harness + driver. Go int is modelled as an unbounded integer: the repaired Compare never subtracts, and the grid contains MinInt64/MaxInt64 so a reintroduced wrap-around is seen.",
    design_ref="§8 C19",
    rule="pairs: full grid 10 times x 7 ids (incl. prefix-related and empty) x same/different hash, sampled by seed in quick; sorts: random lists (1-12 with ties allowed, 21-80 without). distinct = distinct (time,id,hash-equality) classes of pairs + distinct sort inputs; non-trivial = pair differing in exactly the deciding component or a sort of >= 2 elements",
)

def _core_prop(pid, title, fields, technique, level_text, level_note, rule=None, extra_streams=None):
    PROPS[pid] = dict(
        title=title,
        streams=[core_stream()] + (extra_streams or []),
        diff_fields=fields,
        spec_ids=[pid],
        technique=technique,
        level_text=level_text,
        level_note=level_note,
        design_ref="§8 " + pid,
        rule=rule or "core stream: PRNG histories over 2-6 replicas, 1-4 writers, 3 orderings of append/join/joinN/load/iterate/setIdentity followed by a complete exchange; distinct = distinct operation-shape hashes; non-trivial = at least one fork (two replicas appending concurrently) and one join of overlapping logs",
    )
